"""Reference Z80 interpreter used as an oracle (imports nothing from skoolkit).

Written from the Zilog Z80 CPU User Manual (instruction descriptions, flag
tables, M-cycle/T-state tables), "The Undocumented Z80 Documented" (which
undocumented opcodes exist and what they do to registers) and the
comp.sys.sinclair FAQ contention table (bus-cycle breakdown).

Table-free: opcodes are decoded with the x/y/z/p/q decomposition and flags are
computed arithmetically. One call to step() executes one instruction the way
the simulators under test define "one instruction":

* a DD/FD prefix followed by DD/FD/ED or by an opcode the prefix does not
  alter is a 1-byte, 4 T-state, R+1 instruction of its own;
* a repeating block instruction that repeats leaves PC on itself;
* HALT leaves PC on itself and sets the HALT flag;
* writes to 0x0000-0x3FFF are discarded (Spectrum ROM).

Step result: length, T-states, bus cycles [(addr, n) | ('io', port)], the mask
of flags the documentation defines for the instruction, taken/not-taken, and
the list of memory writes and port accesses performed.
"""

SF, ZF, YF, HF, XF, PF, NF, CF = 0x80, 0x40, 0x20, 0x10, 0x08, 0x04, 0x02, 0x01
DOC = 0xD7  # S Z H PV N C


def parity(v):
    v ^= v >> 4
    v ^= v >> 2
    v ^= v >> 1
    return 0 if v & 1 else PF


class Step:
    __slots__ = ('length', 't', 'cycles', 'fmask', 'taken', 'kind', 'writes', 'ports', 'name', 'alt_cycles')

    def __init__(self):
        self.length = 0
        self.t = 0
        self.cycles = []
        self.alt_cycles = None  # alternative admissible cycle list (see C19)
        self.fmask = 0xFF       # "flags not affected" unless said otherwise
        self.taken = None       # conditional / repeating: True/False
        self.kind = 'seq'       # seq | jump | cond | repeat | halt | prefix
        self.writes = []
        self.ports = []
        self.name = ''


# opcodes whose operation a DD/FD prefix alters
def _affected(op):
    x, y, z = op >> 6, (op >> 3) & 7, op & 7
    p, q = y >> 1, y & 1
    if op == 0xCB:
        return True
    if x == 0:
        if z == 1:
            return q == 1 or p == 2
        if z in (2, 3):
            return p == 2
        if z in (4, 5, 6):
            return y in (4, 5, 6)
        return False
    if x == 1:
        if op == 0x76:
            return False
        return y in (4, 5, 6) or z in (4, 5, 6)
    if x == 2:
        return z in (4, 5, 6)
    return op in (0xE1, 0xE3, 0xE5, 0xE9, 0xF9)


class Z80:
    REGS = ('a', 'f', 'b', 'c', 'd', 'e', 'h', 'l', 'ixh', 'ixl', 'iyh', 'iyl', 'sp', 'i', 'r',
            'a2', 'f2', 'b2', 'c2', 'd2', 'e2', 'h2', 'l2', 'pc', 't', 'iff', 'im', 'halted')

    def __init__(self, mem=None, frame_duration=69888, int_active=32, rom_limit=0x4000):
        self.mem = mem if mem is not None else bytearray(65536)
        for r in self.REGS:
            setattr(self, r, 0)
        self.im = 1
        self.frame_duration = frame_duration
        self.int_active = int_active
        self.rom_limit = rom_limit
        self.inp = lambda port: 0xFF
        self.outp = lambda port, value: None
        self._s = None

    # -- memory -----------------------------------------------------------
    def rd(self, a):
        return self.mem[a & 0xFFFF]

    def wr(self, a, v):
        a &= 0xFFFF
        v &= 0xFF
        self._s.writes.append((a, v))
        if a >= self.rom_limit:
            self.mem[a] = v

    def rd16(self, a):
        return self.rd(a) | (self.rd(a + 1) << 8)

    # -- register helpers -------------------------------------------------
    def bc(self): return (self.b << 8) | self.c
    def de(self): return (self.d << 8) | self.e
    def hl(self): return (self.h << 8) | self.l
    def ix(self): return (self.ixh << 8) | self.ixl
    def iy(self): return (self.iyh << 8) | self.iyl
    def ir(self): return (self.i << 8) | self.r

    def set_bc(self, v): self.b, self.c = (v >> 8) & 255, v & 255
    def set_de(self, v): self.d, self.e = (v >> 8) & 255, v & 255
    def set_hl(self, v): self.h, self.l = (v >> 8) & 255, v & 255

    def get_xy(self, idx):
        if idx == 'IX':
            return self.ix()
        if idx == 'IY':
            return self.iy()
        return self.hl()

    def set_xy(self, idx, v):
        v &= 0xFFFF
        if idx == 'IX':
            self.ixh, self.ixl = v >> 8, v & 255
        elif idx == 'IY':
            self.iyh, self.iyl = v >> 8, v & 255
        else:
            self.h, self.l = v >> 8, v & 255

    def get_r8(self, n, idx=None):
        # n: 0..7 = B C D E H L (HL) A ; idx substitutes H/L by IXh/IXl
        if n == 0: return self.b
        if n == 1: return self.c
        if n == 2: return self.d
        if n == 3: return self.e
        if n == 4:
            return self.ixh if idx == 'IX' else self.iyh if idx == 'IY' else self.h
        if n == 5:
            return self.ixl if idx == 'IX' else self.iyl if idx == 'IY' else self.l
        if n == 7: return self.a
        raise ValueError(n)

    def set_r8(self, n, v, idx=None):
        v &= 255
        if n == 0: self.b = v
        elif n == 1: self.c = v
        elif n == 2: self.d = v
        elif n == 3: self.e = v
        elif n == 4:
            if idx == 'IX': self.ixh = v
            elif idx == 'IY': self.iyh = v
            else: self.h = v
        elif n == 5:
            if idx == 'IX': self.ixl = v
            elif idx == 'IY': self.iyl = v
            else: self.l = v
        elif n == 7: self.a = v
        else:
            raise ValueError(n)

    def get_rp(self, p, idx=None):
        if p == 0: return self.bc()
        if p == 1: return self.de()
        if p == 2: return self.get_xy(idx)
        return self.sp

    def set_rp(self, p, v, idx=None):
        v &= 0xFFFF
        if p == 0: self.set_bc(v)
        elif p == 1: self.set_de(v)
        elif p == 2: self.set_xy(idx, v)
        else: self.sp = v

    def cond(self, y):
        f = self.f
        return (not f & ZF, bool(f & ZF), not f & CF, bool(f & CF),
                not f & PF, bool(f & PF), not f & SF, bool(f & SF))[y]

    # -- ALU ----------------------------------------------------------------
    def _szyx(self, v):
        return (v & (SF | YF | XF)) | (ZF if v == 0 else 0)

    def add8(self, a, b, c):
        r = a + b + c
        res = r & 255
        f = self._szyx(res)
        if (a & 15) + (b & 15) + c > 15: f |= HF
        if (~(a ^ b)) & (a ^ res) & 0x80: f |= PF
        if r > 255: f |= CF
        return res, f

    def sub8(self, a, b, c):
        r = a - b - c
        res = r & 255
        f = self._szyx(res) | NF
        if (a & 15) - (b & 15) - c < 0: f |= HF
        if (a ^ b) & (a ^ res) & 0x80: f |= PF
        if r < 0: f |= CF
        return res, f

    def alu(self, op, v):
        a = self.a
        if op == 0: self.a, self.f = self.add8(a, v, 0)
        elif op == 1: self.a, self.f = self.add8(a, v, self.f & CF)
        elif op == 2: self.a, self.f = self.sub8(a, v, 0)
        elif op == 3: self.a, self.f = self.sub8(a, v, self.f & CF)
        elif op == 4:
            self.a = a & v
            self.f = self._szyx(self.a) | HF | parity(self.a)
        elif op == 5:
            self.a = a ^ v
            self.f = self._szyx(self.a) | parity(self.a)
        elif op == 6:
            self.a = a | v
            self.f = self._szyx(self.a) | parity(self.a)
        else:
            _, f = self.sub8(a, v, 0)
            self.f = (f & ~(YF | XF)) | (v & (YF | XF))
        self._s.fmask = DOC

    def inc8(self, v):
        res = (v + 1) & 255
        f = self._szyx(res) | (self.f & CF)
        if (v & 15) == 15: f |= HF
        if v == 0x7F: f |= PF
        self.f = f
        self._s.fmask = DOC
        return res

    def dec8(self, v):
        res = (v - 1) & 255
        f = self._szyx(res) | (self.f & CF) | NF
        if (v & 15) == 0: f |= HF
        if v == 0x80: f |= PF
        self.f = f
        self._s.fmask = DOC
        return res

    def rot(self, op, v):
        c = self.f & CF
        if op == 0: co = v >> 7; res = ((v << 1) | co) & 255            # RLC
        elif op == 1: co = v & 1; res = (v >> 1) | (co << 7)            # RRC
        elif op == 2: co = v >> 7; res = ((v << 1) | c) & 255           # RL
        elif op == 3: co = v & 1; res = (v >> 1) | (c << 7)             # RR
        elif op == 4: co = v >> 7; res = (v << 1) & 255                 # SLA
        elif op == 5: co = v & 1; res = (v >> 1) | (v & 0x80)           # SRA
        elif op == 6: co = v >> 7; res = ((v << 1) | 1) & 255           # SLL
        else: co = v & 1; res = v >> 1                                  # SRL
        self.f = self._szyx(res) | parity(res) | co
        self._s.fmask = DOC
        return res

    def bit(self, b, v):
        f = (self.f & CF) | HF
        if not v & (1 << b):
            f |= ZF | PF
        if b == 7 and v & 0x80:
            f |= SF
        f |= v & (YF | XF)
        self.f = f
        self._s.fmask = ZF | HF | NF | CF

    def add16(self, a, b):
        r = a + b
        f = self.f & (SF | ZF | PF)
        if (a & 0xFFF) + (b & 0xFFF) > 0xFFF: f |= HF
        if r > 0xFFFF: f |= CF
        f |= (r >> 8) & (YF | XF)
        self.f = f
        self._s.fmask = DOC
        return r & 0xFFFF

    def adc16(self, a, b):
        c = self.f & CF
        r = a + b + c
        res = r & 0xFFFF
        f = ((res >> 8) & (SF | YF | XF)) | (ZF if res == 0 else 0)
        if (a & 0xFFF) + (b & 0xFFF) + c > 0xFFF: f |= HF
        if (~(a ^ b)) & (a ^ res) & 0x8000: f |= PF
        if r > 0xFFFF: f |= CF
        self.f = f
        self._s.fmask = DOC
        return res

    def sbc16(self, a, b):
        c = self.f & CF
        r = a - b - c
        res = r & 0xFFFF
        f = ((res >> 8) & (SF | YF | XF)) | (ZF if res == 0 else 0) | NF
        if (a & 0xFFF) - (b & 0xFFF) - c < 0: f |= HF
        if (a ^ b) & (a ^ res) & 0x8000: f |= PF
        if r < 0: f |= CF
        self.f = f
        self._s.fmask = DOC
        return res

    def daa(self):
        a, f = self.a, self.f
        corr = 0
        c = f & CF
        if (f & HF) or (a & 15) > 9:
            corr |= 0x06
        if c or a > 0x99:
            corr |= 0x60
            c = 1
        if f & NF:
            res = (a - corr) & 255
            h = HF if (f & HF) and (a & 15) < 6 else 0
        else:
            res = (a + corr) & 255
            h = HF if (a & 15) > 9 else 0
        self.a = res
        self.f = self._szyx(res) | parity(res) | (f & NF) | h | c
        self._s.fmask = DOC

    # -- stack ----------------------------------------------------------------
    def push(self, v):
        self.sp = (self.sp - 1) & 0xFFFF
        self.wr(self.sp, v >> 8)
        self.sp = (self.sp - 1) & 0xFFFF
        self.wr(self.sp, v & 255)

    def pop(self):
        v = self.rd16(self.sp)
        self.sp = (self.sp + 2) & 0xFFFF
        return v

    def inc_r(self, n):
        self.r = (self.r & 0x80) | ((self.r + n) & 0x7F)

    # -- execution --------------------------------------------------------
    def step(self):
        s = self._s = Step()
        pc = self.pc
        op = self.rd(pc)
        cyc = s.cycles
        idx = None
        if op in (0xDD, 0xFD):
            op2 = self.rd(pc + 1)
            if op2 in (0xDD, 0xFD, 0xED) or not _affected(op2):
                # lone prefix
                s.length, s.t, s.kind, s.name = 1, 4, 'prefix', 'prefix'
                cyc.append((pc, 4))
                self.inc_r(1)
                self.pc = (pc + 1) & 0xFFFF
                self.t += 4
                return s
            idx = 'IX' if op == 0xDD else 'IY'
            cyc.append((pc, 4))
            pc = (pc + 1) & 0xFFFF
            op = op2
            self.inc_r(1)
            base_len = 1
        else:
            base_len = 0
        if op == 0xCB:
            if idx:
                self._ddcb(s, pc, idx, base_len)
            else:
                self._cb(s, pc)
        elif op == 0xED:
            self._ed(s, pc)
        else:
            self._main(s, pc, op, idx, base_len)
        self.t += s.t
        return s

    # helpers for cycles
    @staticmethod
    def _rep(cyc, addr, n):
        for _ in range(n):
            cyc.append((addr & 0xFFFF, 1))

    def _disp_addr(self, idx, d):
        return (self.get_xy(idx) + (d if d < 128 else d - 256)) & 0xFFFF

    def _main(self, s, pc, op, idx, bl):
        """pc = address of the opcode byte (after a DD/FD prefix if idx)."""
        x, y, z = op >> 6, (op >> 3) & 7, op & 7
        p, q = y >> 1, y & 1
        cyc = s.cycles
        cyc.append((pc, 4))
        self.inc_r(1)
        n1 = (pc + 1) & 0xFFFF
        n2 = (pc + 2) & 0xFFFF
        ln, t = 1, 4
        newpc = None
        ir = self.ir_before
        if x == 0:
            if z == 0:
                if y == 0:
                    s.name = 'NOP'
                elif y == 1:
                    s.name = "EX AF,AF'"
                    self.a, self.a2 = self.a2, self.a
                    self.f, self.f2 = self.f2, self.f
                elif y == 2:
                    s.name = 'DJNZ'
                    s.kind = 'cond'
                    ln = 2
                    self._rep(cyc, ir, 1)
                    cyc.append((n1, 3))
                    self.b = (self.b - 1) & 255
                    e = self.rd(n1)
                    if self.b:
                        s.taken = True
                        t = 13
                        self._rep(cyc, n1, 5)
                        newpc = (pc + 2 + (e if e < 128 else e - 256)) & 0xFFFF
                    else:
                        s.taken = False
                        t = 8
                else:
                    ln = 2
                    cyc.append((n1, 3))
                    e = self.rd(n1)
                    if y == 3:
                        s.name = 'JR'
                        s.kind = 'jump'
                        take = True
                    else:
                        s.name = 'JR cc'
                        s.kind = 'cond'
                        take = self.cond(y - 4)
                        s.taken = take
                    if take:
                        t = 12
                        self._rep(cyc, n1, 5)
                        newpc = (pc + 2 + (e if e < 128 else e - 256)) & 0xFFFF
                    else:
                        t = 7
            elif z == 1:
                if q == 0:
                    s.name = 'LD rp,nn'
                    ln, t = 3, 10
                    cyc += [(n1, 3), (n2, 3)]
                    self.set_rp(p, self.rd16(n1), idx)
                else:
                    s.name = 'ADD HL,rp'
                    t = 11
                    self._rep(cyc, ir, 7)
                    self.set_xy(idx, self.add16(self.get_xy(idx), self.get_rp(p, idx)))
            elif z == 2:
                if p < 2:
                    a = self.bc() if p == 0 else self.de()
                    t = 7
                    cyc.append((a, 3))
                    if q == 0:
                        s.name = 'LD (rp),A'
                        self.wr(a, self.a)
                    else:
                        s.name = 'LD A,(rp)'
                        self.a = self.rd(a)
                else:
                    nn = self.rd16(n1)
                    ln = 3
                    cyc += [(n1, 3), (n2, 3)]
                    if p == 2:
                        t = 16
                        cyc += [(nn, 3), ((nn + 1) & 0xFFFF, 3)]
                        if q == 0:
                            s.name = 'LD (nn),HL'
                            v = self.get_xy(idx)
                            self.wr(nn, v & 255)
                            self.wr(nn + 1, v >> 8)
                        else:
                            s.name = 'LD HL,(nn)'
                            self.set_xy(idx, self.rd16(nn))
                    else:
                        t = 13
                        cyc.append((nn, 3))
                        if q == 0:
                            s.name = 'LD (nn),A'
                            self.wr(nn, self.a)
                        else:
                            s.name = 'LD A,(nn)'
                            self.a = self.rd(nn)
            elif z == 3:
                s.name = 'INC/DEC rp'
                t = 6
                self._rep(cyc, ir, 2)
                self.set_rp(p, self.get_rp(p, idx) + (1 if q == 0 else -1), idx)
            elif z in (4, 5):
                f = self.inc8 if z == 4 else self.dec8
                s.name = 'INC r' if z == 4 else 'DEC r'
                if y == 6:
                    if idx:
                        d = self.rd(n1)
                        a = self._disp_addr(idx, d)
                        ln, t = 2, 19
                        cyc.append((n1, 3))
                        self._rep(cyc, n1, 5)
                    else:
                        a = self.hl()
                        t = 11
                    cyc.append((a, 3))
                    self._rep(cyc, a, 1)
                    cyc.append((a, 3))
                    self.wr(a, f(self.rd(a)))
                else:
                    self.set_r8(y, f(self.get_r8(y, idx)), idx)
            elif z == 6:
                s.name = 'LD r,n'
                if y == 6:
                    if idx:
                        d = self.rd(n1)
                        a = self._disp_addr(idx, d)
                        ln, t = 3, 15
                        cyc += [(n1, 3), (n2, 3)]
                        self._rep(cyc, n2, 2)
                        cyc.append((a, 3))
                        self.wr(a, self.rd(n2))
                    else:
                        a = self.hl()
                        ln, t = 2, 10
                        cyc += [(n1, 3), (a, 3)]
                        self.wr(a, self.rd(n1))
                else:
                    ln, t = 2, 7
                    cyc.append((n1, 3))
                    self.set_r8(y, self.rd(n1), idx)
            else:  # z == 7
                a, f = self.a, self.f
                c = f & CF
                keep = f & (SF | ZF | PF)
                if y == 0:
                    s.name = 'RLCA'
                    co = a >> 7
                    self.a = ((a << 1) | co) & 255
                    self.f = keep | co | (self.a & (YF | XF))
                elif y == 1:
                    s.name = 'RRCA'
                    co = a & 1
                    self.a = (a >> 1) | (co << 7)
                    self.f = keep | co | (self.a & (YF | XF))
                elif y == 2:
                    s.name = 'RLA'
                    co = a >> 7
                    self.a = ((a << 1) | c) & 255
                    self.f = keep | co | (self.a & (YF | XF))
                elif y == 3:
                    s.name = 'RRA'
                    co = a & 1
                    self.a = (a >> 1) | (c << 7)
                    self.f = keep | co | (self.a & (YF | XF))
                elif y == 4:
                    s.name = 'DAA'
                    self.daa()
                elif y == 5:
                    s.name = 'CPL'
                    self.a = a ^ 255
                    self.f = (f & (SF | ZF | PF | CF)) | HF | NF | (self.a & (YF | XF))
                elif y == 6:
                    s.name = 'SCF'
                    self.f = keep | CF | (a & (YF | XF))
                else:
                    s.name = 'CCF'
                    self.f = keep | (HF if c else 0) | (0 if c else CF) | (a & (YF | XF))
                s.fmask = DOC
        elif x == 1:
            if op == 0x76:
                s.name = 'HALT'
                s.kind = 'halt'
                if self.halted:
                    cyc[-1] = (n1, 4)
                tt = self.t + 4
                if self.iff and tt % self.frame_duration < self.int_active:
                    self.halted = 0
                else:
                    self.halted = 1
                    newpc = pc
            else:
                s.name = 'LD r,r'
                if y == 6 or z == 6:
                    if idx:
                        d = self.rd(n1)
                        a = self._disp_addr(idx, d)
                        ln, t = 2, 15
                        cyc.append((n1, 3))
                        self._rep(cyc, n1, 5)
                    else:
                        a = self.hl()
                        t = 7
                    cyc.append((a, 3))
                    if y == 6:
                        self.wr(a, self.get_r8(z))      # H/L are not substituted here
                    else:
                        self.set_r8(y, self.rd(a))
                else:
                    self.set_r8(y, self.get_r8(z, idx), idx)
        elif x == 2:
            s.name = 'ALU r'
            if z == 6:
                if idx:
                    d = self.rd(n1)
                    a = self._disp_addr(idx, d)
                    ln, t = 2, 15
                    cyc.append((n1, 3))
                    self._rep(cyc, n1, 5)
                else:
                    a = self.hl()
                    t = 7
                cyc.append((a, 3))
                self.alu(y, self.rd(a))
            else:
                self.alu(y, self.get_r8(z, idx))
        else:  # x == 3
            if z == 0:
                s.name = 'RET cc'
                s.kind = 'cond'
                self._rep(cyc, ir, 1)
                if self.cond(y):
                    s.taken = True
                    t = 11
                    cyc += [(self.sp, 3), ((self.sp + 1) & 0xFFFF, 3)]
                    newpc = self.pop()
                else:
                    s.taken = False
                    t = 5
            elif z == 1:
                if q == 0:
                    s.name = 'POP rp2'
                    t = 10
                    cyc += [(self.sp, 3), ((self.sp + 1) & 0xFFFF, 3)]
                    v = self.pop()
                    if p == 3:
                        self.a, self.f = v >> 8, v & 255
                    else:
                        self.set_rp(p, v, idx)
                elif p == 0:
                    s.name = 'RET'
                    s.kind = 'jump'
                    t = 10
                    cyc += [(self.sp, 3), ((self.sp + 1) & 0xFFFF, 3)]
                    newpc = self.pop()
                elif p == 1:
                    s.name = 'EXX'
                    self.b, self.b2 = self.b2, self.b
                    self.c, self.c2 = self.c2, self.c
                    self.d, self.d2 = self.d2, self.d
                    self.e, self.e2 = self.e2, self.e
                    self.h, self.h2 = self.h2, self.h
                    self.l, self.l2 = self.l2, self.l
                elif p == 2:
                    s.name = 'JP (HL)'
                    s.kind = 'jump'
                    newpc = self.get_xy(idx)
                else:
                    s.name = 'LD SP,HL'
                    t = 6
                    self._rep(cyc, ir, 2)
                    self.sp = self.get_xy(idx)
            elif z == 2:
                s.name = 'JP cc,nn'
                s.kind = 'cond'
                ln, t = 3, 10
                cyc += [(n1, 3), (n2, 3)]
                s.taken = self.cond(y)
                if s.taken:
                    newpc = self.rd16(n1)
            elif z == 3:
                if y == 0:
                    s.name = 'JP nn'
                    s.kind = 'jump'
                    ln, t = 3, 10
                    cyc += [(n1, 3), (n2, 3)]
                    newpc = self.rd16(n1)
                elif y == 2:
                    s.name = 'OUT (n),A'
                    ln, t = 2, 11
                    cyc.append((n1, 3))
                    port = self.rd(n1) | (self.a << 8)
                    cyc.append(('io', port))
                    s.ports.append(('w', port, self.a))
                    self.outp(port, self.a)
                elif y == 3:
                    s.name = 'IN A,(n)'
                    ln, t = 2, 11
                    cyc.append((n1, 3))
                    port = self.rd(n1) | (self.a << 8)
                    cyc.append(('io', port))
                    self.a = self.inp(port) & 255
                    s.ports.append(('r', port, self.a))
                elif y == 4:
                    s.name = 'EX (SP),HL'
                    t = 19
                    sp, sp1 = self.sp, (self.sp + 1) & 0xFFFF
                    cyc += [(sp, 3), (sp1, 3), (sp1, 1), (sp1, 3), (sp, 3), (sp, 1), (sp, 1)]
                    v = self.rd16(sp)
                    w = self.get_xy(idx)
                    self.wr(sp1, w >> 8)
                    self.wr(sp, w & 255)
                    self.set_xy(idx, v)
                elif y == 5:
                    s.name = 'EX DE,HL'
                    self.d, self.h = self.h, self.d
                    self.e, self.l = self.l, self.e
                elif y == 6:
                    s.name = 'DI'
                    self.iff = 0
                else:
                    s.name = 'EI'
                    self.iff = 1
            elif z == 4:
                s.name = 'CALL cc,nn'
                s.kind = 'cond'
                ln, t = 3, 10
                cyc += [(n1, 3), (n2, 3)]
                s.taken = self.cond(y)
                if s.taken:
                    t = 17
                    self._rep(cyc, n2, 1)
                    cyc += [((self.sp - 1) & 0xFFFF, 3), ((self.sp - 2) & 0xFFFF, 3)]
                    newpc = self.rd16(n1)       # operand is read before the push
                    self.push((pc + 3) & 0xFFFF)
            elif z == 5:
                if q == 0:
                    s.name = 'PUSH rp2'
                    t = 11
                    self._rep(cyc, ir, 1)
                    cyc += [((self.sp - 1) & 0xFFFF, 3), ((self.sp - 2) & 0xFFFF, 3)]
                    v = ((self.a << 8) | self.f) if p == 3 else self.get_rp(p, idx)
                    self.push(v)
                else:  # only p == 0 reaches here (DD/ED/FD handled elsewhere)
                    s.name = 'CALL nn'
                    s.kind = 'jump'
                    ln, t = 3, 17
                    cyc += [(n1, 3), (n2, 3)]
                    self._rep(cyc, n2, 1)
                    cyc += [((self.sp - 1) & 0xFFFF, 3), ((self.sp - 2) & 0xFFFF, 3)]
                    newpc = self.rd16(n1)
                    self.push((pc + 3) & 0xFFFF)
            elif z == 6:
                s.name = 'ALU n'
                ln, t = 2, 7
                cyc.append((n1, 3))
                self.alu(y, self.rd(n1))
            else:
                s.name = 'RST'
                s.kind = 'jump'
                t = 11
                self._rep(cyc, ir, 1)
                cyc += [((self.sp - 1) & 0xFFFF, 3), ((self.sp - 2) & 0xFFFF, 3)]
                self.push((pc + 1) & 0xFFFF)
                newpc = y * 8
        if idx:
            t += 4
        s.length = ln + bl
        s.t = t
        self.pc = newpc if newpc is not None else (pc + ln) & 0xFFFF
        if s.kind == 'halt' and newpc is not None:
            # PC stays on the HALT opcode itself (prefix cannot precede: HALT is unaffected)
            self.pc = pc

    @property
    def ir_before(self):
        # I:R value put on the bus during internal cycles. The simulators under
        # test use the value of R before this instruction's own increment(s)?
        # Contention only depends on bits 14-15 of the address (I register), so
        # the low byte is irrelevant; use the current value.
        return ((self.i << 8) | self.r) & 0xFFFF

    def _cb(self, s, pc):
        n1 = (pc + 1) & 0xFFFF
        op = self.rd(n1)
        x, y, z = op >> 6, (op >> 3) & 7, op & 7
        cyc = s.cycles
        cyc += [(pc, 4), (n1, 4)]
        self.inc_r(2)
        s.length = 2
        if z == 6:
            a = self.hl()
            v = self.rd(a)
            cyc.append((a, 3))
            self._rep(cyc, a, 1)
            if x == 1:
                s.t = 12
            else:
                s.t = 15
                cyc.append((a, 3))
        else:
            v = self.get_r8(z)
            s.t = 8
        if x == 0:
            s.name = 'ROT'
            res = self.rot(y, v)
        elif x == 1:
            s.name = 'BIT'
            self.bit(y, v)
            res = None
        elif x == 2:
            s.name = 'RES'
            res = v & ~(1 << y)
        else:
            s.name = 'SET'
            res = v | (1 << y)
        if res is not None:
            if z == 6:
                self.wr(a, res)
            else:
                self.set_r8(z, res)
        self.pc = (pc + 2) & 0xFFFF

    def _ddcb(self, s, pc, idx, bl):
        # pc = address of the CB byte; DD/FD at pc-1 (cycle for it already added)
        n1 = (pc + 1) & 0xFFFF   # displacement
        n2 = (pc + 2) & 0xFFFF   # opcode
        d = self.rd(n1)
        op = self.rd(n2)
        x, y, z = op >> 6, (op >> 3) & 7, op & 7
        cyc = s.cycles
        cyc += [(pc, 4), (n1, 3), (n2, 3)]
        self._rep(cyc, n2, 2)
        self.inc_r(1)
        a = self._disp_addr(idx, d)
        v = self.rd(a)
        cyc.append((a, 3))
        self._rep(cyc, a, 1)
        s.length = 4
        if x == 1:
            s.name = 'BIT (xy)'
            s.t = 20
            self.bit(y, v)
        else:
            s.t = 23
            cyc.append((a, 3))
            if x == 0:
                s.name = 'ROT (xy)'
                res = self.rot(y, v)
            elif x == 2:
                s.name = 'RES (xy)'
                res = v & ~(1 << y)
            else:
                s.name = 'SET (xy)'
                res = v | (1 << y)
            self.wr(a, res)
            if z != 6:
                self.set_r8(z, res)
        self.pc = (pc + 3) & 0xFFFF

    def _ed(self, s, pc):
        n1 = (pc + 1) & 0xFFFF
        op = self.rd(n1)
        x, y, z = op >> 6, (op >> 3) & 7, op & 7
        p, q = y >> 1, y & 1
        cyc = s.cycles
        cyc += [(pc, 4), (n1, 4)]
        self.inc_r(2)
        ln, t = 2, 8
        newpc = None
        ir = self.ir_before
        n2 = (pc + 2) & 0xFFFF
        n3 = (pc + 3) & 0xFFFF
        if x == 1:
            if z == 0:
                s.name = 'IN r,(C)'
                t = 12
                port = self.bc()
                cyc.append(('io', port))
                v = self.inp(port) & 255
                s.ports.append(('r', port, v))
                if y != 6:
                    self.set_r8(y, v)
                self.f = self._szyx(v) | parity(v) | (self.f & CF)
                s.fmask = DOC
            elif z == 1:
                s.name = 'OUT (C),r'
                t = 12
                port = self.bc()
                cyc.append(('io', port))
                v = 0 if y == 6 else self.get_r8(y)
                s.ports.append(('w', port, v))
                self.outp(port, v)
            elif z == 2:
                t = 15
                self._rep(cyc, ir, 7)
                if q == 0:
                    s.name = 'SBC HL,rp'
                    self.set_hl(self.sbc16(self.hl(), self.get_rp(p)))
                else:
                    s.name = 'ADC HL,rp'
                    self.set_hl(self.adc16(self.hl(), self.get_rp(p)))
            elif z == 3:
                ln, t = 4, 20
                nn = self.rd16(n2)
                cyc += [(n2, 3), (n3, 3), (nn, 3), ((nn + 1) & 0xFFFF, 3)]
                if q == 0:
                    s.name = 'LD (nn),rp'
                    v = self.get_rp(p)
                    self.wr(nn, v & 255)
                    self.wr(nn + 1, v >> 8)
                else:
                    s.name = 'LD rp,(nn)'
                    self.set_rp(p, self.rd16(nn))
            elif z == 4:
                s.name = 'NEG'
                self.a, self.f = self.sub8(0, self.a, 0)
                s.fmask = DOC
            elif z == 5:
                s.name = 'RETI' if y == 1 else 'RETN'
                s.kind = 'jump'
                t = 14
                cyc += [(self.sp, 3), ((self.sp + 1) & 0xFFFF, 3)]
                newpc = self.pop()
            elif z == 6:
                s.name = 'IM'
                self.im = (0, 0, 1, 2, 0, 0, 1, 2)[y]
            else:
                if y == 0:
                    s.name = 'LD I,A'
                    t = 9
                    self._rep(cyc, ir, 1)
                    self.i = self.a
                elif y == 1:
                    s.name = 'LD R,A'
                    t = 9
                    self._rep(cyc, ir, 1)
                    self.r = self.a
                elif y in (2, 3):
                    s.name = 'LD A,I' if y == 2 else 'LD A,R'
                    t = 9
                    self._rep(cyc, ir, 1)
                    v = self.i if y == 2 else self.r
                    self.a = v
                    pv = PF if self.iff else 0
                    tt = self.t + 9
                    if self.iff and tt % self.frame_duration < self.int_active:
                        pv = 0  # an interrupt accepted during LD A,I/R resets P/V
                    self.f = self._szyx(v) | pv | (self.f & CF)
                    s.fmask = DOC
                elif y == 4:
                    s.name = 'RRD'
                    t = 18
                    a = self.hl()
                    cyc.append((a, 3))
                    self._rep(cyc, a, 4)
                    cyc.append((a, 3))
                    v = self.rd(a)
                    self.wr(a, ((self.a << 4) | (v >> 4)) & 255)
                    self.a = (self.a & 0xF0) | (v & 0x0F)
                    self.f = self._szyx(self.a) | parity(self.a) | (self.f & CF)
                    s.fmask = DOC
                elif y == 5:
                    s.name = 'RLD'
                    t = 18
                    a = self.hl()
                    cyc.append((a, 3))
                    self._rep(cyc, a, 4)
                    cyc.append((a, 3))
                    v = self.rd(a)
                    self.wr(a, ((v << 4) | (self.a & 0x0F)) & 255)
                    self.a = (self.a & 0xF0) | (v >> 4)
                    self.f = self._szyx(self.a) | parity(self.a) | (self.f & CF)
                    s.fmask = DOC
                else:
                    s.name = 'ED NOP'
        elif x == 2 and z <= 3 and y >= 4:
            inc = 1 if y in (4, 6) else -1
            rep = y >= 6
            if rep:
                s.kind = 'repeat'
            hl = self.hl()
            if z == 0:
                s.name = 'LDI/LDD/LDIR/LDDR'
                de = self.de()
                v = self.rd(hl)
                cyc += [(hl, 3), (de, 3), (de, 1), (de, 1)]
                self.wr(de, v)
                self.set_hl(hl + inc)
                self.set_de(de + inc)
                bc = (self.bc() - 1) & 0xFFFF
                self.set_bc(bc)
                k = (v + self.a) & 255
                self.f = (self.f & (SF | ZF | CF)) | (PF if bc else 0) | (k & XF) | ((k & 2) << 4)
                s.fmask = DOC
                t = 16
                if rep:
                    s.taken = bc != 0
                    if bc:
                        t = 21
                        s.alt_cycles = list(cyc)
                        self._rep(cyc, de, 5)
                        self._rep(s.alt_cycles, de + inc, 5)
                        newpc = pc
            elif z == 1:
                s.name = 'CPI/CPD/CPIR/CPDR'
                v = self.rd(hl)
                cyc.append((hl, 3))
                self._rep(cyc, hl, 5)
                res, f = self.sub8(self.a, v, 0)
                self.set_hl(hl + inc)
                bc = (self.bc() - 1) & 0xFFFF
                self.set_bc(bc)
                k = (res - (1 if f & HF else 0)) & 255
                self.f = (f & (SF | ZF | HF)) | NF | (PF if bc else 0) | (self.f & CF) | (k & XF) | ((k & 2) << 4)
                s.fmask = DOC
                t = 16
                if rep:
                    s.taken = bc != 0 and res != 0
                    if s.taken:
                        t = 21
                        s.alt_cycles = list(cyc)
                        self._rep(cyc, hl, 5)
                        self._rep(s.alt_cycles, hl + inc, 5)
                        newpc = pc
            elif z == 2:
                s.name = 'INI/IND/INIR/INDR'
                self._rep(cyc, ir, 1)
                port = self.bc()
                cyc.append(('io', port))
                v = self.inp(port) & 255
                s.ports.append(('r', port, v))
                cyc.append((hl, 3))
                self.wr(hl, v)
                self.set_hl(hl + inc)
                c0 = self.c
                self.b = (self.b - 1) & 255
                # Zilog: Z from B-1, N set, C "not affected", S/H/P-V unknown. The agreed behaviour (Young, "The
                # Undocumented Z80 Documented", 4.3): S,Z from B-1; N = bit 7 of the byte; k = byte + ((C +/- 1) & 255);
                # H = C = k > 255; P/V = parity((k & 7) xor B)
                k = v + ((c0 + inc) & 255)
                self.f = ((self.b & SF) | (ZF if self.b == 0 else 0) | (NF if v & 0x80 else 0) | ((HF | CF) if k > 255 else 0)
                          | (PF if bin((k & 7) ^ self.b).count('1') % 2 == 0 else 0) | (self.f & (XF | 0x20)))
                s.fmask = SF | ZF | HF | PF | NF | CF
                t = 16
                if rep:
                    s.taken = self.b != 0
                    if s.taken:
                        s.fmask = SF | ZF | NF | CF      # H and P/V of an instruction that repeats are adjusted further (not modelled)
                        t = 21
                        s.alt_cycles = list(cyc)
                        self._rep(cyc, hl, 5)
                        self._rep(s.alt_cycles, hl + inc, 5)
                        newpc = pc
            else:
                s.name = 'OUTI/OUTD/OTIR/OTDR'
                self._rep(cyc, ir, 1)
                v = self.rd(hl)
                cyc.append((hl, 3))
                self.b = (self.b - 1) & 255
                port = self.bc()
                cyc.append(('io', port))
                s.ports.append(('w', port, v))
                self.outp(port, v)
                self.set_hl(hl + inc)
                # as for INI/IND, with k = byte + L (after the update of HL)
                k = v + self.l
                self.f = ((self.b & SF) | (ZF if self.b == 0 else 0) | (NF if v & 0x80 else 0) | ((HF | CF) if k > 255 else 0)
                          | (PF if bin((k & 7) ^ self.b).count('1') % 2 == 0 else 0) | (self.f & (XF | 0x20)))
                s.fmask = SF | ZF | HF | PF | NF | CF
                t = 16
                if rep:
                    s.taken = self.b != 0
                    if s.taken:
                        s.fmask = SF | ZF | NF | CF
                        t = 21
                        s.alt_cycles = list(cyc)
                        self._rep(cyc, port, 5)                                   # BC after the decrement
                        self._rep(s.alt_cycles, (port + 0x100) & 0xFFFF, 5)       # BC before
                        newpc = pc
        else:
            s.name = 'ED NOP'
        s.length = ln
        s.t = t
        self.pc = newpc if newpc is not None else (pc + ln) & 0xFFFF

    # -- convenience ------------------------------------------------------
    def snapshot(self):
        return {r: getattr(self, r) for r in self.REGS}


def instruction_length(b0, b1=0, b2=0, b3=0):
    """Length in bytes of the instruction starting with these bytes, with the
    lone-prefix convention described in the module docstring."""
    z = Z80(bytearray([b0, b1, b2, b3]) + bytearray(65532), rom_limit=0)
    z.sp = 0x8000
    return z.step().length
