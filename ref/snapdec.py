"""Reference decoders and encoders for Spectrum snapshot files, written from the
published format descriptions (no skoolkit import):

* .z80 versions 1, 2 and 3  - "Z80 file format" (worldofspectrum.net FAQ, z80format.htm)
* .szx / ZX-State           - "ZX-State" (spectaculator.com/docs/zx-state)
* .sna 48K / 128K           - worldofspectrum.net FAQ (formats reference)

State representation (a plain dict):

    machine   '48K' | '128K' | '+2'          (plus '16K' from decoders only)
    a f bc de hl a2 f2 bc2 de2 hl2 ix iy sp pc i r      register values
    iff1 iff2 im border
    issue2    0/1, or None when the file does not carry it
    tstates   T-states since the start of the frame, None when not stored (Z80 v1/v2, SNA)
    memptr    None when not stored (Z80, SNA)
    out7ffd outfffd ay(list of 16)            None when not stored (Z80 v1, SNA 48K)
    outfe     None when not stored (Z80, SNA)
    ram       bytes(49152) for 48K; list of 8 bytes(16384) for 128K/+2
    extra     format-specific bytes the model does not interpret (preserved so that a
              modifying tool can be checked for "nothing else changed")

`python -m ref.snapdec` runs the self-test (encoders against the decoders, the
worked examples of the format texts, T-state counter bijection).
"""
import struct
import zlib

FRAME = {'16K': 69888, '48K': 69888, '128K': 70908, '+2': 70908}
REG16 = ('bc', 'de', 'hl', 'bc2', 'de2', 'hl2', 'ix', 'iy', 'sp', 'pc')
REG8 = ('a', 'f', 'a2', 'f2', 'i', 'r')


class FormatError(Exception):
    pass


def blank_state(machine='48K'):
    s = {'machine': machine}
    for k in REG16 + REG8:
        s[k] = 0
    s.update(iff1=0, iff2=0, im=0, border=0, issue2=0, tstates=0, memptr=0, outfe=0,
             out7ffd=0, outfffd=0, ay=[0] * 16, extra={})
    s['ram'] = bytes(49152) if machine == '48K' else [bytes(16384) for _ in range(8)]
    return s


# ---------------------------------------------------------------------------
# Z80 run-length coding
# ---------------------------------------------------------------------------
def rle_decode(data, start=0, end=None, end_marker=False):
    """Decode ED ED nn bb run-length data from data[start:end].

    With end_marker (version 1 files) decoding stops at the 00 ED ED 00 marker
    and the marker must be present. Returns (bytes, index after the consumed input).
    """
    if end is None:
        end = len(data)
    out = bytearray()
    i = start
    while i < end:
        if end_marker and i + 4 <= end and data[i] == 0 and data[i + 1] == 0xED and data[i + 2] == 0xED and data[i + 3] == 0:
            return bytes(out), i + 4
        if i + 4 <= end and data[i] == 0xED and data[i + 1] == 0xED:
            n, b = data[i + 2], data[i + 3]
            out += bytes([b]) * n
            i += 4
        else:
            out.append(data[i])
            i += 1
    if end_marker:
        raise FormatError('version 1 end marker 00 ED ED 00 not found')
    return bytes(out), i


def rle_encode(data, maxrun=255, minrun=5):
    """Compress as the format text prescribes: runs of at least five equal bytes
    become ED ED nn bb; runs of two or more ED bytes are always coded; the byte
    directly following a single ED is never taken into a run."""
    if not (5 <= minrun <= maxrun <= 255):
        raise ValueError('bad run limits')
    out = bytearray()
    i = 0
    n = len(data)
    while i < n:
        b = data[i]
        j = i + 1
        while j < n and data[j] == b and j - i < maxrun:
            j += 1
        run = j - i
        if b == 0xED:
            if run >= 2:
                out += bytes((0xED, 0xED, run, 0xED))
                i = j
            else:
                out.append(0xED)
                i += 1
                if i < n:
                    out.append(data[i])     # never the start of a coded run
                    i += 1
        elif run >= minrun:
            out += bytes((0xED, 0xED, run, b))
            i = j
        else:
            out += data[i:j]
            i = j
    return bytes(out)


# ---------------------------------------------------------------------------
# Z80 T-state counter (version 3): the high counter counts up modulo 4 and is 3
# just after the interrupt; within each quarter frame the low counter counts
# down from (frame/4 - 1) to 0.
# ---------------------------------------------------------------------------
def z80_t_to_counters(t, frame):
    q = frame // 4
    t %= frame
    return q - 1 - (t % q), (3 + t // q) % 4


def z80_counters_to_t(lo, hi, frame):
    q = frame // 4
    return ((hi - 3) % 4) * q + (q - 1 - lo)


V2_HW = {0: '48K', 1: '48K', 3: '128K', 4: '128K', 12: '+2'}
V3_HW = {0: '48K', 1: '48K', 3: '48K', 4: '128K', 5: '128K', 6: '128K', 12: '+2'}


def decode_z80(d):
    d = bytes(d)
    if len(d) < 30:
        raise FormatError('short Z80 file')
    s = {'extra': {}}
    s['a'], s['f'] = d[0], d[1]
    s['bc'], s['hl'], pc, s['sp'] = struct.unpack_from('<4H', d, 2)
    s['i'] = d[10]
    b12 = 1 if d[12] == 255 else d[12]
    s['r'] = (d[11] & 0x7F) | ((b12 & 1) << 7)
    s['border'] = (b12 >> 1) & 7
    s['de'], s['bc2'], s['de2'], s['hl2'] = struct.unpack_from('<4H', d, 13)
    s['a2'], s['f2'] = d[21], d[22]
    s['iy'], s['ix'] = struct.unpack_from('<2H', d, 23)
    s['iff1'], s['iff2'] = d[27], d[28]
    s['im'] = d[29] & 3
    s['issue2'] = (d[29] >> 2) & 1
    s['extra']['b12'] = b12 & 0xD0          # SamRom bit and the two meaningless bits
    s['extra']['b29'] = d[29] & 0xF8        # interrupt frequency, video sync, joystick
    s['memptr'] = s['outfe'] = None
    if pc:
        s['format'] = 'z80v1'
        s['pc'] = pc
        s['machine'] = '48K'
        s['tstates'] = s['out7ffd'] = s['outfffd'] = s['ay'] = None
        if b12 & 0x20:
            ram, _ = rle_decode(d, 30, None, True)
        else:
            ram = d[30:]
        if len(ram) != 49152:
            raise FormatError('version 1 RAM is %d bytes' % len(ram))
        s['ram'] = ram
        return s
    xl = struct.unpack_from('<H', d, 30)[0]
    if xl not in (23, 54, 55):
        raise FormatError('additional header length %d' % xl)
    x = d[32:32 + xl]
    s['format'] = 'z80v2' if xl == 23 else 'z80v3'
    s['pc'] = struct.unpack_from('<H', x, 0)[0]
    hw = x[2]
    table = V2_HW if xl == 23 else V3_HW
    if hw not in table:
        raise FormatError('hardware mode %d not modelled' % hw)
    machine = table[hw]
    if x[5] & 0x80:     # "modify hardware": any 48K -> 16K, any 128K -> +2
        machine = {'48K': '16K', '128K': '+2'}.get(machine, machine)
    s['machine'] = machine
    s['out7ffd'] = x[3]
    s['outfffd'] = x[6]
    s['ay'] = list(x[7:23])
    s['extra']['hw'] = hw
    s['extra']['b36'] = x[4]
    s['extra']['b37'] = x[5] & 0x7F
    if xl > 23:
        s['tstates'] = z80_counters_to_t(x[23] + 256 * x[24], x[25], FRAME[machine])
        s['extra']['tail'] = x[26:].hex()
    else:
        s['tstates'] = None
    pages = {}
    i = 32 + xl
    while i < len(d):
        if i + 3 > len(d):
            raise FormatError('truncated block header')
        ln, pg = struct.unpack_from('<HB', d, i)
        i += 3
        if ln == 0xFFFF:
            pages[pg] = d[i:i + 16384]
            i += 16384
        else:
            pages[pg], _ = rle_decode(d, i, i + ln)
            i += ln
        if len(pages[pg]) != 16384 or i > len(d):
            raise FormatError('page %d is %d bytes' % (pg, len(pages[pg])))
    try:
        if machine in ('128K', '+2'):
            s['ram'] = [pages[p + 3] for p in range(8)]
        else:
            s['ram'] = pages[8] + pages[4] + pages[5]      # 4000, 8000, C000
    except KeyError as e:
        raise FormatError('page %s missing' % e)
    return s


def encode_z80(s, version=3, blocks='rle', v1_compressed=True, xlen=54, maxrun=255, minrun=5):
    """blocks: 'rle' | 'raw' (length 0xFFFF) or a list/tuple of those per written page."""
    machine = s['machine']
    is128 = machine in ('128K', '+2')
    ex = s.get('extra') or {}
    h = bytearray(30)
    h[0], h[1] = s['a'], s['f']
    struct.pack_into('<4H', h, 2, s['bc'], s['hl'], s['pc'] if version == 1 else 0, s['sp'])
    h[10] = s['i']
    h[11] = s['r'] & 0x7F      # "bit 7 is not significant"
    h[12] = (s['r'] >> 7) | (s['border'] << 1) | (ex.get('b12', 0) & 0xD0)
    struct.pack_into('<4H', h, 13, s['de'], s['bc2'], s['de2'], s['hl2'])
    h[21], h[22] = s['a2'], s['f2']
    struct.pack_into('<2H', h, 23, s['iy'], s['ix'])
    h[27], h[28] = s['iff1'], s['iff2']
    h[29] = (s['im'] & 3) | ((s.get('issue2') or 0) << 2) | (ex.get('b29', 0) & 0xF8)
    if version == 1:
        if is128 or not s['pc']:
            raise ValueError('version 1 holds 48K snapshots with PC != 0 only')
        ram = bytes(s['ram'])
        if v1_compressed:
            h[12] |= 0x20
            return bytes(h) + rle_encode(ram, maxrun, minrun) + b'\x00\xed\xed\x00'
        return bytes(h) + ram
    xl = 23 if version == 2 else xlen
    x = bytearray(xl)
    struct.pack_into('<H', x, 0, s['pc'])
    if 'hw' in ex:
        hw = ex['hw']
    elif version == 2:
        hw = {'48K': 0, '128K': 3, '+2': 12}[machine]
    else:
        hw = {'48K': 0, '128K': 4, '+2': 12}[machine]
    x[2] = hw
    x[3] = s.get('out7ffd') or 0
    x[4] = ex.get('b36', 0)
    x[5] = ex.get('b37', 0) & 0x7F
    if machine == '+2' and hw != 12:
        x[5] |= 0x80
    x[6] = s.get('outfffd') or 0
    x[7:23] = bytes(s.get('ay') or [0] * 16)
    if version == 3:
        lo, hi = z80_t_to_counters(s.get('tstates') or 0, FRAME[machine])
        x[23], x[24], x[25] = lo & 255, lo >> 8, hi
        tail = bytes.fromhex(ex.get('tail', ''))[:xl - 26]
        x[26:26 + len(tail)] = tail
    out = bytearray(h) + struct.pack('<H', xl) + x
    if is128:
        pages = [(p + 3, bytes(s['ram'][p])) for p in range(8)]
    else:
        ram = bytes(s['ram'])
        pages = [(4, ram[0x4000:0x8000]), (5, ram[0x8000:]), (8, ram[:0x4000])]
    for k, (pg, data) in enumerate(pages):
        mode = blocks if isinstance(blocks, str) else blocks[k % len(blocks)]
        if mode == 'raw':
            out += struct.pack('<HB', 0xFFFF, pg) + data
        else:
            z = rle_encode(data, maxrun, minrun)
            out += struct.pack('<HB', len(z), pg) + z
    return bytes(out)


# ---------------------------------------------------------------------------
# ZX-State (SZX)
# ---------------------------------------------------------------------------
SZX_MACHINES = {0: '16K', 1: '48K', 2: '128K', 3: '+2'}


def szx_blocks(d):
    d = bytes(d)
    if d[:4] != b'ZXST' or len(d) < 8:
        raise FormatError('not a ZX-State file')
    i = 8
    while i < len(d):
        if i + 8 > len(d):
            raise FormatError('truncated block header')
        bid = d[i:i + 4]
        ln = struct.unpack_from('<I', d, i + 4)[0]
        if i + 8 + ln > len(d):
            raise FormatError('truncated block %r' % bid)
        yield bid, d[i + 8:i + 8 + ln]
        i += 8 + ln


def decode_szx(d):
    d = bytes(d)
    s = {'format': 'szx', 'extra': {'version': [d[4], d[5]], 'flags': d[7], 'blocks': []}}
    if d[6] not in SZX_MACHINES:
        raise FormatError('machine id %d not modelled' % d[6])
    s['machine'] = SZX_MACHINES[d[6]]
    s['issue2'] = None
    s['outfffd'] = s['ay'] = None
    pages = {}
    seen = set()
    for bid, b in szx_blocks(d):
        if bid == b'Z80R':
            (af, s['bc'], s['de'], s['hl'], af2, s['bc2'], s['de2'], s['hl2'],
             s['ix'], s['iy'], s['sp'], s['pc']) = struct.unpack_from('<12H', b, 0)
            s['a'], s['f'] = af >> 8, af & 255
            s['a2'], s['f2'] = af2 >> 8, af2 & 255
            s['i'], s['r'], s['iff1'], s['iff2'], s['im'] = b[24:29]
            s['tstates'] = struct.unpack_from('<I', b, 29)[0]
            s['extra']['z80r'] = b[33:35].hex()     # chHoldIntReqCycles, chFlags
            s['memptr'] = struct.unpack_from('<H', b, 35)[0]
        elif bid == b'SPCR':
            s['border'], s['out7ffd'], s['extra']['1ffd'], s['outfe'] = b[0], b[1], b[2], b[3]
            s['extra']['spcr'] = b[4:8].hex()
        elif bid == b'AY\x00\x00':
            s['extra']['ayflags'] = b[0]
            s['outfffd'] = b[1]
            s['ay'] = list(b[2:18])
        elif bid == b'KEYB':
            flags = struct.unpack_from('<I', b, 0)[0]
            s['issue2'] = flags & 1
            s['extra']['keyb'] = [flags & ~1, b[4]]
        elif bid == b'RAMP':
            flags, pg = struct.unpack_from('<HB', b, 0)
            data = b[3:]
            if flags & 1:
                data = zlib.decompress(data)
            if len(data) != 16384:
                raise FormatError('RAM page %d is %d bytes' % (pg, len(data)))
            pages[pg] = data
        else:
            s['extra']['blocks'].append([bid.hex(), b.hex()])
        seen.add(bid)
    for need in (b'Z80R', b'SPCR'):
        if need not in seen:
            raise FormatError('%r block missing' % need)
    try:
        if s['machine'] in ('128K', '+2'):
            s['ram'] = [pages[p] for p in range(8)]
        elif s['machine'] == '48K':
            s['ram'] = pages[5] + pages[2] + pages[0]
        else:
            s['ram'] = pages[5]
    except KeyError as e:
        raise FormatError('RAM page %s missing' % e)
    return s


def _blk(bid, data):
    return bid + struct.pack('<I', len(data)) + bytes(data)


def encode_szx(s, compress=True, level=6, with_ay=None, with_keyb=None, ram_first=False):
    """compress: bool or list of bools per written page. with_ay/with_keyb: force
    presence of the optional AY and KEYB blocks (default: AY for 128K, KEYB for 48K)."""
    machine = s['machine']
    is128 = machine in ('128K', '+2')
    ex = s.get('extra') or {}
    ver = ex.get('version', [1, 4])
    out = bytearray(b'ZXST' + bytes([ver[0], ver[1], {'48K': 1, '128K': 2, '+2': 3}[machine], ex.get('flags', 0)]))
    z = bytearray(37)
    struct.pack_into('<12H', z, 0, (s['a'] << 8) | s['f'], s['bc'], s['de'], s['hl'], (s['a2'] << 8) | s['f2'],
                     s['bc2'], s['de2'], s['hl2'], s['ix'], s['iy'], s['sp'], s['pc'])
    z[24:29] = bytes((s['i'], s['r'], s['iff1'], s['iff2'], s['im']))
    struct.pack_into('<I', z, 29, (s.get('tstates') or 0))
    z[33:35] = bytes.fromhex(ex.get('z80r', '0000'))
    struct.pack_into('<H', z, 35, s.get('memptr') or 0)
    spcr = bytes((s['border'], (s.get('out7ffd') or 0) if is128 else 0, ex.get('1ffd', 0), s.get('outfe') or 0)) + \
        bytes.fromhex(ex.get('spcr', '00000000'))
    head = [_blk(b'Z80R', z), _blk(b'SPCR', spcr)]
    if with_ay if with_ay is not None else is128:
        head.append(_blk(b'AY\x00\x00', bytes((ex.get('ayflags', 0), s.get('outfffd') or 0)) + bytes(s.get('ay') or [0] * 16)))
    if with_keyb if with_keyb is not None else not is128:
        kf, kj = ex.get('keyb', [0, 0])
        head.append(_blk(b'KEYB', struct.pack('<IB', (kf & ~1) | (s.get('issue2') or 0), kj)))
    for bid, data in ex.get('blocks', []):
        head.append(_blk(bytes.fromhex(bid), bytes.fromhex(data)))
    if is128:
        pages = [(p, bytes(s['ram'][p])) for p in range(8)]
    else:
        ram = bytes(s['ram'])
        pages = [(5, ram[:0x4000]), (2, ram[0x4000:0x8000]), (0, ram[0x8000:])]
    tail = []
    for k, (pg, data) in enumerate(pages):
        c = compress if isinstance(compress, bool) else compress[k % len(compress)]
        if c:
            tail.append(_blk(b'RAMP', struct.pack('<HB', 1, pg) + zlib.compress(data, level)))
        else:
            tail.append(_blk(b'RAMP', struct.pack('<HB', 0, pg) + data))
    for b in (tail + head if ram_first else head + tail):
        out += b
    return bytes(out)


# ---------------------------------------------------------------------------
# SNA
# ---------------------------------------------------------------------------
def decode_sna(d):
    d = bytes(d)
    if len(d) not in (49179, 131103, 147487):
        raise FormatError('bad SNA length %d' % len(d))
    s = {'format': 'sna', 'extra': {}}
    s['i'] = d[0]
    s['hl2'], s['de2'], s['bc2'] = struct.unpack_from('<3H', d, 1)
    s['f2'], s['a2'] = d[7], d[8]
    s['hl'], s['de'], s['bc'], s['iy'], s['ix'] = struct.unpack_from('<5H', d, 9)
    s['iff2'] = (d[19] >> 2) & 1
    s['iff1'] = s['iff2']
    s['extra']['b19'] = d[19] & 0xFB
    s['r'] = d[20]
    s['f'], s['a'] = d[21], d[22]
    s['sp'] = struct.unpack_from('<H', d, 23)[0]
    s['im'] = d[25]
    s['border'] = d[26]
    s['issue2'] = s['tstates'] = s['memptr'] = s['outfe'] = s['outfffd'] = s['ay'] = None
    if len(d) == 49179:
        s['machine'] = '48K'
        s['ram'] = d[27:]
        s['out7ffd'] = None
        # PC is on the stack (the loader executes RETN); SP is the stored value
        s['pc'] = struct.unpack_from('<H', s['ram'], s['sp'] - 16384)[0] if 16384 <= s['sp'] < 65535 else None
        return s
    s['machine'] = '128K'
    s['pc'] = struct.unpack_from('<H', d, 49179)[0]
    s['out7ffd'] = d[49181]
    s['extra']['trdos'] = d[49182]
    page = s['out7ffd'] & 7
    banks = {5: d[27:27 + 16384], 2: d[27 + 16384:27 + 32768], page: d[27 + 32768:27 + 49152]}
    rest = [p for p in range(8) if p not in (5, 2, page)]
    if len(d) != 49183 + 16384 * len(rest):
        raise FormatError('SNA length does not match the paged bank')
    i = 49183
    for p in rest:
        banks[p] = d[i:i + 16384]
        i += 16384
    s['ram'] = [banks[p] for p in range(8)]
    return s


def encode_sna(s):
    ex = s.get('extra') or {}
    h = bytearray(27)
    h[0] = s['i']
    struct.pack_into('<3H', h, 1, s['hl2'], s['de2'], s['bc2'])
    h[7], h[8] = s['f2'], s['a2']
    struct.pack_into('<5H', h, 9, s['hl'], s['de'], s['bc'], s['iy'], s['ix'])
    h[19] = (ex.get('b19', 0) & 0xFB) | (4 if s['iff2'] else 0)
    h[20] = s['r']
    h[21], h[22] = s['f'], s['a']
    struct.pack_into('<H', h, 23, s['sp'])
    h[25] = s['im']
    h[26] = s['border']
    if s['machine'] == '48K':
        return bytes(h) + bytes(s['ram'])
    page = s['out7ffd'] & 7
    ram = s['ram']
    out = bytes(h) + bytes(ram[5]) + bytes(ram[2]) + bytes(ram[page])
    out += struct.pack('<HBB', s['pc'], s['out7ffd'], ex.get('trdos', 0))
    for p in range(8):
        if p not in (5, 2, page):
            out += bytes(ram[p])
    return out


def decode(data, ext):
    ext = ext.lower().lstrip('.')
    if ext == 'z80':
        return decode_z80(data)
    if ext == 'szx':
        return decode_szx(data)
    if ext == 'sna':
        return decode_sna(data)
    raise ValueError(ext)


# ---------------------------------------------------------------------------
# Self-test
# ---------------------------------------------------------------------------
def _selftest():
    import hashlib
    import itertools
    n = 0

    def eq(a, b, what):
        nonlocal n
        n += 1
        if a != b:
            raise SystemExit('snapdec selftest FAILED: %s: %r != %r' % (what, a if len(repr(a)) < 200 else '...', b if len(repr(b)) < 200 else '...'))

    # worked examples from the format text
    eq(rle_encode(bytes([0xED] + [0] * 6)), bytes([0xED, 0, 0xED, 0xED, 5, 0]), 'ED 6*00')
    eq(rle_encode(bytes([0xED, 0xED])), bytes([0xED, 0xED, 2, 0xED]), 'two EDs')
    eq(rle_encode(bytes([7] * 4)), bytes([7] * 4), 'short run stays literal')
    eq(rle_encode(bytes([7] * 5)), bytes([0xED, 0xED, 5, 7]), 'run of 5')
    eq(rle_encode(bytes([7] * 256)), bytes([0xED, 0xED, 255, 7, 7]), 'run of 256')
    eq(rle_decode(bytes([0xED, 0xED, 3, 9, 0, 0xED, 0xED, 0]), end_marker=True), (bytes([9, 9, 9]), 8), 'end marker')
    # RLE: every string over {ED,00,01} up to length 8, three run limits, both framings
    for ln in range(9):
        for t in itertools.product((0xED, 0, 1), repeat=ln):
            data = bytes(t)
            z = rle_encode(data)
            eq(rle_decode(z)[0], data, 'rle %s' % data.hex())
            eq(rle_decode(z + b'\x00\xed\xed\x00', end_marker=True), (data, len(z) + 4), 'rle+marker %s' % data.hex())
    for b in (0xED, 0, 1):
        for ln in range(1, 601):
            for pre in (b'', b'\xed', b'\x00', b'\x02'):
                for post in (b'', b'\xed', b'\x00', b'\x02'):
                    data = pre + bytes([b]) * ln + post
                    for mx, mn in ((255, 5), (100, 7)):
                        eq(rle_decode(rle_encode(data, mx, mn))[0], data, 'run %d*%02X' % (ln, b))
    # T-state counters: bijection and the documented fixed points
    for frame in (69888, 70908):
        q = frame // 4
        eq(z80_t_to_counters(0, frame), (q - 1, 3), 'T=0 just after the interrupt')
        eq(z80_t_to_counters(q, frame), (q - 1, 0), 'T=q')
        eq(z80_t_to_counters(frame - 1, frame), (0, 2), 'last T of the frame')
        seen = set()
        for t in range(frame):
            lo, hi = z80_t_to_counters(t, frame)
            if not (0 <= lo < q and 0 <= hi < 4):
                raise SystemExit('snapdec selftest FAILED: counters out of range at T=%d' % t)
            seen.add((lo, hi))
            if z80_counters_to_t(lo, hi, frame) != t:
                raise SystemExit('snapdec selftest FAILED: T %d does not round-trip' % t)
        eq(len(seen), frame, 'counter bijection')
        n += frame

    # whole files
    def rnd(tag, k):
        return hashlib.shake_256(tag.encode()).digest(k)

    def mkstate(machine, tag):
        s = blank_state(machine)
        r = rnd(tag, 64)
        for j, k in enumerate(REG16):
            s[k] = r[2 * j] | (r[2 * j + 1] << 8)
        for j, k in enumerate(REG8):
            s[k] = r[24 + j]
        s['pc'] = s['pc'] or 1
        s.update(iff1=r[30] & 1, iff2=r[30] & 1, im=r[31] % 3, border=r[32] & 7, issue2=r[33] & 1,
                 tstates=(r[34] | r[35] << 8 | r[36] << 16) % FRAME[machine], memptr=r[37] | r[38] << 8, outfe=r[39])
        if machine != '48K':
            s.update(out7ffd=r[40], outfffd=r[41], ay=list(r[42:58]), issue2=0)
        page = lambda t: (rnd(tag + t, 5000) + bytes([0xED]) * 300 + bytes(600) + b'\xed' + bytes([1]) * 255 + rnd(tag + t + 'x', 16384))[:16384]
        s['ram'] = page('a') + page('b') + page('c') if machine == '48K' else [page(str(p)) for p in range(8)]
        return s

    def same(a, b, skip, what):
        for k in a:
            if k in skip or k in ('format', 'extra'):
                continue
            eq(b.get(k), a[k], '%s: %s' % (what, k))

    for machine in ('48K', '128K', '+2'):
        s = mkstate(machine, machine)
        for ver in (1, 2, 3):
            if ver == 1 and machine != '48K':
                continue
            for blocks in ('rle', 'raw', ['raw', 'rle']):
                for v1c in (True, False):
                    d = decode_z80(encode_z80(s, ver, blocks, v1c, xlen=55 if blocks == 'raw' else 54))
                    skip = {'memptr', 'outfe'} | ({'tstates'} if ver < 3 else set()) | \
                        ({'out7ffd', 'outfffd', 'ay'} if ver == 1 else set())
                    same(s, d, skip, 'z80 v%d %s' % (ver, machine))
                    eq(d['format'], 'z80v%d' % ver, 'version detection')
        for comp in (True, False, [True, False]):
            for first in (False, True):
                d = decode_szx(encode_szx(s, comp, level=0 if first else 9, ram_first=first))
                skip = {'issue2'} if machine != '48K' else {'out7ffd', 'outfffd', 'ay'}
                same(s, d, skip, 'szx %s' % machine)
        if machine != '+2':
            t = dict(s)
            if machine == '48K':
                ram = bytearray(s['ram'])
                t['sp'] = 0x8000
                ram[0x4000:0x4002] = struct.pack('<H', s['pc'])
                t['ram'] = bytes(ram)
            d = decode_sna(encode_sna(t))
            same(t, d, {'issue2', 'tstates', 'memptr', 'outfe', 'outfffd', 'ay'} | ({'out7ffd'} if machine == '48K' else set()), 'sna %s' % machine)
    print('snapdec selftest: %d checks passed' % n)


if __name__ == '__main__':
    _selftest()
