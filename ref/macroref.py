"""Reference model of SkoolKit's "SMPL"/numeric skool macros, written from
sphinx/source/skool-macros.rst only (no skoolkit import).

`build_unit(ast, mode)` walks an abstract description of one *expansion unit*
(JSON-able nested lists, see NODE FORMATS) and produces, in ONE recursive pass,
both the macro text and the text its documentation says it expands to.

State model: variables dict (#LET), memory dict (#POKES/#PEEK/#STR), snapshot
stack (#PUSHS/#POPS), macro table (#DEF).

Only forms that the documentation makes unambiguous are emitted:
  * a parameter list that contains an expression, a replacement field, a macro
    or a keyword argument is always enclosed in parentheses; bare lists contain
    only decimal/$hex literals (or a loop variable that is known to be >= 0, as
    in the documented `#PEEKn`) and are followed by a *guard* character that
    cannot continue the list;
  * every binary operation is parenthesised (no precedence is assumed);
    `/` and `%` only with a >= 0, b > 0; `**`, `<<`, `>>` with small
    non-negative right operands; bitwise operators only on non-negative values;
    `&&`/`||` only as `((a && b) != 0)` (only their truth is documented);
  * string parameter delimiters are chosen among the documented forms that are
    valid for the actual parameter texts (brackets balanced, commas only inside
    parentheses, alternative delimiter/separator absent from the text, never
    `&`, `<`, `>`, never alphanumeric);
  * `#PUSHS name` is followed by a guard, `#FORMAT` always has an explicit
    `case`, `#DEF` of an already defined name always has explicit flags.

Where the value of an operation falls outside the documented domain for the
*current* operand values the operator is replaced by `+` (text and value stay
consistent); if that makes the text of a loop body differ between iterations
the unit is rejected with OutOfDomain (the caller discards it).

NODE FORMATS (lists; `pf`/`sf` are small ints that select parameter forms)
 expressions:
  ['num', v, style]            literal (style 0 decimal, 1 $HEX, 2 $hex)
  ['neg', v]                   -v (parenthesised lists only)
  ['op', op, a, b, spaced]
  ['var', i]  ['dvar', i, key] {name} / {name[key]} of a #LET variable
  ['lv', i]                    loop variable / integer argument of a #DEF macro
  ['fld', i]                   {base} {case} {mode[base]} {mode[case]} {vars[foo]}
  ['peekx', e] ['evalx', e] ['ifx', c, a, b] ['mapx', e, d, [[k, v]..]]
  ['sumx', a, n]               #FOR(a,a+n)(n,n,+)
  ['callx', i, [args]]
 text:
  ['lit', s] ['sv', i] ['lv', i] ['seq', [nodes]]
  ['eval', e, base, width, pf, hashed]
  ['n', e, hwidth, dwidth, hexflag, affix, pf, sf]      affix = None | [prefix, suffix|None]
  ['if', e, a, b|None, pf, sf, hashed]
  ['map', e, default, [[kexpr, vnode]..], pf, sf, hashed]
  ['for', a, b, step|None, flags|None, body, sep|None, fsep|None, pf, sf]
  ['foreach', [items], body, sep|None, fsep|None, sf1, sf2]
  ['while', count, body, style, sf]
  ['let', i, e, sf] ['lets', i, node, sf]
  ['letd', i, isstr, default, [[key, value|None]..], sf, sf2]
  ['letk', i, isstr, kexpr, value, sf]
  ['format', case, [parts], sf]     part = ['lit', s] | ['f', kind, i, spec, key] | node
  ['peek', e, pf] ['chr', code, flags|None, pf] ['space', e|None, pf]
  ['pokes', [[addr, byte, length|None, step|None, pf]..], g]
  ['snap', name, body, g] ['pushs', name, g] ['pops', g]
  ['str', addr, [bytes], kind, flags, pf]
  ['def', i, flags|None, [idefault|None..], [sdefault|None..], body, sf]
  ['call', i, [args|None..], nkw, [sargs]|None, pf, sf]
  ['pc', g]
"""
import re

MAXDEPTH = 4
MAXLEN = 3000
BIG = 10 ** 9

LOOPVARS = ['n', 'j', 'k', 'z']            # never occur in generated literal text
INTVARS = ['a', 'b', 'c', 'lives', 'x']
STRVARS = ['s$', 't$', 'msg$']
DICTVARS = ['d', 'tab', 'e$', 'm$']        # the last two hold strings
WHILEVARS = ['w', 'ww', 'www', 'wwww', 'wwwww']
MACROS = ['MIN', 'DBL', 'TWICE', 'HEXX', 'MAC', 'ZZ']
IPARAMS = ['m', 'p', 'x']                  # not hex digits, not loop variables
SPARAMS = ['s', 't']
FIELDS = ['base', 'case', 'mode[base]', 'mode[case]', 'vars[foo]']
GUARDS = [' ', '.', ':', '!', '?']
ALT_DELIMS = list('/|!;:@_?=+*%.^"\'')
LAST_RESORT = list('~`¦§¬¶¤¢')   # never occur in generated literal text
CHR_CODES = ([c for c in range(33, 127) if c != 35] + list(range(161, 256)) + [913, 937, 955, 8364, 8593, 9786])
FALLBACK_LIT = 'x'
SP = '\ue000'     # what #SPACE produces (a space in ASM mode, &#160; in HTML mode); see `plain()`


def plain(s):
    """Expected text with the #SPACE marker and no-break spaces turned into spaces."""
    return s.replace(SP, ' ').replace('\xa0', ' ')


def edge_space(s):
    """True if stripping `s` is mode-dependent: ASM mode strips the spaces made by #SPACE,
    HTML mode does not regard &#160; as whitespace."""
    t = s.strip()
    return bool(t) and (t[0] == SP or t[-1] == SP) or (not t and SP in s)


class OutOfDomain(Exception):
    """The unit left the domain in which the documentation defines the result."""


class BadOp(Exception):
    pass


# --------------------------------------------------------------------------
# arithmetic: the documented operators over Python integers
# --------------------------------------------------------------------------
OPS = ['+', '-', '*', '/', '%', '**', '&', '|', '^', '<<', '>>', '==', '!=', '<', '>', '<=', '>=', '&&', '||']


def apply_op(op, a, b):
    if op == '+':
        v = a + b
    elif op == '-':
        v = a - b
    elif op == '*':
        v = a * b
    elif op == '/':
        if a < 0 or b <= 0:
            raise BadOp
        v = a // b
    elif op == '%':
        if a < 0 or b <= 0:
            raise BadOp
        v = a % b
    elif op == '**':
        if not (0 <= b <= 4 and abs(a) <= 256):
            raise BadOp
        v = a ** b
    elif op in ('&', '|', '^'):
        if a < 0 or b < 0:
            raise BadOp
        v = a & b if op == '&' else (a | b if op == '|' else a ^ b)
    elif op in ('<<', '>>'):
        if a < 0 or not 0 <= b <= 12:
            raise BadOp
        v = a << b if op == '<<' else a >> b
    elif op == '==':
        v = int(a == b)
    elif op == '!=':
        v = int(a != b)
    elif op == '<':
        v = int(a < b)
    elif op == '>':
        v = int(a > b)
    elif op == '<=':
        v = int(a <= b)
    elif op == '>=':
        v = int(a >= b)
    elif op == '&&':
        v = int(bool(a) and bool(b))
    elif op == '||':
        v = int(bool(a) or bool(b))
    else:
        raise ValueError(op)
    if abs(v) > BIG:
        raise BadOp
    return v


# --------------------------------------------------------------------------
# string parameter forms
# --------------------------------------------------------------------------
def balanced(s, o, c):
    d = 0
    for ch in s:
        if ch == o:
            d += 1
        elif ch == c:
            d -= 1
            if d < 0:
                return False
    return d == 0


def commas_protected(s):
    """Parentheses balanced and every comma inside parentheses."""
    d = 0
    for ch in s:
        if ch == '(':
            d += 1
        elif ch == ')':
            d -= 1
            if d < 0:
                return False
        elif ch == ',' and d == 0:
            return False
    return d == 0


BRACKETS = [('(', ')'), ('[', ']'), ('{', '}')]


def _delim_pool(cx):
    pool = ALT_DELIMS
    if cx.noquote:
        pool = [c for c in pool if c not in '"\'']
    return pool


def wrap_single(text, sf, cx):
    """One string parameter consisting of arbitrary text."""
    pool = _delim_pool(cx)
    nforms = 3 + len(pool)
    for k in range(nforms):
        f = (sf + k) % nforms
        if f < 3:
            o, c = BRACKETS[f]
            if o == '{' and cx.nobrace:
                continue
            if balanced(text, o, c):
                return o + text + c
        else:
            d = pool[f - 3]
            if d not in text and not (d == ';' and any(c in text for c in '&<>"\'')):
                return d + text + d
    for d in LAST_RESORT:
        if d not in text:
            return d + text + d
    raise OutOfDomain('no delimiter left')


def _volatile(items, cx):
    """Do the items contain a string argument of a #DEF macro or a #FOREACH variable? Its value
    (letters and digits, possibly nothing) is substituted textually before the items are parsed."""
    for name, kind, val in cx.env:
        if kind == 'str':
            toks = [name] if name in LOOPVARS else ['${%s}' % name, '{%s}' % name]
            if any(t in it for it in items for t in toks):
                return True
    return False


def _alt_ok(items, d, s, volatile=False):
    if any(s in it for it in items):
        return False
    if volatile and s == d:
        return False      # an item that becomes empty would put the separator next to the delimiter
    if s == ' ' and any('{' in it for it in items):
        return False      # a replacement field with a width is padded with spaces when it is formatted
    if ';' in (d, s) and any(c in it for it in items for c in '&<>"\''):
        return False      # in HTML mode these characters are written as entities, which end with ';'
    content = s.join(items)
    return (content + s + d).find(s + d) == len(content)


def wrap_multi(items, sf, cx, parens_only=False):
    """Several string parameters."""
    if parens_only:
        content = ','.join(items)
        if all(commas_protected(it) for it in items):
            return '(' + content + ')'
        raise OutOfDomain('parentheses required but not usable')
    pool = _delim_pool(cx)
    seps = pool + [' ']
    vol = _volatile(items, cx)
    nalt = 8
    nforms = 3 + nalt
    content = ','.join(items)
    protected = all(commas_protected(it) for it in items)
    for k in range(nforms):
        f = (sf + k) % nforms
        if f < 3:
            o, c = BRACKETS[f]
            if o == '{' and cx.nobrace:
                continue
            if protected and balanced(content, o, c):
                return o + content + c
        else:
            j = (sf // nforms + (f - 3) * 5) % len(pool)
            d = pool[j]
            for s in (d, ' ', seps[(j * 7 + sf) % len(seps)]):
                if _alt_ok(items, d, s, vol):
                    return d + s + s.join(items) + s + d
    for i, d in enumerate(LAST_RESORT):
        s = LAST_RESORT[i - 1] if vol else d
        if _alt_ok(items, d, s, vol):
            return d + s + s.join(items) + s + d
    raise OutOfDomain('no delimiter left')


# --------------------------------------------------------------------------
# state
# --------------------------------------------------------------------------
class DictVar:
    def __init__(self, default, items):
        self.default = default
        self.items = dict(items)

    def get(self, k):
        return self.items.get(k, self.default)

    def copy(self):
        return DictVar(self.default, self.items)


class State:
    def __init__(self, mem0=None):
        self.vars = {}
        self.mem = dict(mem0 or {})
        self.stack = []
        self.macros = {}       # name -> Macro (dynamic: last executed definition)

    def copy(self):
        s = State(self.mem)
        s.vars = {k: (v.copy() if isinstance(v, DictVar) else v) for k, v in self.vars.items()}
        s.stack = [dict(m) for m in self.stack]
        s.macros = dict(self.macros)
        return s


class Macro:
    def __init__(self, name, flags, inames, idefaults, snames, sdefaults, body, scope, pure):
        self.name = name
        self.flags = flags
        self.inames = inames
        self.idefaults = idefaults      # list aligned with inames: int or None (required)
        self.snames = snames
        self.sdefaults = sdefaults      # list aligned with snames: ('lit', s) / ('arg', k) / None
        self.body = body
        self.scope = scope              # static scope at definition time
        self.pure = pure
        self.text = None


class Scope:
    """What is *statically* known to be defined at a point of the text."""
    def __init__(self, ints=(), strs=(), dicts=(), macros=None):
        self.ints = list(ints)
        self.strs = list(strs)
        self.dicts = list(dicts)         # names without []
        self.macros = dict(macros or {})   # name -> Macro

    def copy(self):
        return Scope(self.ints, self.strs, self.dicts, self.macros)


class Cx:
    """Context of a node."""
    __slots__ = ('env', 'live', 'nobrace', 'noquote', 'pstyle', 'depth', 'loops', 'whiles', 'nested', 'plain', 'fmtctx', 'esc')

    def __init__(self, env=(), live=True, nobrace=False, noquote=False, pstyle=None, depth=0, loops=0, whiles=0, nested=False, plain=False, fmtctx=False, esc=0):
        self.env = env            # tuple of (name, kind, value) with kind in 'int','nn','str'
        self.live = live
        self.nobrace = nobrace    # a .format() will be applied to this text: no literal braces
        self.noquote = noquote    # inside a #FOR/#FOREACH body
        self.pstyle = pstyle      # None, '$' or '{': how #DEF arguments are written
        self.depth = depth
        self.loops = loops
        self.whiles = whiles
        self.nested = nested      # not at the top level of the unit
        self.plain = plain        # literal text without & < > " '
        self.fmtctx = fmtctx      # directly inside a #LET string value: replacement fields allowed
        self.esc = esc            # number of .format() passes this text undergoes before its own macro parses it

    def but(self, **kw):
        c = Cx(self.env, self.live, self.nobrace, self.noquote, self.pstyle, self.depth, self.loops, self.whiles, self.nested, self.plain, self.fmtctx, self.esc)
        for k, v in kw.items():
            setattr(c, k, v)
        return c

    def deeper(self, **kw):
        kw.setdefault('fmtctx', False)
        return self.but(depth=self.depth + 1, nested=True, **kw)


def is_pure(node):
    """No state change anywhere below."""
    if not isinstance(node, list) or not node:
        return True
    if isinstance(node[0], str) and node[0] in ('let', 'lets', 'letd', 'letk', 'pokes', 'snap', 'pushs', 'pops', 'str', 'def', 'while', 'call', 'callx'):
        return False
    return all(is_pure(x) for x in node if isinstance(x, list))


def count_macros(node):
    """Number of macro nodes (for the non-triviality rule) and nesting depth."""
    if not isinstance(node, list) or not node:
        return 0, 0
    subs = [count_macros(x) for x in node if isinstance(x, list)]
    n = sum(s[0] for s in subs)
    d = max([s[1] for s in subs] or [0])
    if isinstance(node[0], str) and node[0] not in ('lit', 'num', 'neg', 'op', 'var', 'dvar', 'lv', 'sv', 'fld', 'seq', 'f'):
        return n + 1, d + 1
    return n, d


# --------------------------------------------------------------------------
# the builder
# --------------------------------------------------------------------------
class Builder:
    def __init__(self, mode, mem0=None):
        self.base = mode.get('base', 0)
        self.case = mode.get('case', 0)
        self.vars = dict(mode.get('vars', {}))
        self.pc = mode.get('pc')
        # classes of input that are normally avoided (each is a reported finding); a replay case
        # may switch an exclusion off to reproduce the finding
        self.allow = set(mode.get('allow', ()))
        self.state = State(mem0)
        self.scope = Scope()
        self.stats = {'state_changes': 0, 'reads_after_change': 0, 'repairs': 0, 'forms': set(), 'macros': set(),
                      'excluded': set(), 'maxdepth': 0, 'mode_dependent': False, 'pops': 0}

    # -- helpers ---------------------------------------------------------
    def guard(self, g):
        return GUARDS[g % len(GUARDS)]

    def note(self, name):
        self.stats['macros'].add(name)

    def changed(self):
        self.stats['state_changes'] += 1

    def read(self):
        if self.stats['state_changes']:
            self.stats['reads_after_change'] += 1

    def check_len(self, s):
        if s is not None and len(s) > MAXLEN:
            raise OutOfDomain('output too long')
        return s

    # -- literal text ----------------------------------------------------
    def lit(self, s, cx):
        s = s.replace('#', '').replace('$', '')
        for ch in LAST_RESORT:
            s = s.replace(ch, '')
        for v in LOOPVARS:
            s = s.replace(v, '')
        if cx.nobrace or cx.pstyle or cx.esc:
            s = s.replace('{', '').replace('}', '')
        if cx.plain:
            for ch in '&<>"\'':
                s = s.replace(ch, '')
        return s

    # -- expressions -----------------------------------------------------
    # returns (text, value, kind); kind: 'lit' literal, 'nn' bare-able loop variable, 'atom', 'op'
    def e(self, node, cx):
        tag = node[0]
        live = cx.live
        if tag == 'num':
            v = abs(int(node[1]))
            style = node[2] % 3
            if style == 0:
                t = str(v)
            elif style == 1:
                t = '$%X' % v
            else:
                t = '$%x' % v
            if cx.pstyle == '$' and style:
                # a $-placeholder body: a hex literal could be read as a placeholder only if it
                # were a parameter name; parameter names contain no hex digit, so this is safe
                pass
            return t, v, 'lit'
        if tag == 'neg':
            v = abs(int(node[1]))
            return '-%d' % v, -v, 'neg'
        if tag == 'op':
            return self.e_op(node, cx)
        if tag == 'var':
            if not self.scope.ints:
                return self.e(['num', node[1], 0], cx)
            name = self.scope.ints[node[1] % len(self.scope.ints)]
            t = self.field(name, cx)
            v = None
            if live:
                self.read()
                v = self.state.vars[name]
            return t, v, 'atom'
        if tag == 'dvar':
            dicts = [d for d in self.scope.dicts if not d.endswith('$')]
            if not dicts:
                return self.e(['num', node[2], 0], cx)
            name = dicts[node[1] % len(dicts)]
            key = abs(int(node[2]))
            t = self.field('%s[%d]' % (name, key), cx)
            v = None
            if live:
                self.read()
                v = self.state.vars[name].get(key)
            return t, v, 'atom'
        if tag == 'lv':
            atoms = [a for a in cx.env if a[1] in ('int', 'nn')]
            if not atoms:
                return self.e(['num', node[1], 0], cx)
            name, kind, val = atoms[node[1] % len(atoms)]
            return self.atom_text(name, cx, False), (val if live else None), ('nn' if kind == 'nn' else 'atom')
        if tag == 'fld':
            name = FIELDS[node[1] % len(FIELDS)]
            self.stats['mode_dependent'] = True
            v = {'base': self.base, 'case': self.case, 'mode[base]': self.base, 'mode[case]': self.case,
                 'vars[foo]': self.vars.get('foo', 0)}[name]
            return self.field(name, cx), (v if live else None), 'atom'
        if cx.depth >= MAXDEPTH:
            return self.e(['num', 1, 0], cx)
        self.stats['maxdepth'] = max(self.stats['maxdepth'], cx.depth + 1)
        if tag == 'peekx':
            self.note('#PEEK')
            t, v, k = self.e(node[1], cx.deeper())
            return '#PEEK' + self.params([(t, k)], 1, cx), self.peek(v, live), 'atom'
        if tag == 'evalx':
            self.note('#EVAL')
            t, v, k = self.e(node[1], cx.deeper())
            return '#EVAL' + self.params([(t, k)], 1, cx), v, 'atom'
        if tag == 'ifx':
            self.note('#IF')
            ct, cv, ck = self.e(node[1], cx.deeper())
            a, b = abs(int(node[2])), abs(int(node[3]))
            o, c = ('()', '[]', '()' if cx.nobrace else '{}', '()')[(a + 2 * b) % 4]      # string parameters may use any of the three bracket pairs
            text = '#IF' + self.params([(ct, ck)], 1, cx) + '%s%d,%d%s' % (o, a, b, c)
            return text, ((a if cv else b) if live else None), 'atom'
        if tag == 'mapx':
            self.note('#MAP')
            kt, kv, kk = self.e(node[1], cx.deeper())
            dflt = abs(int(node[2]))
            pairs = []
            seen = set()
            for k, v in node[3]:
                k = abs(int(k))
                if k not in seen:
                    seen.add(k)
                    pairs.append((k, abs(int(v))))
            o, c = ('()', '()' if cx.nobrace else '{}', '[]', '()')[(dflt + len(pairs)) % 4]
            text = '#MAP' + self.params([(kt, kk)], 1, cx) + o + ','.join([str(dflt)] + ['%d:%d' % p for p in pairs]) + c
            return text, (dict(pairs).get(kv, dflt) if live else None), 'atom'
        if tag == 'sumx':
            a = abs(int(node[1])) % 1000
            n = abs(int(node[2])) % 5
            var = LOOPVARS[cx.loops % len(LOOPVARS)]
            if cx.loops >= len(LOOPVARS):
                return self.e(['num', a, 0], cx)
            self.note('#FOR')
            o, c = ('()', '()', '()' if cx.nobrace else '{}', '[]')[(a + n) % 4]
            text = '(#FOR(%d,%d)%s%s,%s,+%s)' % (a, a + n, o, var, var, c)     # expands to "a+...+b": parenthesised
            return text, (sum(range(a, a + n + 1)) if live else None), 'atom'
        if tag == 'callx':
            macros = [m for m in self.scope.macros.values() if m.pure and not m.snames]
            if not macros:
                return self.e(['num', 2, 0], cx)
            m = sorted(macros, key=lambda m: m.name)[node[1] % len(macros)]
            t, out = self.call(m, node[2], 0, None, 1, 0, cx.deeper(), int_context=True)
            if cx.live:
                if not re.fullmatch(r'0|[1-9]\d*', out or ''):
                    # (a zero-padded number such as '010' is accepted as a parameter on its own but not inside an
                    # arithmetic expression; the documentation says nothing about leading zeros: not asserted)
                    raise OutOfDomain('macro output is not a plain non-negative integer')
                return t, int(out), 'atom'
            return t, None, 'atom'
        raise ValueError('unknown expression node %r' % (node,))

    def e_op(self, node, cx):
        _, op, a, b, spaced = node
        if op not in OPS:
            raise ValueError(op)
        ta, va, ka = self.e(a, cx)
        tb, vb, kb = self.e(b, cx)
        if ka == 'neg':
            ta = '(0%s)' % ta
        if kb == 'neg':
            tb = '(0%s)' % tb
        v = None
        if cx.live:
            try:
                v = apply_op(op, va, vb)
            except BadOp:
                self.stats['repairs'] += 1
                op = '+'
                v = apply_op(op, va, vb)
                if abs(v) > BIG:
                    raise OutOfDomain('value too large')
        if op == '**' and ka != 'lit':
            ta = '(%s)' % ta      # a substituted negative value must not meet ** unparenthesised
        sp = ' ' if spaced else ''
        t = '(%s%s%s%s%s)' % (ta, sp, op, sp, tb)
        if op in ('&&', '||'):
            t = '(%s%s!=%s0)' % (t, sp, sp)
        return t, v, 'op'

    def field(self, name, cx):
        """A replacement field; braces are doubled once for every .format() pass that the text
        undergoes before the pass that is to resolve the field (the body of a #DEF macro with
        flag 1, the text of an enclosing #FORMAT)."""
        n = 2 ** cx.esc
        return '{' * n + name + '}' * n

    def atom_text(self, name, cx, followed_by_ident):
        """A loop variable (its bare name) or an argument of a #DEF macro."""
        if name in LOOPVARS:
            return name
        if cx.pstyle == '{':
            return '{%s}' % name      # resolved by the first pass (the macro body's), whatever the depth
        return '${%s}' % name if followed_by_ident else '$' + name

    def peek(self, addr, live):
        if not live:
            return None
        if not 0 <= addr <= 65535:
            raise OutOfDomain('address out of range')
        self.read()
        return self.state.mem.get(addr, 0)

    def params(self, plist, required, cx, pf=1):
        """Render an integer parameter list. plist: list of (text, kind) or None (blank).
        Trailing blanks are omitted. Returns the text; bare lists end 'open'."""
        plist = list(plist)
        while len(plist) > required and plist[-1] is None:
            plist.pop()
        # bare lists: literals, or a loop variable known to be >= 0 (the documented #PEEKn)
        bare_ok = all(p is None or p[1] in ('lit', 'nn') for p in plist)
        if bare_ok and not (pf & 1):
            self.stats['forms'].add('bare-ints')
            return ','.join('' if p is None else p[0] for p in plist)
        texts = []
        for i, p in enumerate(plist):
            t = '' if p is None else p[0]
            if p is not None and p[1] == 'op' and (pf >> (3 + i % 3)) & 1:
                t = t[1:-1]      # "(A op B)": the outer parentheses of one operation are optional
                self.stats['forms'].add('unparenthesised-top-op')
            texts.append(t)
        self.stats['forms'].add('paren-ints')
        if any(p is None for p in plist):
            self.stats['forms'].add('blank-int')
        return '(' + ','.join(texts) + ')'

    # -- text nodes --------------------------------------------------------
    def t(self, node, cx):
        text, val = self.t_(node, cx)
        if cx.live:
            self.check_len(val)
        else:
            val = None
        if len(text) > MAXLEN:
            raise OutOfDomain('text too long')
        return text, val

    def seq(self, nodes, cx):
        texts, vals = [], []
        for n in nodes:
            t, v = self.t(n, cx)
            texts.append(t)
            vals.append(v)
        return ''.join(texts), (''.join(vals) if cx.live else None)

    def t_(self, node, cx):
        tag = node[0]
        live = cx.live
        if tag == 'lit':
            s = self.lit(node[1], cx)
            return s, s
        if tag == 'seq':
            return self.seq(node[1], cx)
        if tag == 'sv':
            atoms = [a for a in cx.env if a[1] == 'str']
            if not atoms:
                return FALLBACK_LIT, FALLBACK_LIT
            name, kind, val = atoms[node[1] % len(atoms)]
            return self.atom_text(name, cx, True), val
        if tag == 'lv':
            atoms = [a for a in cx.env if a[1] in ('int', 'nn')]
            if not atoms:
                return FALLBACK_LIT, FALLBACK_LIT
            name, kind, val = atoms[node[1] % len(atoms)]
            return self.atom_text(name, cx, True), (str(val) if live else None)
        if cx.depth >= MAXDEPTH:
            return FALLBACK_LIT, FALLBACK_LIT
        self.stats['maxdepth'] = max(self.stats['maxdepth'], cx.depth + 1)
        return getattr(self, 't_' + tag)(node, cx)

    def t_fv(self, node, cx):
        """A replacement field directly inside a #LET string value."""
        if not cx.fmtctx:
            return FALLBACK_LIT, FALLBACK_LIT
        return self.format_field(['f'] + node[1:], cx)

    def hashable(self, node):
        """A node whose expansion consists of letters, digits, spaces and dots whatever the state."""
        return node[0] == 'lit' or (node[0] == 'peek' and node[2] & 1) or (node[0] == 'eval' and node[4] & 1 and node[2] != 2 and is_pure(node))

    def t_hashable(self, node, cx):
        if node[0] == 'lit':
            s = re.sub(r'[^A-Za-z0-9 .]', '', self.lit(node[1], cx))
            return s, s
        t, v = self.t(node, cx)
        if cx.live and not re.fullmatch(r'[A-Za-z0-9]*', v):
            raise OutOfDomain('negative number inside #()')
        return t, v

    def hashed(self, name, rest, sf, cx):
        """#NAME#(rest): rest is expanded before the macro is parsed."""
        self.stats['forms'].add('#()')
        return name + '#' + wrap_single(rest, sf, cx)

    # #EVAL -----------------------------------------------------------------
    def t_eval(self, node, cx):
        _, e, base, width, pf, hashed = node
        self.note('#EVAL')
        if base == 16:
            self.stats['mode_dependent'] = True
        t, v, k = self.e(e, cx.deeper())
        plist = [(t, k), None if base is None else (str(base), 'lit'), None if width is None else (str(width), 'lit')]
        out = None
        if cx.live:
            b = base or 10
            w = width or 1
            if v < 0 and (b != 10 or w != 1):
                raise OutOfDomain('negative value in base 2/16 or padded')
            if b == 2:
                out = format(v, '0%db' % w)
            elif b == 10:
                out = format(v, '0%dd' % w)
            else:
                out = format(v, '0%d%s' % (w, 'x' if self.case == 1 else 'X'))
        ptext = self.params(plist, 1, cx, pf)
        if hashed and ptext.startswith('('):
            return self.hashed('#EVAL', ptext, pf, cx), out
        if not ptext.startswith('('):
            g = self.guard(pf >> 1)
            return '#EVAL' + ptext + g, (out + g if cx.live else None)
        return '#EVAL' + ptext, out

    # #N ----------------------------------------------------------------------
    def t_n(self, node, cx):
        _, e, hw, dw, hexf, affix, pf, sf = node
        self.note('#N')
        self.stats['mode_dependent'] = True
        t, v, k = self.e(e, cx.deeper())
        plist = [(t, k)] + [None if x is None else (str(x), 'lit') for x in (hw, dw)]
        plist.append(('1', 'lit') if affix else None)
        plist.append(None if hexf is None else (str(hexf), 'lit'))
        ptext = self.params(plist, 1, cx, pf)
        prefix = suffix = ''
        stext = ''
        if affix:
            c2 = cx.deeper(plain=True)
            prefix = self.lit(affix[0], c2).replace(',', '').replace('(', '').replace(')', '')
            items = [prefix]
            if affix[1] is not None:
                suffix = self.lit(affix[1], c2).replace(',', '').replace('(', '').replace(')', '')
                items.append(suffix)
            stext = wrap_multi(items, sf, cx)
        out = None
        if cx.live:
            if v < 0:
                raise OutOfDomain('#N of a negative value')
            if self.base == 16 or (hexf and self.base != 10):
                width = hw if hw is not None else (2 if v < 256 else 4)
                out = prefix + format(v, '0%d%s' % (width, 'x' if self.case == 1 else 'X')) + suffix
            else:
                out = format(v, '0%dd' % (dw if dw is not None else 1))
        if not stext and not ptext.startswith('('):
            g = self.guard(pf >> 1)
            return '#N' + ptext + g, (out + g if cx.live else None)
        return '#N' + ptext + stext, out

    # #IF ---------------------------------------------------------------------
    def t_if(self, node, cx):
        _, e, a, b, pf, sf, hashed = node
        self.note('#IF')
        ct, cv, ck = self.e(e, cx.deeper())
        ptext = self.params([(ct, ck)], 1, cx, pf)
        if hashed and self.hashable(a) and (b is None or self.hashable(b)):
            # #IF#(...): both output strings are expanded before #IF is parsed; their
            # expansions (letters, digits, spaces, dots) cannot disturb the parameter syntax
            c2 = cx.deeper()
            ta, va = self.t_hashable(a, c2)
            tb, vb = self.t_hashable(b, c2) if b is not None else ('', '')
            items = [ta] + ([tb] if b is not None else [])
            text = self.hashed('#IF', ptext + wrap_multi(items, sf, cx, parens_only=True), sf, cx)
            return text, ((va if cv else vb) if cx.live else None)
        sa = self.scope.copy()
        ta, va = self.t(a, cx.deeper(live=cx.live and bool(cv)))
        self.scope = sa.copy()
        if b is not None:
            tb, vb = self.t(b, cx.deeper(live=cx.live and not cv))
        else:
            tb, vb = None, ''
        self.scope = sa
        items = [ta] + ([tb] if b is not None else [])
        out = None
        if cx.live:
            out = va if cv else vb
        return '#IF' + ptext + wrap_multi(items, sf, cx), out

    # #MAP --------------------------------------------------------------------
    def t_map(self, node, cx):
        _, e, dflt, pairs, pf, sf, hashed = node
        self.note('#MAP')
        kt, kv, kk = self.e(e, cx.deeper())
        ptext = self.params([(kt, kk)], 1, cx, pf)
        use_hash = bool(hashed) and all(self.hashable(v) for k, v in pairs) and self.hashable(dflt)
        items = []
        keys = []
        sa = self.scope.copy()
        # evaluate the keys first (they are arithmetic expressions without fields or macros,
        # unless the whole parameter string is wrapped in #())
        kc = cx.deeper()
        for kexpr, vnode in pairs:
            if use_hash:
                t, v, k = self.e(['evalx', kexpr], kc)
            else:
                t, v, k = self.e(self.plain_expr(kexpr), kc.but(env=()))
            keys.append((t, v))
        chosen = None
        if cx.live:
            seen = set()
            for i, (t, v) in enumerate(keys):
                if v in seen:
                    raise OutOfDomain('duplicate #MAP key')
                seen.add(v)
                if v == kv:
                    chosen = i
        texts = []
        vals = []
        for i, (kexpr, vnode) in enumerate(pairs):
            self.scope = sa.copy()
            if use_hash:
                t, v = self.t_hashable(vnode, cx.deeper())     # everything is expanded first
                t = t.replace(':', '')
            else:
                t, v = self.t(vnode, cx.deeper(live=cx.live and chosen == i))
            texts.append(t)
            vals.append(v)
        self.scope = sa.copy()
        if use_hash:
            td, vd = self.t_hashable(dflt, cx.deeper())
        else:
            td, vd = self.t(dflt, cx.deeper(live=cx.live and chosen is None))
        self.scope = sa
        items = [td] + ['%s:%s' % (k[0], t) for k, t in zip(keys, texts)]
        out = None
        if cx.live:
            out = vd if chosen is None else vals[chosen]
        if use_hash:
            return self.hashed('#MAP', ptext + wrap_multi(items, sf, cx, parens_only=True), sf, cx), out
        return '#MAP' + ptext + wrap_multi(items, sf, cx), out

    def plain_expr(self, node):
        """Arithmetic over literals only (no fields, no macros)."""
        if node[0] == 'op':
            return ['op', node[1], self.plain_expr(node[2]), self.plain_expr(node[3]), node[4]]
        if node[0] == 'num':
            return node
        return ['num', 3, 0]

    # #FOR --------------------------------------------------------------------
    def t_for(self, node, cx):
        _, a, b, step, flags, body, sep, fsep, pf, sf = node
        if cx.loops >= len(LOOPVARS):
            return FALLBACK_LIT, FALLBACK_LIT
        self.note('#FOR')
        var = LOOPVARS[cx.loops]
        pc = cx.deeper()
        ta, va, ka = self.e(a, pc)
        tb, vb, kb = self.e(b, pc)
        plist = [(ta, ka), (tb, kb)]
        vs = 1
        if step is not None:
            ts, vs, ks = self.e(step, pc)
            plist.append((ts, ks))
        else:
            plist.append(None)
        fl = 0
        if flags is not None:
            fl = flags & 7
            plist.append((str(fl), 'lit'))
        else:
            plist.append(None)
        ptext = self.params(plist, 2, cx, pf)
        values = []
        if cx.live:
            if vs == 0:
                raise OutOfDomain('zero step')
            values = list(range(va, vb + (1 if vs > 0 else -1), vs)) if abs(vb - va) < 10000 else None
            if values is None or len(values) > 6:
                raise OutOfDomain('loop too long')
        nonneg = a[0] == 'num' and b[0] == 'num' and (step is None or step[0] == 'num')
        kind = 'nn' if nonneg else 'int'
        # separators: literal text (may contain the variable when flag 4 is used)
        sc = cx.deeper(plain='sep-html-chars' not in self.allow)
        tsep = None if sep is None else self.sep_text(sep, var, sc)
        tfsep = None if fsep is None or sep is None else self.lit(fsep.replace('\x01', ''), sc)
        # body, once per value
        bc = cx.deeper(noquote='quote-delims' not in self.allow, loops=cx.loops + 1)
        sa = self.scope.copy()
        outs = []
        btexts = set()
        for v in values:
            self.scope = sa.copy()
            bt, bv = self.t(body, bc.but(env=cx.env + ((var, kind, v),)))
            btexts.add(bt)
            outs.append(bv)
        if not values:
            self.scope = sa.copy()
            bt, _ = self.t(body, bc.but(env=cx.env + ((var, kind, 0),), live=False))
            btexts.add(bt)
        self.scope = sa
        if len(btexts) > 1:
            raise OutOfDomain('unstable loop body')
        items = [var, bt]
        if tsep is not None:
            items.append(tsep)
            if tfsep is not None:
                items.append(tfsep)
        out = None
        if cx.live:
            base_sep = tsep or ''
            full = (',' if fl & 1 else '') + base_sep + (',' if fl & 2 else '')
            parts = []
            for i, o in enumerate(outs):
                parts.append(o)
                if i < len(outs) - 1:
                    if i == len(outs) - 2 and tfsep is not None:
                        parts.append(tfsep)
                    elif fl & 4:
                        parts.append(full.replace(var, str(values[i])))
                    else:
                        parts.append(full)
            out = ''.join(parts)
        return '#FOR' + ptext + wrap_multi(items, sf, cx), out

    def sep_text(self, s, var, cx):
        """Separator text: '\\x01' in the AST stands for the loop variable."""
        return ''.join(var if p == '\x01' else self.lit(p, cx) for p in re.split('(\x01)', s))

    # #FOREACH ----------------------------------------------------------------
    def t_foreach(self, node, cx):
        _, items, body, sep, fsep, sf1, sf2 = node
        if cx.loops >= len(LOOPVARS):
            return FALLBACK_LIT, FALLBACK_LIT
        self.note('#FOREACH')
        var = LOOPVARS[cx.loops]
        values = [re.sub(r'[^A-Za-z0-9]', '', self.lit(s, cx)) for s in items][:5] or ['a']
        if len(values) == 1 and (values[0] == '' or values[0].startswith(('EREF', 'REF', 'ENTRY', 'POKE'))):
            values = ['v' + values[0]]
        numeric = all(re.fullmatch(r'[1-9]\d{0,3}|0', v) for v in values)
        sc = cx.deeper(plain='sep-html-chars' not in self.allow)
        tsep = None if sep is None else self.lit(sep.replace('\x01', ''), sc)
        tfsep = None if fsep is None or sep is None else self.lit(fsep.replace('\x01', ''), sc)
        bc = cx.deeper(noquote='quote-delims' not in self.allow, loops=cx.loops + 1)
        sa = self.scope.copy()
        outs = []
        btexts = set()
        for v in values:
            self.scope = sa.copy()
            atom = (var, 'nn', int(v)) if numeric else (var, 'str', v)
            bt, bv = self.t(body, bc.but(env=cx.env + (atom,)))
            btexts.add(bt)
            outs.append(bv)
        self.scope = sa
        if len(btexts) > 1:
            raise OutOfDomain('unstable loop body')
        params = [var, bt]
        if tsep is not None:
            params.append(tsep)
            if tfsep is not None:
                params.append(tfsep)
        out = None
        if cx.live:
            s = tsep or ''
            fs = tfsep if tfsep is not None else s
            out = outs[0] if len(outs) == 1 else s.join(outs[:-1]) + fs + outs[-1]
        return '#FOREACH' + wrap_multi(values, sf1, cx) + wrap_multi(params, sf2, cx), out

    # #WHILE ------------------------------------------------------------------
    def t_while(self, node, cx):
        _, count, body, style, sf = node
        if cx.whiles >= len(WHILEVARS):
            return FALLBACK_LIT, FALLBACK_LIT
        self.note('#WHILE')
        w = WHILEVARS[cx.whiles]
        count = abs(int(count)) % 4
        fw = self.field(w, cx)
        cond = ['%s>0', '%s > 0', '%s', '%s!=0', '0<%s', '(%s-1)>=0'][style % 6] % fw
        dec_first = (style // 6) % 2
        dec = '#LET(%s=%s-1)' % (w, fw)
        if cx.live:
            self.state.vars[w] = count
            self.changed()
        declared = w in self.scope.ints
        if not declared:
            self.scope.ints.append(w)
        bc = cx.deeper(whiles=cx.whiles + 1)
        sa = self.scope.copy()
        outs = []
        btexts = set()
        if cx.live:
            guard = 0
            while self.state.vars[w] > 0:
                guard += 1
                if guard > 8:
                    raise OutOfDomain('runaway #WHILE')
                self.scope = sa.copy()
                if dec_first:
                    self.state.vars[w] -= 1
                bt, bv = self.t(body, bc)
                if not dec_first:
                    self.state.vars[w] -= 1
                btexts.add(bt)
                if edge_space(bv):
                    raise OutOfDomain('#SPACE at a stripped edge')
                outs.append(bv.strip())
        if not outs:
            self.scope = sa.copy()
            bt, _ = self.t(body, bc.but(live=False))
            btexts.add(bt)
        self.scope = sa
        if not declared:
            self.scope.ints.remove(w)
        if len(btexts) > 1:
            raise OutOfDomain('unstable loop body')
        btext = dec + bt if dec_first else bt + dec
        text = '#LET(%s=%d)#WHILE(%s)%s' % (w, count, cond, wrap_single(btext, sf, cx))
        return text, (''.join(outs) if cx.live else None)

    # #LET --------------------------------------------------------------------
    def t_let(self, node, cx):
        _, i, e, sf = node
        self.note('#LET')
        name = INTVARS[i % len(INTVARS)]
        t, v, k = self.e(e, cx.deeper(nobrace=True))
        if k == 'op' and t.startswith('(') and t.endswith(')') and e[0] == 'op' and e[1] not in ('&&', '||') and sf & 16:
            t = t[1:-1]       # the value is one arithmetic expression: outer parentheses are optional
        if cx.live:
            self.state.vars[name] = v
            self.changed()
        if name not in self.scope.ints:
            self.scope.ints.append(name)
        return '#LET' + wrap_single('%s=%s' % (name, t), sf & 15, cx), ''

    def t_lets(self, node, cx):
        _, i, vnode, sf = node
        self.note('#LET')
        name = STRVARS[i % len(STRVARS)]
        if not is_pure(vnode):
            vnode = ['lit', 'text']      # macros in the value are expanded before its fields are replaced
        t, v = self.t(vnode, cx.deeper(nobrace=True, fmtctx=True))
        if cx.live:
            if plain(v) != plain(v).strip() and 'let-edge-ws' not in self.allow:
                self.stats['excluded'].add('let-edge-ws')
                raise OutOfDomain('string value with leading/trailing whitespace')
            self.state.vars[name] = v
            self.changed()
        if name not in self.scope.strs:
            self.scope.strs.append(name)
        return '#LET' + wrap_single('%s=%s' % (name, t), sf, cx), ''

    def t_letd(self, node, cx):
        _, i, isstr, dflt, pairs, sf, sf2 = node
        self.note('#LET')
        pool = [d for d in DICTVARS if d.endswith('$') == bool(isstr)]
        name = pool[i % len(pool)]
        c2 = cx.deeper(nobrace=True, plain=True)
        items = []
        seen = set()
        vals = {}
        if isstr:
            d = re.sub(r'[,:()]', '', self.lit(dflt if isinstance(dflt, str) else '?', c2))
            if d != d.strip():
                d = d.strip()
            items.append(d)
            for k, v in pairs:
                k = abs(int(k))
                if k in seen:
                    continue
                seen.add(k)
                if v is None:
                    items.append(str(k))
                    vals[k] = str(k)
                else:
                    s = re.sub(r'[,:()]', '', self.lit(v if isinstance(v, str) else 'v', c2)).strip()
                    items.append('%d:%s' % (k, s))
                    vals[k] = s
            default = d
        else:
            default = abs(int(dflt)) if not isinstance(dflt, str) else 0
            items.append(str(default))
            for k, v in pairs:
                k = abs(int(k))
                if k in seen:
                    continue
                seen.add(k)
                if v is None or isinstance(v, str):
                    items.append(str(k))
                    vals[k] = k
                else:
                    items.append('%d:%d' % (k, abs(int(v))))
                    vals[k] = abs(int(v))
        if cx.live:
            self.state.vars[name] = DictVar(default, vals)
            self.changed()
        if name not in self.scope.dicts:
            self.scope.dicts.append(name)
        inner = wrap_multi(items, sf2, c2)
        return '#LET' + wrap_single('%s[]=%s' % (name, inner), sf, cx), ''

    def t_letk(self, node, cx):
        _, i, isstr, kexpr, value, sf = node
        self.note('#LET')
        pool = [d for d in self.scope.dicts if d.endswith('$') == bool(isstr)]
        if not pool:
            return self.t_letd(['letd', i, isstr, '?' if isstr else 0, [], sf, 0], cx)
        name = pool[i % len(pool)]
        c2 = cx.deeper(nobrace=True)
        kt, kv, kk = self.e(kexpr, c2)
        if '[' in kt or '=' in kt:
            # the key ends at the first ']' and the statement is split at the first '='
            kt, kv, kk = self.e(['num', 1, 0], c2)
        elif kk == 'op':
            kt = kt[1:-1]
        if isstr:
            if not is_pure(value):
                value = ['lit', 'text']
            vt, vv = self.t(value, c2.but(fmtctx=True))
            if cx.live and plain(vv) != plain(vv).strip() and 'let-edge-ws' not in self.allow:
                self.stats['excluded'].add('let-edge-ws')
                raise OutOfDomain('string value with leading/trailing whitespace')
        else:
            vt, vv, vk = self.e(value if isinstance(value, list) and value and value[0] in
                                ('num', 'neg', 'op', 'var', 'dvar', 'lv', 'fld', 'peekx', 'evalx', 'ifx', 'mapx', 'sumx', 'callx') else ['num', 7, 0], c2)
        if cx.live:
            if kv < 0:
                raise OutOfDomain('negative key')
            self.state.vars[name].items[kv] = vv
            self.changed()
        return '#LET' + wrap_single('%s[%s]=%s' % (name, kt, vt), sf, cx), ''

    # #FORMAT -----------------------------------------------------------------
    def t_format(self, node, cx):
        _, case, parts, sf = node
        self.note('#FORMAT')
        case = case % 3
        c2 = cx.deeper(nobrace=True, esc=cx.esc + 1)      # nested macros: their fields must survive this #FORMAT
        if case == 2 and cx.noquote:
            # finding C17-quote: in HTML mode a ' in a loop body has become &#x27;, upper-cased to &#X27; = macro #X
            c2 = c2.but(plain=True)
        # the fields of the text are replaced first (by the formatting operation itself), the
        # macros that the text contains are expanded afterwards
        texts, vals = [None] * len(parts), [None] * len(parts)
        for i, p in enumerate(parts):
            if p[0] == 'f':
                if case and p[1] in ('s', 'ds'):
                    p = ['f', 'i'] + p[2:]      # case conversion of stored text is entity-dependent in HTML mode
                texts[i], vals[i] = self.format_field(p, cx)
        for i, p in enumerate(parts):
            if p[0] == 'lit':
                texts[i] = vals[i] = self.lit(p[1], c2)
            elif p[0] == 'brace':
                if cx.nobrace or cx.pstyle or cx.esc:
                    texts[i] = vals[i] = ''
                else:
                    texts[i], vals[i] = ('{{', '{') if p[1] else ('}}', '}')
            elif p[0] != 'f':
                texts[i], vals[i] = self.t(p, c2) if case == 0 else ('', '')
        text = ''.join(texts)
        out = None
        if cx.live:
            out = ''.join(vals)
            if case == 1:
                out = out.lower()
            elif case == 2:
                out = out.upper()
        return '#FORMAT%d%s' % (case, wrap_single(text, sf, c2)), out

    def format_field(self, p, cx):
        _, kind, i, spec, key = p
        live = cx.live
        if kind == 's' and self.scope.strs:
            name = self.scope.strs[i % len(self.scope.strs)]
            if live:
                self.read()
            return self.field(name, cx), (self.state.vars[name] if live else None)
        if kind == 'ds' and [d for d in self.scope.dicts if d.endswith('$')]:
            pool = [d for d in self.scope.dicts if d.endswith('$')]
            name = pool[i % len(pool)]
            key = abs(int(key))
            if live:
                self.read()
            return self.field('%s[%d]' % (name, key), cx), (self.state.vars[name].get(key) if live else None)
        if kind == 'lv':
            atoms = [a for a in cx.env if a[1] in ('int', 'nn') and a[0] not in LOOPVARS]
            if atoms and cx.pstyle == '{':
                name, k, val = atoms[i % len(atoms)]
                spec = ['', ':04X', ':x', ':03d', ':b', ':02x', ':X', ':5'][spec % 8]
                return '{%s%s}' % (name, spec), (format(val, spec[1:]) if live else None)
        # integer-valued field
        if kind == 'd' and [d for d in self.scope.dicts if not d.endswith('$')]:
            pool = [d for d in self.scope.dicts if not d.endswith('$')]
            name = '%s[%d]' % (pool[i % len(pool)], abs(int(key)))
            v = self.state.vars[pool[i % len(pool)]].get(abs(int(key))) if live else None
        elif kind == 'm':
            name = FIELDS[i % len(FIELDS)]
            self.stats['mode_dependent'] = True
            v = {'base': self.base, 'case': self.case, 'mode[base]': self.base, 'mode[case]': self.case,
                 'vars[foo]': self.vars.get('foo', 0)}[name]
        elif self.scope.ints:
            name = self.scope.ints[i % len(self.scope.ints)]
            v = self.state.vars[name] if live else None
        else:
            name = 'mode[base]'
            self.stats['mode_dependent'] = True
            v = self.base
        if live:
            self.read()
        spec = ['', ':04X', ':x', ':03d', ':b', ':02x', ':X', ':5'][spec % 8]
        return self.field(name + spec, cx), (format(v, spec[1:]) if live else None)

    # #PEEK / #CHR / #SPACE / #PC -------------------------------------------------
    def t_peek(self, node, cx):
        _, e, pf = node
        self.note('#PEEK')
        t, v, k = self.e(e, cx.deeper())
        out = self.peek(v, cx.live)
        ptext = self.params([(t, k)], 1, cx, pf)
        if ptext.startswith('('):
            return '#PEEK' + ptext, (str(out) if cx.live else None)
        g = self.guard(pf >> 1)
        return '#PEEK' + ptext + g, (str(out) + g if cx.live else None)

    def t_chr(self, node, cx):
        _, code, flags, pf = node
        self.note('#CHR')
        code = CHR_CODES[code % len(CHR_CODES)]
        out = chr(code)
        if flags is not None:
            flags &= 3
            if flags & 2:
                if code < 128:
                    code = [94, 96, 127, code][pf % 4]     # the three codes the flag is documented to map
                out = chr({94: 8593, 96: 163, 127: 169}.get(code, code))
            if flags & 1 and code in (38, 60, 62):
                flags &= 2        # a raw & < > in HTML is the user's choice, not comparable
        if cx.nobrace and out in '{}':
            out, code = 'A', 65
        plist = [(str(code), 'lit'), None if flags is None else (str(flags), 'lit')]
        ptext = self.params(plist, 1, cx, pf)
        if ptext.startswith('('):
            return '#CHR' + ptext, out
        g = self.guard(pf >> 1)
        return '#CHR' + ptext + g, out + g

    def t_space(self, node, cx):
        _, e, pf = node
        self.note('#SPACE')
        g = self.guard(pf >> 1)
        if e is None:
            if pf & 1:
                return '#SPACE()', SP
            return '#SPACE' + g, SP + g
        t, v, k = self.e(e, cx.deeper())
        if cx.live and not 0 <= v <= 10:
            raise OutOfDomain('#SPACE count')
        ptext = self.params([(t, k)], 1, cx, pf)
        if ptext.startswith('('):
            return '#SPACE' + ptext, (SP * v if cx.live else None)
        return '#SPACE' + ptext + g, (SP * v + g if cx.live else None)

    def t_pc(self, node, cx):
        g = self.guard(node[1])
        if self.pc is None:
            return FALLBACK_LIT, FALLBACK_LIT
        self.note('#PC')
        return '#PC' + g, str(self.pc) + g

    # #POKES / #PUSHS / #POPS ---------------------------------------------------------
    def t_pokes(self, node, cx):
        _, groups, g = node
        self.note('#POKES')
        texts = []
        pc = cx.deeper()
        for grp in groups[:4] or [[['num', 40000, 0], ['num', 1, 0], None, None, 0]]:
            a, b, ln, st, pf = grp
            ta, va, ka = self.e(a, pc)
            tb, vb, kb = self.e(b, pc)
            plist = [(ta, ka), (tb, kb)]
            vl, vs = 1, 1
            if ln is not None:
                tl, vl, kl = self.e(ln, pc)
                plist.append((tl, kl))
            elif st is not None:
                plist.append(None)
            if st is not None:
                ts, vs, ks = self.e(st, pc)
                plist.append((ts, ks))
            texts.append(self.params(plist, 2, cx, pf))
            if cx.live:
                # each group is parsed and poked before the next one is parsed
                if not (0 <= vb <= 255 and 1 <= vl <= 8 and 1 <= vs <= 512 and 0 <= va and va + (vl - 1) * vs <= 65535):
                    raise OutOfDomain('#POKES arguments')
                for i in range(vl):
                    self.state.mem[va + i * vs] = vb
                self.changed()
                if vl > 1:
                    self.stats['forms'].add('pokes-length')
                if vs > 1 and vl > 1:
                    self.stats['forms'].add('pokes-step')
        text = '#POKES' + ';'.join(texts)
        gd = self.guard(g)       # always: a ';' after the last group would continue the list
        return text + gd, (gd if cx.live else None)

    def t_pushs(self, node, cx):
        _, name, g = node
        self.note('#PUSHS')
        name = self.snap_name(name)
        gd = self.guard(g)
        if cx.live:
            self.state.stack.append(dict(self.state.mem))
            self.changed()
        return '#PUSHS' + name + gd, gd

    def t_pops(self, node, cx):
        self.note('#POPS')
        self.stats['pops'] += 1
        gd = self.guard(node[1])
        if cx.live:
            if not self.state.stack:
                raise OutOfDomain('#POPS on an empty stack')
            self.state.mem = self.state.stack.pop()
            self.changed()
        return '#POPS' + gd, gd

    def snap_name(self, name):
        name = re.sub(r'[^A-Za-z0-9]', '', name or '')
        for v in LOOPVARS:
            name = name.replace(v, '')
        if name and name[0].isupper():
            name = name[0].lower() + name[1:]
        return name[:8]

    def t_snap(self, node, cx):
        _, name, body, g = node
        t1, v1 = self.t_pushs(['pushs', name, g], cx)
        if cx.nested or cx.env:
            sa = self.scope.copy()
            tb, vb = self.t(body, cx.deeper())
            self.scope = sa
        else:
            tb, vb = self.t(body, cx.but(depth=cx.depth + 1))     # still unconditional: definitions stay visible
        if cx.live and len(self.state.stack) < 1:
            raise OutOfDomain('unbalanced snapshot stack')
        t2, v2 = self.t_pops(['pops', g >> 2], cx)
        return t1 + tb + t2, (v1 + vb + v2 if cx.live else None)

    # #STR --------------------------------------------------------------------
    def t_str(self, node, cx):
        _, addr, data, kind, flags, pf = node
        self.note('#STR')
        self.note('#POKES')
        addr = 40100 + abs(int(addr)) % 20000
        ok = [c for c in range(32, 127) if chr(c) not in ('^`#{}$' if 'str-html-chars' in self.allow else '^`&<>#{}$')]
        data = [ok[abs(int(b)) % len(ok)] for b in data][:8] or [65]
        kind %= 4
        flags &= 7
        marker = None
        mem = list(data)
        if kind == 0:
            mem.append(0)
        elif kind == 1:
            mem[-1] |= 128
        elif kind == 2:
            mem.append(7)       # not part of the string: an explicit length is given
        else:
            marker = [c for c in (36, 42, 64, 1, 127) if c not in data][0]
            mem.append(marker)
        pokes = '#POKES' + ';'.join('%d,%d' % (addr + i, b) for i, b in enumerate(mem)) + ' '
        if cx.live:
            for i, b in enumerate(mem):
                self.state.mem[addr + i] = b
            self.changed()
            self.read()
        plist = [(str(addr), 'lit')]
        if kind == 2:
            plist += [(str(flags), 'lit'), (str(len(data)), 'lit')]
        elif kind == 3:
            plist += [(str(flags | 8), 'lit')]
        elif flags:
            plist += [(str(flags), 'lit')]
        ptext = self.params(plist, 1, cx, pf)
        s = ''.join(chr(b) for b in data)
        if flags & 1:
            s = s.rstrip(' ')
        if flags & 2:
            s = s.lstrip(' ')
        if flags & 4:
            s = re.sub(' {2,}', lambda m: SP * len(m.group()), s)     # ... become #SPACE(N)
        if kind == 3:
            b = '$b'
            end = ['(%s==%d)', '(%s == %d)', '(%d==%s)'][pf % 3]
            end = end % ((b, marker) if pf % 3 < 2 else (marker, b))
            return pokes + '#STR' + ptext + end, ' ' + s
        if ptext.startswith('('):
            return pokes + '#STR' + ptext, ' ' + s
        g = self.guard(pf >> 1)
        return pokes + '#STR' + ptext + g, ' ' + s + g

    # #DEF and calls ----------------------------------------------------------
    def t_def(self, node, cx):
        _, i, flags, ipar, spar, body, sf = node
        if cx.nested or cx.env:
            return FALLBACK_LIT, FALLBACK_LIT
        self.note('#DEF')
        name = MACROS[i % len(MACROS)]
        fl = 0 if flags is None else flags & 3
        if flags is None and name in self.scope.macros and 'def-redefine-noflags' not in self.allow:
            self.stats['excluded'].add('def-redefine-noflags')
            flags = 0
        ipar = ipar[:len(IPARAMS)]
        spar = spar[:len(SPARAMS)]
        # integer defaults only on a suffix of the parameters
        idefaults = [None if d is None else abs(int(d)) for d in ipar]
        for k in range(len(idefaults)):
            if idefaults[k] is not None:
                idefaults[k + 1:] = [d if d is not None else 0 for d in idefaults[k + 1:]]
                break
        inames = IPARAMS[:len(ipar)]
        snames = SPARAMS[:len(spar)]
        pstyle = '{' if fl & 1 else '$'
        sdefaults = []
        seen_default = False
        for d in spar:
            if d is None and not seen_default:
                sdefaults.append(None)
            elif isinstance(d, int) and inames:
                seen_default = True
                sdefaults.append(('arg', d % len(inames)))
            else:
                seen_default = True
                sdefaults.append(('lit', re.sub(r'[^A-Za-z0-9]', '', self.lit(d if isinstance(d, str) else 'dflt', cx))))
        sig = ''
        if inames or snames:
            sig += '(' + ','.join(n if d is None else '%s=%d' % (n, d) for n, d in zip(inames, idefaults)) + ')'
        if snames:
            specs = []
            for n, d in zip(snames, sdefaults):
                if d is None:
                    specs.append(n)
                elif d[0] == 'lit':
                    specs.append('%s=%s' % (n, d[1]))
                else:
                    an = inames[d[1]]
                    specs.append('%s=%s' % (n, '{%s}' % an if fl & 1 else '$' + an))
            sig += '(' + ','.join(specs) + ')'
        macro = Macro(name, fl, inames, idefaults, snames, sdefaults, body, self.scope.copy(), is_pure(body))
        # the text of the body: built on a scratch copy of the state with sample arguments
        macro.text = self.body_text(macro, cx)
        if not macro.text or macro.text[0].isspace() or macro.text[-1].isspace():
            # the body is separated from the signature by whitespace: keep its own edges visible
            macro.body = body = ['seq', [['lit', '['], body, ['lit', ']']]]
            macro.text = self.body_text(macro, cx)
        bt = macro.text
        self.scope.macros[name] = macro
        if cx.live:
            self.state.macros[name] = macro
            self.changed()
        definition = '#%s%s %s' % (name, sig, bt)
        ftext = '' if flags is None else str(fl)
        return '#DEF' + ftext + wrap_single(definition, sf, cx), ''

    def body_cx(self, macro, cx, ivals, svals, live):
        env = tuple((n, 'int', v) for n, v in zip(macro.inames, ivals)) + tuple((n, 'str', v) for n, v in zip(macro.snames, svals))
        return Cx(env=env, live=live, nobrace=bool(macro.flags & 1), noquote=False, pstyle='{' if macro.flags & 1 else '$',
                  depth=cx.depth + 1, loops=cx.loops, whiles=cx.whiles, nested=True, esc=1 if macro.flags & 1 else 0)

    def body_text(self, macro, cx):
        saved_state, saved_scope, saved_stats = self.state, self.scope, self.stats
        self.state = saved_state.copy()
        self.scope = macro.scope.copy()
        self.stats = {'state_changes': 0, 'reads_after_change': 0, 'repairs': 0, 'forms': set(), 'macros': set(), 'excluded': set(), 'maxdepth': 0,
                      'mode_dependent': saved_stats['mode_dependent'], 'pops': 0}
        try:
            t, _ = self.t(macro.body, self.body_cx(macro, cx, [0] * len(macro.inames), [''] * len(macro.snames), False))
        finally:
            saved_stats['mode_dependent'] = self.stats['mode_dependent']
            self.state, self.scope, self.stats = saved_state, saved_scope, saved_stats
        return t

    def t_call(self, node, cx):
        _, i, args, nkw, sargs, pf, sf = node
        if not self.scope.macros:
            return FALLBACK_LIT, FALLBACK_LIT
        names = sorted(self.scope.macros)
        m = self.scope.macros[names[i % len(names)]]
        return self.call(m, args, nkw, sargs, pf, sf, cx)

    def call(self, m, args, nkw, sargs, pf, sf, cx, int_context=False):
        self.note('#' + m.name)
        self.stats['macros'].add('#DEF-call')
        pc = cx.deeper()
        ni = len(m.inames)
        req = sum(1 for d in m.idefaults if d is None)
        args = list(args)[:ni]
        while len(args) < req:
            args.append(['num', 1 + len(args), 0])
        plist = []
        ivals = []
        for k in range(ni):
            a = args[k] if k < len(args) else None
            if a is None:
                if m.idefaults[k] is None:
                    a = ['num', 2, 0]
                else:
                    plist.append(None)
                    ivals.append(m.idefaults[k])
                    continue
            t, v, kd = self.e(a, pc)
            plist.append((t, kd))
            ivals.append(v)
        while len(plist) > req and plist[-1] is None:
            plist.pop()
        nkw = min(nkw, len([p for p in plist if p is not None]))
        # keyword arguments: the last nkw supplied arguments; no blank before them is needed
        if nkw:
            k0 = len(plist) - nkw
            if any(p is None for p in plist[k0:]):
                nkw = 0
        ptext = ''
        if ni:
            if nkw:
                lst = [p for p in plist]
                names = list(m.inames)
                # drop blanks that precede keyword arguments
                pos = [(n, p) for n, p in zip(names, lst)]
                head = pos[:len(lst) - nkw]
                tail = pos[len(lst) - nkw:]
                while len(head) > 0 and head[-1][1] is None and len(head) > req:
                    head.pop()
                texts = [('' if p is None else p[0]) for n, p in head] + ['%s=%s' % (n, p[0]) for n, p in tail]
                ptext = '(' + ','.join(texts) + ')'
                self.stats['forms'].add('keyword-int')
            else:
                ptext = self.params(plist, req, cx, pf)
        # string arguments: safe words only (they are substituted textually into the body)
        stext = ''
        svals = []
        if m.snames and not int_context:
            allopt = all(d is not None for d in m.sdefaults)
            # (at the top level also words that look like the macro's own integer placeholders: an argument is text)
            dollar = ('$m', '$p', '$x', '$$')
            supplied = None if sargs is None else [(s if (s in dollar and cx.depth == 0) else re.sub(r'[^A-Za-z0-9]', '', self.lit(s, cx)))
                                                   for s in sargs][:len(m.snames)]
            sreq = sum(1 for d in m.sdefaults if d is None)
            if supplied is not None:
                while len(supplied) < sreq:
                    supplied.append('w%d' % len(supplied))
            elif not allopt:
                supplied = ['w%d' % k for k in range(sreq)]
            if supplied is not None and allopt and not supplied:
                supplied = None
            for k, d in enumerate(m.sdefaults):
                if supplied is not None and k < len(supplied):
                    svals.append(supplied[k])
                elif d[0] == 'lit':
                    svals.append(d[1])
                else:
                    svals.append(str(ivals[d[1]]) if cx.live else '0')
            if supplied is not None:
                if len(m.snames) == 1:
                    stext = wrap_single(supplied[0], sf, cx) if not allopt else '(' + supplied[0] + ')'
                else:
                    stext = wrap_multi(supplied, sf, cx, parens_only=allopt)
        elif m.snames:
            raise OutOfDomain('macro with string parameters in an integer context')
        if ni and not ptext and stext.startswith('('):
            ptext = '()'      # otherwise the string arguments would be read as the integer parameter list
        # nothing that could be read as a parameter may follow: more integers after a bare list, an
        # opening parenthesis when all string arguments are optional and omitted
        open_end = not stext and (not ptext.startswith('(') or bool(m.snames))
        g = self.guard(pf >> 1) if open_end else ''
        if int_context and open_end:
            g = ' '
        text = '#' + m.name + ptext + stext + g
        out = None
        if cx.live:
            cur = self.state.macros.get(m.name)
            if cur is not m:
                raise OutOfDomain('macro redefined dynamically')
            saved_scope = self.scope
            self.scope = m.scope.copy()
            try:
                bt, bv = self.t(m.body, self.body_cx(m, cx, ivals, svals, True))
            finally:
                self.scope = saved_scope
            if bt != m.text:
                raise OutOfDomain('unstable macro body')
            if m.flags & 2:
                if edge_space(bv):
                    raise OutOfDomain('#SPACE at a stripped edge')
                bv = bv.strip()
            out = bv if int_context else bv + g
        return text, out


def build_unit(ast, mode, mem0=None):
    """ast: a text node (usually ['seq', [...]]). Returns dict(text, expected, stats).
    Raises OutOfDomain when the unit has no documented value."""
    b = Builder(mode, mem0)
    text, val = b.t(ast, Cx())
    if '\x01' in text:
        raise OutOfDomain('stray marker')
    st = b.stats
    return {'text': text, 'expected': val,
            'stats': {'state_changes': st['state_changes'], 'reads_after_change': st['reads_after_change'],
                      'repairs': st['repairs'], 'forms': sorted(st['forms']), 'macros': sorted(st['macros']),
                      'excluded': sorted(st['excluded']), 'maxdepth': st['maxdepth'],
                      'mode_dependent': st['mode_dependent'], 'pops': st['pops'],
                      'stack': len(b.state.stack)},
            'state': b.state}
