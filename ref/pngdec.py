"""Independent PNG/APNG decoder + validity checker, and a reference ZX Spectrum
tile renderer.

Written from the PNG specification (ISO/IEC 15948, chunk layout, filter types,
zlib datastream), the APNG specification (acTL/fcTL/fdAT, sequence numbers,
frame regions) and SkoolKit's *public documentation* (sphinx/source/
skool-macros.rst: "Masks", "Palette", "Cropping", #UDG/#UDGARRAY parameter
descriptions; ref-files.rst: [Colours], [ImageWriter]).  It imports nothing
from skoolkit.

Decoder
-------
    png = decode(data)          -> Png (raises PngError(code, msg) when invalid)
    png.width, png.height, png.bit_depth, png.colour_type, png.palette, png.trns
    png.frames                  -> [PngFrame]; frame 0 is the default image
    PngFrame.x/.y/.width/.height/.delay_num/.delay_den/.dispose_op/.blend_op
    PngFrame.rows               -> list of rows; a row is `bytes` of palette indices
                                   (colour type 3) or a list of sample tuples
    png.rgba_rows(frame)        -> rows of (r,g,b,a) tuples (8-bit; 16-bit kept as is)
    png.planar_rows(frame)      -> colour type 3 only: per row R-plane+G-plane+B-plane+A-plane

Renderer
--------
    tiles = [[(attr, data8, mask8_or_None), ...], ...]
    r = render(tiles, scale, mask_type, flip, rotate, (x, y, w, h))
    r.idx1 / r.idx2   rows (bytes) of documented palette indexes 0..15 (0 = transparent)
                      for the normal frame and for the frame with ink/paper
                      exchanged in flashing cells
    r.flash_rect      (x, y, w, h) relative to the cropped image, or None
    r.flash_abs       (min_x, min_y) of that rectangle in uncropped coordinates
"""
import struct
import sys
import zlib

SIGNATURE = b'\x89PNG\r\n\x1a\n'


class PngError(Exception):
    def __init__(self, code, msg=''):
        super().__init__('%s: %s' % (code, msg))
        self.code = code
        self.msg = msg


# ---------------------------------------------------------------------------
# Decoder
# ---------------------------------------------------------------------------
CHANNELS = {0: 1, 2: 3, 3: 1, 4: 2, 6: 4}
ALLOWED_DEPTHS = {0: (1, 2, 4, 8, 16), 2: (8, 16), 3: (1, 2, 4, 8), 4: (8, 16), 6: (8, 16)}
KNOWN_ANCILLARY = {b'tRNS', b'acTL', b'fcTL', b'fdAT'}

_UNPACK = {}


def _unpack_table(bd):
    """byte value -> bytes of 8/bd samples (leftmost pixel in the high-order bits)."""
    t = _UNPACK.get(bd)
    if t is None:
        n = 8 // bd
        m = (1 << bd) - 1
        t = [bytes((v >> (8 - bd * (i + 1))) & m for i in range(n)) for v in range(256)]
        _UNPACK[bd] = t
    return t


class PngFrame:
    def __init__(self, x, y, width, height, seq=None, delay_num=0, delay_den=0, dispose_op=0, blend_op=0):
        self.x, self.y, self.width, self.height = x, y, width, height
        self.seq = seq
        self.delay_num, self.delay_den = delay_num, delay_den
        self.dispose_op, self.blend_op = dispose_op, blend_op
        self.zdata = []
        self.rows = None
        self.filters = None


class Png:
    def __init__(self):
        self.chunks = []
        self.palette = None
        self.trns = None
        self.frames = []
        self.animated = False
        self.num_frames = None
        self.num_plays = None
        self.default_image_is_frame = False

    def _lut(self):
        lut = []
        for i, rgb in enumerate(self.palette):
            a = self.trns[i] if self.trns is not None and i < len(self.trns) else 255
            lut.append(tuple(rgb) + (a,))
        return lut

    def rgba_rows(self, frame):
        ct = self.colour_type
        mx = (1 << self.bit_depth) - 1
        if ct == 3:
            lut = self._lut()
            return [[lut[v] for v in row] for row in frame.rows]
        out = []
        for row in frame.rows:
            r = []
            for px in row:
                if ct == 0:
                    a = 0 if self.trns is not None and px[0] == self.trns[0] else mx
                    g = px[0] * 255 // mx if self.bit_depth < 8 else px[0]
                    a = a * 255 // mx if self.bit_depth < 8 else a
                    r.append((g, g, g, a))
                elif ct == 2:
                    a = 0 if self.trns is not None and tuple(px) == tuple(self.trns) else mx
                    r.append(tuple(px) + (a,))
                elif ct == 4:
                    r.append((px[0], px[0], px[0], px[1]))
                else:
                    r.append(tuple(px))
            out.append(r)
        return out

    def planar_rows(self, frame):
        if self.colour_type != 3:
            raise PngError('unsupported', 'planar_rows needs colour type 3')
        lut = self._lut()
        tabs = [bytes(lut[i][c] if i < len(lut) else 0 for i in range(256)) for c in range(4)]
        return [b''.join(row.translate(t) for t in tabs) for row in frame.rows]


def parse_chunks(data):
    """Split into (type, data) with signature, length, type-byte and CRC checks."""
    if data[:8] != SIGNATURE:
        raise PngError('signature', 'bad PNG signature %r' % data[:8])
    i = 8
    chunks = []
    n = len(data)
    while i < n:
        if i + 12 > n:
            raise PngError('truncated', 'chunk header/CRC runs past end of file at offset %d' % i)
        length, = struct.unpack('>I', data[i:i + 4])
        if length > 0x7FFFFFFF:
            raise PngError('chunk-length', 'chunk length %d exceeds 2^31-1' % length)
        typ = data[i + 4:i + 8]
        if i + 12 + length > n:
            raise PngError('truncated', 'chunk %r of length %d runs past end of file' % (typ, length))
        for b in typ:
            if not (65 <= b <= 90 or 97 <= b <= 122):
                raise PngError('chunk-type', 'chunk type %r is not four ASCII letters' % typ)
        if typ[2] & 32:
            raise PngError('chunk-type', 'reserved bit set in chunk type %r' % typ)
        body = data[i + 8:i + 8 + length]
        crc, = struct.unpack('>I', data[i + 8 + length:i + 12 + length])
        if zlib.crc32(typ + body) & 0xFFFFFFFF != crc:
            raise PngError('crc', 'chunk %s at offset %d: stored CRC %08x, computed %08x' % (
                typ.decode(), i, crc, zlib.crc32(typ + body) & 0xFFFFFFFF))
        chunks.append((typ, body))
        i += 12 + length
        if typ == b'IEND' and i != n:
            raise PngError('trailing', '%d bytes after IEND' % (n - i))
    return chunks


def _paeth(a, b, c):
    p = a + b - c
    pa, pb, pc = abs(p - a), abs(p - b), abs(p - c)
    if pa <= pb and pa <= pc:
        return a
    if pb <= pc:
        return b
    return c


def _unfilter(raw, height, stride, bpp):
    """Undo the five PNG filter types. Returns (list of bytes rows, list of filter types)."""
    rows = []
    filters = []
    prev = bytes(stride)
    pos = 0
    for _ in range(height):
        ft = raw[pos]
        line = raw[pos + 1:pos + 1 + stride]
        pos += 1 + stride
        filters.append(ft)
        if ft == 0:
            cur = bytes(line)
        elif ft == 1:
            cur = bytearray(line)
            for i in range(bpp, stride):
                cur[i] = (cur[i] + cur[i - bpp]) & 255
        elif ft == 2:
            cur = bytearray(line)
            for i in range(stride):
                cur[i] = (cur[i] + prev[i]) & 255
        elif ft == 3:
            cur = bytearray(line)
            for i in range(stride):
                left = cur[i - bpp] if i >= bpp else 0
                cur[i] = (cur[i] + ((left + prev[i]) >> 1)) & 255
        elif ft == 4:
            cur = bytearray(line)
            for i in range(stride):
                if i >= bpp:
                    a, c = cur[i - bpp], prev[i - bpp]
                else:
                    a = c = 0
                cur[i] = (cur[i] + _paeth(a, prev[i], c)) & 255
        else:
            raise PngError('filter-type', 'scanline %d has filter type %d' % (len(rows), ft))
        cur = bytes(cur)
        rows.append(cur)
        prev = cur
    return rows, filters


def _decode_frame(png, fr, what):
    bd, ct = png.bit_depth, png.colour_type
    ch = CHANNELS[ct]
    bits = bd * ch
    stride = (fr.width * bits + 7) // 8
    bpp = max(1, bits // 8)
    d = zlib.decompressobj()
    try:
        raw = d.decompress(b''.join(fr.zdata))
        raw += d.flush()
    except zlib.error as e:
        raise PngError('zlib', '%s: %s' % (what, e))
    if not d.eof:
        raise PngError('zlib', '%s: zlib stream is incomplete' % what)
    if d.unused_data:
        raise PngError('zlib', '%s: %d bytes after the end of the zlib stream' % (what, len(d.unused_data)))
    want = fr.height * (1 + stride)
    if len(raw) != want:
        raise PngError('data-size', '%s: zlib stream inflates to %d bytes; %dx%d at bit depth %d needs %d' % (
            what, len(raw), fr.width, fr.height, bd, want))
    lines, fr.filters = _unfilter(raw, fr.height, stride, bpp)
    rows = []
    if ct == 3 or (ct == 0 and bd < 8):
        if bd == 8:
            rows = lines
        else:
            tab = _unpack_table(bd)
            w = fr.width
            rows = [b''.join([tab[b] for b in line])[:w] for line in lines]
        if ct == 3:
            npal = len(png.palette)
            for y, row in enumerate(rows):
                if row and max(row) >= npal:
                    raise PngError('palette-index', '%s: row %d uses palette index %d but PLTE has %d entries' % (
                        what, y, max(row), npal))
        else:
            rows = [[(v,) for v in row] for row in rows]
    else:
        size = bd // 8
        for line in lines:
            if size == 1:
                vals = line
            else:
                vals = struct.unpack('>%dH' % (len(line) // 2), line)
            rows.append([tuple(vals[i:i + ch]) for i in range(0, fr.width * ch, ch)])
    fr.rows = rows


def decode(data):
    """Validate and decode a PNG/APNG datastream (non-interlaced)."""
    png = Png()
    chunks = parse_chunks(bytes(data))
    png.chunks = chunks
    if not chunks or chunks[0][0] != b'IHDR':
        raise PngError('order', 'first chunk is %r, not IHDR' % (chunks[0][0] if chunks else None))
    if chunks[-1][0] != b'IEND':
        raise PngError('order', 'last chunk is %r, not IEND' % chunks[-1][0])
    if chunks[-1][1]:
        raise PngError('iend', 'IEND chunk is not empty')
    ihdr = chunks[0][1]
    if len(ihdr) != 13:
        raise PngError('ihdr', 'IHDR length %d' % len(ihdr))
    w, h, bd, ct, cm, fm, im = struct.unpack('>IIBBBBB', ihdr)
    if not (0 < w <= 0x7FFFFFFF and 0 < h <= 0x7FFFFFFF):
        raise PngError('ihdr', 'image dimensions %dx%d' % (w, h))
    if ct not in ALLOWED_DEPTHS or bd not in ALLOWED_DEPTHS[ct]:
        raise PngError('ihdr', 'colour type %d with bit depth %d is not allowed' % (ct, bd))
    if cm != 0 or fm != 0:
        raise PngError('ihdr', 'compression method %d / filter method %d' % (cm, fm))
    if im not in (0, 1):
        raise PngError('ihdr', 'interlace method %d' % im)
    if im == 1:
        raise PngError('unsupported', 'Adam7 interlacing is not implemented by this decoder')
    png.width, png.height, png.bit_depth, png.colour_type = w, h, bd, ct

    seen = set()
    state = 'pre'          # pre (before IDAT), idat (inside the IDAT run), post (after it)
    next_seq = 0
    cur = None             # frame that is currently collecting fdAT data
    default = PngFrame(0, 0, w, h)
    pending_fctl = None    # fcTL seen before IDAT
    n_fctl = 0
    for idx, (typ, body) in enumerate(chunks[1:-1], 1):
        if typ == b'IHDR':
            raise PngError('order', 'second IHDR chunk')
        if typ == b'IEND':
            raise PngError('order', 'IEND before the last chunk')
        if typ == b'IDAT':
            if state == 'post':
                raise PngError('order', 'IDAT chunks are not consecutive')
            if state == 'pre':
                if ct == 3 and png.palette is None:
                    raise PngError('plte', 'colour type 3 without a PLTE chunk before IDAT')
                state = 'idat'
            default.zdata.append(body)
            continue
        if state == 'idat':
            state = 'post'
        if typ == b'PLTE':
            if b'PLTE' in seen:
                raise PngError('plte', 'more than one PLTE chunk')
            if state != 'pre':
                raise PngError('order', 'PLTE after IDAT')
            if b'tRNS' in seen:
                raise PngError('order', 'PLTE after tRNS')
            if ct in (0, 4):
                raise PngError('plte', 'PLTE not allowed with colour type %d' % ct)
            if len(body) % 3 or not 3 <= len(body) <= 768:
                raise PngError('plte', 'PLTE length %d' % len(body))
            if ct == 3 and len(body) // 3 > (1 << bd):
                raise PngError('plte', 'PLTE has %d entries but bit depth %d allows only %d' % (len(body) // 3, bd, 1 << bd))
            png.palette = [tuple(body[j:j + 3]) for j in range(0, len(body), 3)]
        elif typ == b'tRNS':
            if b'tRNS' in seen:
                raise PngError('trns', 'more than one tRNS chunk')
            if state != 'pre':
                raise PngError('order', 'tRNS after IDAT')
            if ct == 3:
                if png.palette is None:
                    raise PngError('order', 'tRNS before PLTE')
                if not 1 <= len(body) <= len(png.palette):
                    raise PngError('trns', 'tRNS has %d entries, PLTE has %d' % (len(body), len(png.palette)))
                png.trns = list(body)
            elif ct == 0:
                if len(body) != 2:
                    raise PngError('trns', 'tRNS length %d for colour type 0' % len(body))
                png.trns = list(struct.unpack('>H', body))
            elif ct == 2:
                if len(body) != 6:
                    raise PngError('trns', 'tRNS length %d for colour type 2' % len(body))
                png.trns = list(struct.unpack('>HHH', body))
            else:
                raise PngError('trns', 'tRNS not allowed with colour type %d' % ct)
        elif typ == b'acTL':
            if b'acTL' in seen:
                raise PngError('actl', 'more than one acTL chunk')
            if state != 'pre':
                raise PngError('order', 'acTL after IDAT')
            if len(body) != 8:
                raise PngError('actl', 'acTL length %d' % len(body))
            png.num_frames, png.num_plays = struct.unpack('>II', body)
            if not 0 < png.num_frames <= 0x7FFFFFFF or png.num_plays > 0x7FFFFFFF:
                raise PngError('actl', 'num_frames %d, num_plays %d' % (png.num_frames, png.num_plays))
            png.animated = True
        elif typ == b'fcTL':
            if b'acTL' not in seen:
                raise PngError('order', 'fcTL without a preceding acTL')
            if len(body) != 26:
                raise PngError('fctl', 'fcTL length %d' % len(body))
            seq, fw, fh, fx, fy, dn, dd, dop, bop = struct.unpack('>IIIIIHHBB', body)
            if seq != next_seq:
                raise PngError('sequence', 'fcTL has sequence number %d, expected %d' % (seq, next_seq))
            next_seq += 1
            if fw == 0 or fh == 0 or fw > 0x7FFFFFFF or fh > 0x7FFFFFFF or fx > 0x7FFFFFFF or fy > 0x7FFFFFFF:
                raise PngError('fctl', 'frame %d: size %dx%d at (%d,%d)' % (n_fctl, fw, fh, fx, fy))
            if fx + fw > w or fy + fh > h:
                raise PngError('fctl-region', 'frame %d: region %dx%d at (%d,%d) is not inside the %dx%d image' % (
                    n_fctl, fw, fh, fx, fy, w, h))
            if dop > 2 or bop > 1:
                raise PngError('fctl', 'frame %d: dispose_op %d, blend_op %d' % (n_fctl, dop, bop))
            if cur is not None and not cur.zdata:
                raise PngError('order', 'fcTL (frame %d) not followed by any fdAT' % (n_fctl - 1))
            fr = PngFrame(fx, fy, fw, fh, seq, dn, dd, dop, bop)
            if state == 'pre':
                if pending_fctl is not None:
                    raise PngError('order', 'two fcTL chunks before IDAT')
                if (fx, fy, fw, fh) != (0, 0, w, h):
                    raise PngError('fctl-region', 'fcTL of the default image is %dx%d at (%d,%d), image is %dx%d' % (fw, fh, fx, fy, w, h))
                pending_fctl = fr
            else:
                if state == 'idat':
                    raise PngError('order', 'fcTL inside the IDAT run')
                cur = fr
                png.frames.append(fr)
            n_fctl += 1
        elif typ == b'fdAT':
            if state == 'pre':
                raise PngError('order', 'fdAT before IDAT')
            if cur is None:
                raise PngError('order', 'fdAT without a preceding fcTL')
            if len(body) < 4:
                raise PngError('fdat', 'fdAT length %d' % len(body))
            seq, = struct.unpack('>I', body[:4])
            if seq != next_seq:
                raise PngError('sequence', 'fdAT has sequence number %d, expected %d' % (seq, next_seq))
            next_seq += 1
            cur.zdata.append(body[4:])
        else:
            if not typ[0] & 32:
                raise PngError('unknown-critical', 'unknown critical chunk %r' % typ)
        seen.add(typ)
    if not default.zdata:
        raise PngError('order', 'no IDAT chunk')
    if cur is not None and not cur.zdata:
        raise PngError('order', 'last fcTL is not followed by any fdAT')
    if pending_fctl is not None:
        pending_fctl.zdata = default.zdata
        default = pending_fctl
        png.default_image_is_frame = True
    png.frames.insert(0, default)
    if png.animated:
        if n_fctl != png.num_frames:
            raise PngError('actl', 'acTL announces %d frames, %d fcTL chunks present' % (png.num_frames, n_fctl))
    for i, fr in enumerate(png.frames):
        _decode_frame(png, fr, 'frame %d' % i)
    return png


# ---------------------------------------------------------------------------
# Encoder used only by the self-test (forward filters written independently)
# ---------------------------------------------------------------------------
def _chunk(typ, body):
    return struct.pack('>I', len(body)) + typ + body + struct.pack('>I', zlib.crc32(typ + body) & 0xFFFFFFFF)


def _filter_rows(lines, bpp, ftypes):
    out = bytearray()
    prev = bytes(len(lines[0])) if lines else b''
    for y, line in enumerate(lines):
        ft = ftypes[y % len(ftypes)]
        out.append(ft)
        for i, v in enumerate(line):
            a = line[i - bpp] if i >= bpp else 0
            b = prev[i]
            c = prev[i - bpp] if i >= bpp else 0
            if ft == 0:
                p = 0
            elif ft == 1:
                p = a
            elif ft == 2:
                p = b
            elif ft == 3:
                p = (a + b) // 2
            else:
                p = _paeth(a, b, c)
            out.append((v - p) & 255)
        prev = line
    return bytes(out)


def _pack(row, bd):
    if bd == 8:
        return bytes(row)
    out = bytearray()
    per = 8 // bd
    for i in range(0, len(row), per):
        v = 0
        grp = list(row[i:i + per])
        grp += [0] * (per - len(grp))
        for s in grp:
            v = (v << bd) | s
        out.append(v)
    return bytes(out)


def encode(width, height, bit_depth, colour_type, rows, ftypes=(0,), palette=None, trns=None,
           extra_frames=(), level=6, split=None):
    """rows: list of lists of samples (flat: channels interleaved). extra_frames:
    [(x, y, w, h, rows, delay)] written as fcTL+fdAT."""
    ch = CHANNELS[colour_type]
    bpp = max(1, bit_depth * ch // 8)

    def zdata(rws):
        lines = [_pack(r, bit_depth) if bit_depth <= 8 else struct.pack('>%dH' % len(r), *r) for r in rws]
        return zlib.compress(_filter_rows(lines, bpp, ftypes), level)

    out = SIGNATURE + _chunk(b'IHDR', struct.pack('>IIBBBBB', width, height, bit_depth, colour_type, 0, 0, 0))
    if palette is not None:
        out += _chunk(b'PLTE', bytes(v for rgb in palette for v in rgb))
    if trns is not None:
        out += _chunk(b'tRNS', bytes(trns))
    seq = 0
    if extra_frames:
        out += _chunk(b'acTL', struct.pack('>II', 1 + len(extra_frames), 0))
        out += _chunk(b'fcTL', struct.pack('>IIIIIHHBB', seq, width, height, 0, 0, 1, 100, 0, 0))
        seq += 1
    z = zdata(rows)
    if split:
        out += _chunk(b'IDAT', z[:split]) + _chunk(b'IDAT', z[split:])
    else:
        out += _chunk(b'IDAT', z)
    for x, y, w, h, rws, delay in extra_frames:
        out += _chunk(b'fcTL', struct.pack('>IIIIIHHBB', seq, w, h, x, y, delay, 100, 0, 0))
        seq += 1
        out += _chunk(b'fdAT', struct.pack('>I', seq) + zdata(rws))
        seq += 1
    return out + _chunk(b'IEND', b'')


# ---------------------------------------------------------------------------
# Reference Spectrum tile renderer (documented display rules)
# ---------------------------------------------------------------------------
# ref-files.rst [Colours]: default RGB values; skool-macros.rst "Palette": index order
DEFAULT_COLOURS = (
    (0, 254, 0),      # 0 TRANSPARENT
    (0, 0, 0),        # 1 BLACK
    (0, 0, 197),      # 2 BLUE
    (197, 0, 0),      # 3 RED
    (197, 0, 197),    # 4 MAGENTA
    (0, 198, 0),      # 5 GREEN
    (0, 198, 197),    # 6 CYAN
    (197, 198, 0),    # 7 YELLOW
    (205, 198, 205),  # 8 WHITE
    (0, 0, 255),      # 9 BRIGHT_BLUE
    (255, 0, 0),      # 10 BRIGHT_RED
    (255, 0, 255),    # 11 BRIGHT_MAGENTA
    (0, 255, 0),      # 12 BRIGHT_GREEN
    (0, 255, 255),    # 13 BRIGHT_CYAN
    (255, 255, 0),    # 14 BRIGHT_YELLOW
    (255, 255, 255),  # 15 BRIGHT_WHITE
)
COLOUR_NAMES = ('TRANSPARENT', 'BLACK', 'BLUE', 'RED', 'MAGENTA', 'GREEN', 'CYAN', 'YELLOW', 'WHITE',
                'BRIGHT_BLUE', 'BRIGHT_RED', 'BRIGHT_MAGENTA', 'BRIGHT_GREEN', 'BRIGHT_CYAN',
                'BRIGHT_YELLOW', 'BRIGHT_WHITE')


def attr_colours(attr):
    """Spectrum attribute byte -> (ink, paper) as indexes into the documented
    16-entry palette. Bits 0-2 ink, 3-5 paper, 6 bright, 7 flash. The palette
    has a single black entry (1): bright black is black."""
    ink, paper = attr & 7, (attr >> 3) & 7
    if attr & 64:
        ink = 8 + ink if ink else 1
        paper = 8 + paper if paper else 1
    else:
        ink, paper = 1 + ink, 1 + paper
    return ink, paper


def tile_rows(attr, data, mask, mask_type, swap=False):
    """One 8x8 tile -> 8 rows (bytes of palette indexes; 0 = transparent).

    Truth tables (skool-macros.rst, "Masks"), U = graphic bit, M = mask bit:
      OR-AND (1): U0 M0 paper | U0 M1 transparent | U1 M0 paper | U1 M1 ink
      AND-OR (2): U0 M0 paper | U0 M1 transparent | U1 M0 ink   | U1 M1 ink
    A tile without mask data, or mask type 0, is drawn unmasked: U1 ink, U0 paper."""
    ink, paper = attr_colours(attr)
    if swap and attr & 128:
        ink, paper = paper, ink
    rows = []
    for j in range(8):
        ub = data[j]
        row = bytearray(8)
        for k in range(8):
            bit = 128 >> k
            u = 1 if ub & bit else 0
            if mask_type and mask is not None:
                m = 1 if mask[j] & bit else 0
                if mask_type == 1:
                    v = (ink if m else paper) if u else (0 if m else paper)
                else:
                    v = ink if u else (0 if m else paper)
            else:
                v = ink if u else paper
            row[k] = v
        rows.append(bytes(row))
    return rows


def assemble(tiles, fn):
    """Rows of tiles -> pixel matrix (list of bytes), fn(tile) -> 8 rows of 8 bytes."""
    out = []
    for trow in tiles:
        cells = [fn(t) for t in trow]
        for j in range(8):
            out.append(b''.join(c[j] for c in cells))
    return out


def flip_matrix(rows, flip):
    """1: mirror left-right; 2: mirror top-bottom; 3: both."""
    if flip & 1:
        rows = [r[::-1] for r in rows]
    if flip & 2:
        rows = rows[::-1]
    return rows


def rotate_matrix(rows, n):
    """Rotate the picture n times 90 degrees clockwise."""
    for _ in range(n & 3):
        h = len(rows)
        w = len(rows[0])
        # new row x (top to bottom) = old column x read from bottom to top
        rows = [bytes(rows[h - 1 - y][x] for y in range(h)) for x in range(w)]
    return rows


def scale_matrix(rows, s):
    if s == 1:
        return list(rows)
    out = []
    for r in rows:
        big = b''.join([bytes((v,)) * s for v in r])
        out.extend([big] * s)
    return out


def crop_matrix(rows, x, y, w, h):
    return [r[x:x + w] for r in rows[y:y + h]]


class Rendered:
    pass


def effective_crop(cols, rows, scale, crop):
    """Cropping spec semantics (skool-macros.rst "Cropping"): x, y = top-left pixel
    of the constructed image to keep; width/height default to what is left."""
    x, y, w, h = crop if crop else (0, 0, None, None)
    fw, fh = 8 * cols * scale, 8 * rows * scale
    if not w or w > fw - x:
        w = fw - x
    if not h or h > fh - y:
        h = fh - y
    return x, y, w, h, fw, fh


def render(tiles, scale=1, mask_type=0, flip=0, rotate=0, crop=None, cache=None):
    """tiles: 2D list of (attr, data, mask|None) tuples. Flip is applied first,
    then rotation, then scaling, then cropping."""
    if cache is None:
        cache = {}

    def fn(swap):
        def f(t):
            key = (t[0], bytes(t[1]), None if t[2] is None else bytes(t[2]), mask_type, swap)
            v = cache.get(key)
            if v is None:
                v = cache[key] = tile_rows(t[0], t[1], t[2], mask_type, swap)
            return v
        return f

    def flashing(t):
        ink, paper = attr_colours(t[0])
        v = bytes((1 if (t[0] & 128 and ink != paper) else 0,)) * 8
        return [v] * 8

    mats = [assemble(tiles, fn(False)), assemble(tiles, fn(True)), assemble(tiles, flashing)]
    mats = [rotate_matrix(flip_matrix(m, flip), rotate) for m in mats]
    m1, m2, mf = mats
    trows, tcols = len(m1) // 8, len(m1[0]) // 8
    x, y, w, h, fw, fh = effective_crop(tcols, trows, scale, crop)
    r = Rendered()
    r.full_width, r.full_height = fw, fh
    r.x, r.y, r.width, r.height = x, y, w, h
    r.cropped = (w, h) != (fw, fh)
    r.idx1 = crop_matrix(scale_matrix(m1, scale), x, y, w, h)
    r.idx2 = crop_matrix(scale_matrix(m2, scale), x, y, w, h)
    # flash rectangle: union of (cell INTERSECT crop) over flashing cells with ink != paper that
    # show at least one non-transparent pixel inside the crop
    inc = 8 * scale
    x1, y1 = x + w, y + h
    box = None
    for tr in range(trows):
        cy0 = tr * inc
        if cy0 >= y1 or cy0 + inc <= y:
            continue
        for tc in range(tcols):
            if not mf[tr * 8][tc * 8]:
                continue
            cx0 = tc * inc
            if cx0 >= x1 or cx0 + inc <= x:
                continue
            ax0, ax1 = max(cx0, x), min(cx0 + inc, x1)
            ay0, ay1 = max(cy0, y), min(cy0 + inc, y1)
            vis = False
            for yy in range(ay0 - y, ay1 - y):
                seg = r.idx1[yy][ax0 - x:ax1 - x]
                if seg.count(0) != len(seg):
                    vis = True
                    break
            if not vis:
                continue
            if box is None:
                box = [ax0, ay0, ax1, ay1]
            else:
                box = [min(box[0], ax0), min(box[1], ay0), max(box[2], ax1), max(box[3], ay1)]
    if box is None:
        r.flash_rect = None
        r.flash_abs = None
    else:
        r.flash_rect = (box[0] - x, box[1] - y, box[2] - box[0], box[3] - box[1])
        r.flash_abs = (box[0], box[1])
    return r


def planar_expected(rows, colours, tcode, alpha):
    """Palette-index rows -> planar RGBA rows (R-plane+G-plane+B-plane+A-plane per row).
    colours: 16 RGB triples; pixels whose index == tcode get `alpha`, others 255."""
    tabs = [bytes(colours[i][c] if i < 16 else 0 for i in range(256)) for c in range(3)]
    tabs.append(bytes(alpha if i == tcode else 255 for i in range(256)))
    return [b''.join(r.translate(t) for t in tabs) for r in rows]


# ---------------------------------------------------------------------------
# Self-test
# ---------------------------------------------------------------------------
def selftest(verbose=False):
    import random
    rnd = random.Random(15)
    n = 0

    def check(cond, what):
        nonlocal n
        n += 1
        if not cond:
            raise AssertionError('pngdec selftest failed: ' + what)

    # 1. round trips: every filter type alone and all five mixed, every colour type / bit depth
    combos = [(3, 1), (3, 2), (3, 4), (3, 8), (0, 1), (0, 2), (0, 4), (0, 8), (0, 16), (2, 8), (2, 16), (4, 8), (4, 16), (6, 8), (6, 16)]
    for ct, bd in combos:
        ch = CHANNELS[ct]
        for ftypes in ((0,), (1,), (2,), (3,), (4,), (0, 1, 2, 3, 4), (4, 3, 1)):
            for (w, h) in ((1, 1), (3, 2), (8, 5), (13, 7), (17, 3)):
                mx = (1 << bd) - 1
                npal = min(1 << bd, 11)
                if ct == 3:
                    rows = [[rnd.randrange(npal) for _ in range(w)] for _ in range(h)]
                else:
                    rows = [[rnd.randrange(mx + 1) for _ in range(w * ch)] for _ in range(h)]
                pal = [(rnd.randrange(256), rnd.randrange(256), rnd.randrange(256)) for _ in range(npal)] if ct == 3 else None
                trns = [rnd.randrange(256) for _ in range(rnd.randrange(1, npal + 1))] if ct == 3 and rnd.random() < 0.5 else None
                data = encode(w, h, bd, ct, rows, ftypes, pal, trns, level=rnd.choice((0, 1, 9)),
                              split=rnd.choice((None, 1, 5)))
                png = decode(data)
                check((png.width, png.height, png.bit_depth, png.colour_type) == (w, h, bd, ct), 'IHDR round trip')
                fr = png.frames[0]
                check(fr.filters == [ftypes[y % len(ftypes)] for y in range(h)], 'filter types seen')
                if ct == 3:
                    got = [list(r) for r in fr.rows]
                    check(got == rows, 'palette rows ct3 bd%d filters %r %dx%d' % (bd, ftypes, w, h))
                    rgba = png.rgba_rows(fr)
                    exp = [[tuple(pal[v]) + ((trns[v] if trns and v < len(trns) else 255),) for v in r] for r in rows]
                    check(rgba == exp, 'rgba rows ct3')
                    pl = png.planar_rows(fr)
                    for yy in range(h):
                        e = bytes(p[c] for c in range(4) for p in exp[yy])
                        check(pl[yy] == e, 'planar rows ct3')
                else:
                    got = [[v for px in r for v in px] for r in fr.rows]
                    check(got == rows, 'sample rows ct%d bd%d filters %r %dx%d' % (ct, bd, ftypes, w, h))
    # 2. known answers: Paeth predictor and a hand-made 2x2 1-bit image
    check(_paeth(10, 20, 5) == 20 and _paeth(1, 2, 3) == 1 and _paeth(5, 5, 5) == 5 and _paeth(0, 9, 9) == 0, 'paeth')
    raw = bytes([0, 0b10000000, 0, 0b01000000])
    hand = (SIGNATURE + _chunk(b'IHDR', struct.pack('>IIBBBBB', 2, 2, 1, 3, 0, 0, 0)) +
            _chunk(b'PLTE', bytes([1, 2, 3, 4, 5, 6])) + _chunk(b'IDAT', zlib.compress(raw)) + _chunk(b'IEND', b''))
    png = decode(hand)
    check([list(r) for r in png.frames[0].rows] == [[1, 0], [0, 1]], 'hand-made 2x2')
    check(png.rgba_rows(png.frames[0]) == [[(4, 5, 6, 255), (1, 2, 3, 255)], [(1, 2, 3, 255), (4, 5, 6, 255)]], 'hand-made rgba')
    # Sub filter by hand: bytes 5, +3, +250 -> 5, 8, 2 (mod 256)
    raw = bytes([1, 5, 3, 250])
    hand = (SIGNATURE + _chunk(b'IHDR', struct.pack('>IIBBBBB', 3, 1, 8, 0, 0, 0, 0)) +
            _chunk(b'IDAT', zlib.compress(raw)) + _chunk(b'IEND', b''))
    check(decode(hand).frames[0].rows == [[(5,), (8,), (2,)]], 'hand-made Sub')
    # 3. APNG round trip
    base = [[rnd.randrange(4) for _ in range(9)] for _ in range(6)]
    f2 = [[rnd.randrange(4) for _ in range(4)] for _ in range(3)]
    f3 = [[rnd.randrange(4) for _ in range(9)] for _ in range(1)]
    pal = [(0, 0, 0), (1, 1, 1), (2, 2, 2), (3, 3, 3)]
    data = encode(9, 6, 2, 3, base, (0, 4), pal, [7], extra_frames=[(5, 3, 4, 3, f2, 32), (0, 5, 9, 1, f3, 7)])
    png = decode(data)
    check(png.animated and png.num_frames == 3 and len(png.frames) == 3 and png.default_image_is_frame, 'apng frames')
    check([list(r) for r in png.frames[1].rows] == f2 and (png.frames[1].x, png.frames[1].y) == (5, 3), 'apng frame 2')
    check([list(r) for r in png.frames[2].rows] == f3 and png.frames[2].delay_num == 7, 'apng frame 3')
    # 4. every validity rule must fire on a corrupted stream
    good = encode(9, 6, 2, 3, base, (0,), pal, [7], extra_frames=[(5, 3, 4, 3, f2, 32)])

    def chunks_of(d):
        return parse_chunks(d)

    def rebuild(chs):
        return SIGNATURE + b''.join(_chunk(t, b) for t, b in chs)

    def expect(code, d, what):
        try:
            decode(d)
        except PngError as e:
            check(e.code == code, '%s: expected %s, got %s (%s)' % (what, code, e.code, e.msg))
            return
        check(False, '%s: expected %s, decoded fine' % (what, code))

    chs = chunks_of(good)
    names = [t for t, _ in chs]
    check(names == [b'IHDR', b'PLTE', b'tRNS', b'acTL', b'fcTL', b'IDAT', b'fcTL', b'fdAT', b'IEND'], 'chunk order of encoder')
    expect('signature', b'\x88' + good[1:], 'signature')
    bad = bytearray(good)
    bad[40] ^= 1
    expect('crc', bytes(bad), 'crc')
    expect('truncated', good[:-5], 'truncated')
    expect('trailing', good + b'\0', 'trailing')
    expect('order', rebuild(chs[1:]), 'no IHDR first')
    expect('order', rebuild(chs[:-1]), 'no IEND')
    expect('plte', rebuild([c for c in chs if c[0] != b'PLTE' and c[0] != b'tRNS']), 'missing PLTE')
    expect('order', rebuild([chs[0], chs[2], chs[1]] + chs[3:]), 'tRNS before PLTE')
    expect('trns', rebuild([chs[0], chs[1], (b'tRNS', bytes(5))] + chs[3:]), 'tRNS longer than PLTE')
    expect('plte', rebuild([chs[0], (b'PLTE', bytes(15))] + chs[2:]), 'PLTE bigger than 2^bd')
    expect('plte', rebuild([chs[0], (b'PLTE', bytes(4))] + chs[2:]), 'PLTE length not multiple of 3')
    expect('palette-index', rebuild([chs[0], (b'PLTE', bytes(6)), (b'tRNS', b'\x07')] + chs[3:]), 'index beyond PLTE')
    ih = bytearray(chs[0][1])
    ih[8] = 3
    expect('ihdr', rebuild([(b'IHDR', bytes(ih))] + chs[1:]), 'bit depth 3')
    ih = bytearray(chs[0][1])
    ih[7] = 7            # height 7: IDAT too short
    expect('data-size', rebuild([(b'IHDR', bytes(ih))] + chs[1:4] + [(b'fcTL', struct.pack('>IIIIIHHBB', 0, 9, 7, 0, 0, 1, 100, 0, 0))] + chs[5:]), 'IDAT size')
    fc = bytearray(chs[6][1])
    fc[3] = 5
    expect('sequence', rebuild(chs[:6] + [(b'fcTL', bytes(fc))] + chs[7:]), 'fcTL sequence')
    fd = bytearray(chs[7][1])
    fd[3] = 9
    expect('sequence', rebuild(chs[:7] + [(b'fdAT', bytes(fd))] + chs[8:]), 'fdAT sequence')
    expect('fctl-region', rebuild(chs[:6] + [(b'fcTL', struct.pack('>IIIIIHHBB', 1, 4, 3, 6, 3, 1, 100, 0, 0))] + chs[7:]), 'frame outside image')
    expect('actl', rebuild(chs[:3] + [(b'acTL', struct.pack('>II', 3, 0))] + chs[4:]), 'acTL frame count')
    expect('order', rebuild(chs[:7] + chs[8:]), 'fcTL without fdAT')
    expect('order', rebuild(chs[:3] + chs[4:]), 'fcTL without acTL')
    expect('data-size', rebuild(chs[:7] + [(b'fdAT', chs[7][1][:4] + zlib.compress(bytes(5)))] + chs[8:]), 'fdAT size')
    expect('zlib', rebuild(chs[:5] + [(b'IDAT', chs[5][1][:-3])] + chs[6:]), 'truncated zlib stream')
    expect('zlib', rebuild(chs[:5] + [(b'IDAT', chs[5][1] + b'xx')] + chs[6:]), 'junk after zlib stream')
    expect('filter-type', rebuild(chs[:5] + [(b'IDAT', zlib.compress(bytes([5]) + bytes(3) + bytes(4 * 5)))] + chs[6:]), 'filter type 5')
    expect('unknown-critical', rebuild(chs[:1] + [(b'ABCD', b'')] + chs[1:]), 'unknown critical')
    decode(rebuild(chs[:1] + [(b'teXt', b'k\0v')] + chs[1:]))     # unknown ancillary chunk is fine
    expect('order', rebuild(chs[:6] + [(b'teXt', b''), (b'IDAT', b'')] + chs[6:]), 'IDAT not consecutive')
    # 5. renderer: documented truth tables, attribute decoding, geometry
    check(attr_colours(0x38) == (1, 8) and attr_colours(0x47) == (15, 1) and attr_colours(0x78) == (1, 15)
          and attr_colours(0x07) == (8, 1) and attr_colours(0xC2) == (10, 1), 'attr colours')
    d, m = [0b00110000] * 8, [0b01010000] * 8     # (U,M) = 00,01,10,11
    check(list(tile_rows(0x0A, d, m, 1)[0][:4]) == [2, 0, 2, 3], 'OR-AND truth table')
    check(list(tile_rows(0x0A, d, m, 2)[0][:4]) == [2, 0, 3, 3], 'AND-OR truth table')
    check(list(tile_rows(0x0A, d, m, 0)[0][:4]) == [2, 2, 3, 3], 'no mask')
    check(list(tile_rows(0x0A, d, None, 1)[0][:4]) == [2, 2, 3, 3], 'tile without mask data')
    check(list(tile_rows(0x8A, d, m, 1, True)[0][:4]) == [3, 0, 3, 2], 'flash swap')
    check(list(tile_rows(0x0A, d, m, 1, True)[0][:4]) == [2, 0, 2, 3], 'swap ignores steady cells')
    mat = [b'\x01\x02', b'\x03\x04']
    check(flip_matrix(mat, 1) == [b'\x02\x01', b'\x04\x03'] and flip_matrix(mat, 2) == [b'\x03\x04', b'\x01\x02'], 'flip')
    check(rotate_matrix(mat, 1) == [b'\x03\x01', b'\x04\x02'], 'rotate cw')
    check(rotate_matrix(mat, 3) == [b'\x02\x04', b'\x01\x03'] and rotate_matrix(mat, 2) == flip_matrix(mat, 3), 'rotate')
    check(scale_matrix(mat, 2) == [b'\x01\x01\x02\x02'] * 2 + [b'\x03\x03\x04\x04'] * 2, 'scale')
    t = (0x87, [0x80] + [0] * 7, None)
    u = (0x07, [0] * 8, None)
    r = render([[u, t]], 2, 0, 0, 0, (3, 1, 20, 9))
    check((r.width, r.height, r.cropped) == (20, 9, True) and r.flash_rect == (13, 0, 7, 9) and r.flash_abs == (16, 1), 'flash rect')
    check(r.idx1[0][13] == 8 and r.idx2[0][13] == 1 and r.idx1[0][12] == 1 and r.idx2[0][12] == 1, 'flash pixels')
    r = render([[u, t]], 1, 0, 1, 0, None)
    check(r.flash_rect == (0, 0, 8, 8) and r.idx1[0][7] == 8 and not r.cropped, 'flip moves cells')
    r = render([[u, t]], 1, 0, 0, 1, None)
    check((r.width, r.height) == (8, 16) and r.flash_rect == (0, 8, 8, 8) and r.idx1[8][7] == 8, 'rotate moves cells')
    if verbose:
        print('ref.pngdec selftest: %d assertions passed' % n)
    return n


if __name__ == '__main__':
    selftest(verbose=True)
    sys.exit(0)
