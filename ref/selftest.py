"""Self-tests of the reference oracles against textbook values (run by setup)."""
import sys
from ref import z80ref, ula


def run(code, **regs):
    mem = bytearray(65536)
    mem[0x8000:0x8000 + len(code)] = bytes(code)
    z = z80ref.Z80(mem)
    z.pc = 0x8000
    z.sp = 0xFF00
    for k, v in regs.items():
        setattr(z, k, v)
    s = z.step()
    return z, s


def main():
    n = 0
    def eq(a, b, what):
        nonlocal n
        n += 1
        if a != b:
            print('ref selftest FAILED: %s: %r != %r' % (what, a, b))
            sys.exit(2)
    # ADD A,B: 0x7F+1 = 0x80, S H V set
    z, s = run([0x80], a=0x7F, b=1)
    eq((z.a, z.f & 0xD7), (0x80, 0x94), 'ADD 7F+1')
    z, s = run([0x80], a=0xFF, b=1)
    eq((z.a, z.f & 0xD7), (0x00, 0x51), 'ADD FF+1')
    # SUB B: 0-1
    z, s = run([0x90], a=0, b=1)
    eq((z.a, z.f & 0xD7), (0xFF, 0x93), 'SUB 0-1')
    z, s = run([0x90], a=0x80, b=1)
    eq((z.a, z.f & 0xD7), (0x7F, 0x16), 'SUB 80-1')
    # ADC with carry: 0x7F + 0 + 1
    z, s = run([0x88], a=0x7F, b=0, f=1)
    eq((z.a, z.f & 0xD7), (0x80, 0x94), 'ADC 7F+0+1')
    # SBC: 0 - 0xFF - 1 = 0, carry, half
    z, s = run([0x98], a=0, b=0xFF, f=1)
    eq((z.a, z.f & 0xD7), (0x00, 0x53), 'SBC 0-FF-1')
    # CP: flags only
    z, s = run([0xB8], a=5, b=5)
    eq((z.a, z.f & 0xD7), (5, 0x42), 'CP 5,5')
    # AND / OR / XOR
    z, s = run([0xA0], a=0xF0, b=0x0F)
    eq((z.a, z.f & 0xD7), (0, 0x54), 'AND')
    z, s = run([0xB0], a=0xF0, b=0x0F)
    eq((z.a, z.f & 0xD7), (0xFF, 0x84), 'OR')
    z, s = run([0xA8], a=0xFF, b=0xFE)
    eq((z.a, z.f & 0xD7), (1, 0x00), 'XOR')
    # DAA: 0x15 + 0x27 = 0x3C -> 0x42
    z, s = run([0x27], a=0x3C, f=0)
    eq((z.a, z.f & 0xD7), (0x42, 0x14), 'DAA 3C')
    z, s = run([0x27], a=0x9A, f=0)
    eq((z.a, z.f & 0xD7), (0x00, 0x55), 'DAA 9A')
    # after SUB: 0x42 - 0x15 = 0x2D -> 0x27 (N=1,H=1)
    z, s = run([0x27], a=0x2D, f=0x12)
    eq((z.a, z.f & 0xC7), (0x27, 0x06), 'DAA after sub')
    # INC / DEC
    z, s = run([0x04], b=0x7F, f=1)
    eq((z.b, z.f & 0xD7), (0x80, 0x95), 'INC 7F')
    z, s = run([0x05], b=0x80, f=0)
    eq((z.b, z.f & 0xD7), (0x7F, 0x16), 'DEC 80')
    # 16-bit
    z, s = run([0x09], h=0x0F, l=0xFF, b=0, c=1, f=0xC4)
    eq((z.hl(), z.f & 0xD7), (0x1000, 0xD4), 'ADD HL,BC')
    z, s = run([0xED, 0x4A], h=0x7F, l=0xFF, b=0, c=0, f=1)
    eq((z.hl(), z.f & 0xD7), (0x8000, 0x94), 'ADC HL,BC')
    z, s = run([0xED, 0x42], h=0, l=0, b=0, c=1, f=0)
    eq((z.hl(), z.f & 0xD7), (0xFFFF, 0x93), 'SBC HL,BC')
    # rotates
    z, s = run([0x07], a=0x81, f=0xD4)
    eq((z.a, z.f & 0xD7), (0x03, 0xC5), 'RLCA')
    z, s = run([0xCB, 0x30], b=0x80)
    eq((z.b, z.f & 0xD7), (0x01, 0x01), 'SLL B')
    z, s = run([0xCB, 0x28], b=0x81)
    eq((z.b, z.f & 0xD7), (0xC0, 0x85), 'SRA B')
    # BIT
    z, s = run([0xCB, 0x78], b=0x7F, f=1)
    eq(z.f & 0x53, 0x51, 'BIT 7,B zero')
    # RLD
    z, s = run([0xED, 0x6F], a=0x7A, h=0x90, l=0)
    z.mem[0x9000] = 0x31
    z, s = run([0xED, 0x6F], a=0x7A, h=0x90, l=0)
    m = bytearray(65536); m[0x8000:0x8002] = b'\xed\x6f'; m[0x9000] = 0x31
    z = z80ref.Z80(m); z.pc = 0x8000; z.a = 0x7A; z.h = 0x90
    z.step()
    eq((z.a, m[0x9000]), (0x73, 0x1A), 'RLD')
    m = bytearray(65536); m[0x8000:0x8002] = b'\xed\x67'; m[0x9000] = 0x20
    z = z80ref.Z80(m); z.pc = 0x8000; z.a = 0x84; z.h = 0x90
    z.step()
    eq((z.a, m[0x9000]), (0x80, 0x42), 'RRD')
    # block
    m = bytearray(65536); m[0x8000:0x8002] = b'\xed\xb0'; m[0x9000] = 0x55
    z = z80ref.Z80(m); z.pc = 0x8000; z.h = 0x90; z.d = 0xA0; z.c = 2
    s = z.step()
    eq((m[0xA000], z.bc(), z.pc, s.t, z.f & 4), (0x55, 1, 0x8000, 21, 4), 'LDIR repeat')
    s = z.step()
    eq((z.bc(), z.pc, s.t, z.f & 4), (0, 0x8002, 16, 0), 'LDIR end')
    m = bytearray(65536); m[0x8000:0x8002] = b'\xed\xb1'; m[0x9000] = 0x55
    z = z80ref.Z80(m); z.pc = 0x8000; z.h = 0x90; z.c = 5; z.a = 0x55
    s = z.step()
    eq((z.pc, s.t, z.f & 0x46), (0x8002, 16, 0x46), 'CPIR match')
    # timings & lengths (Zilog manual)
    for code, t, ln in (([0x00], 4, 1), ([0x3E, 1], 7, 2), ([0x21, 0, 0], 10, 3), ([0x36, 0], 10, 2), ([0x34], 11, 1),
                        ([0xC5], 11, 1), ([0xC1], 10, 1), ([0xCD, 0, 0], 17, 3), ([0xC9], 10, 1), ([0xE3], 19, 1),
                        ([0xDD, 0x21, 0, 0], 14, 4), ([0xDD, 0x36, 0, 0], 19, 4), ([0xDD, 0x34, 0], 23, 3),
                        ([0xDD, 0xCB, 0, 0x06], 23, 4), ([0xDD, 0xCB, 0, 0x46], 20, 4), ([0xDD, 0x86, 0], 19, 3),
                        ([0xED, 0x43, 0, 0x90], 20, 4), ([0xED, 0x44], 8, 2), ([0xED, 0x45], 14, 2), ([0xED, 0x57], 9, 2),
                        ([0xED, 0x67], 18, 2), ([0xED, 0xA0], 16, 2), ([0xED, 0x78], 12, 2), ([0xDB, 0], 11, 2),
                        ([0xCB, 0x06], 15, 2), ([0xCB, 0x46], 12, 2), ([0xCB, 0x00], 8, 2), ([0x2A, 0, 0x90], 16, 3),
                        ([0x32, 0, 0x90], 13, 3), ([0x09], 11, 1), ([0x03], 6, 1), ([0xF9], 6, 1), ([0xE9], 4, 1),
                        ([0xDD, 0xE9], 8, 2), ([0xDD, 0x09], 15, 2), ([0xC7], 11, 1), ([0xED, 0x00], 8, 2),
                        ([0xDD, 0x00], 4, 1), ([0xFD, 0xDD], 4, 1), ([0xDD, 0x64], 8, 2), ([0x18, 0], 12, 2), ([0xDD, 0xE3], 23, 2)):
        z, s = run(code)
        eq((s.t, s.length), (t, ln), 'timing/length of %s' % bytes(code).hex())
    z, s = run([0x10, 0xFE], b=1); eq(s.t, 8, 'DJNZ not taken')
    z, s = run([0x10, 0xFE], b=2); eq((s.t, z.pc), (13, 0x8000), 'DJNZ taken')
    z, s = run([0x20, 0x10], f=0x40); eq(s.t, 7, 'JR NZ not taken')
    z, s = run([0xC0], f=0x40); eq(s.t, 5, 'RET NZ not taken')
    z, s = run([0xC4, 0, 0], f=0x00); eq(s.t, 17, 'CALL NZ taken')
    # cycle lists sum to the instruction's T-states
    import itertools
    for op in range(256):
        for pre in ([], [0xCB], [0xED], [0xDD], [0xFD], [0xDD, 0xCB, 0x05], [0xFD, 0xCB, 0xFB]):
            code = pre + [op, 0x10, 0x90, 0x00]
            for f in (0, 0xFF):
                z, s = run(code, f=f, b=2, c=2, h=0x90, ixh=0xA0, iyh=0xB0)
                tot = sum(4 if c[0] == 'io' else c[1] for c in s.cycles)
                eq(tot, s.t, 'cycle sum of %s' % bytes(code).hex())
                if s.alt_cycles is not None:
                    eq(sum(4 if c[0] == 'io' else c[1] for c in s.alt_cycles), s.t, 'alt cycle sum of %s' % bytes(code).hex())
    # ULA
    eq([ula.M48.delay(14335 + k) for k in range(9)], [6, 5, 4, 3, 2, 1, 0, 0, 6], 'ULA 48K pattern')
    eq(ula.M48.delay(14334), 0, 'ULA before window')
    eq(ula.M48.delay(14335 + 128), 0, 'ULA border part of line')
    eq(ula.M48.delay(14335 + 224), 6, 'ULA second line')
    eq(ula.M48.delay(14335 + 224 * 192), 0, 'ULA after window')
    eq(ula.M128.delay(14361), 6, 'ULA 128K start')
    eq(ula.M128.delay(14361 + 228 * 191 + 127), 0, 'ULA 128K last')
    eq(ula.M128.delay(14361 + 228 * 191 + 120), 6, 'ULA 128K last line')
    print('ref selftest: %d assertions ok' % n)


if __name__ == '__main__':
    main()
