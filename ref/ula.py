"""ZX Spectrum ULA reference: frame layout, memory/IO contention, 128K paging.
Written from the comp.sys.sinclair FAQ / World of Spectrum technical
reference; imports nothing from skoolkit."""

PATTERN = (6, 5, 4, 3, 2, 1, 0, 0)

class Machine:
    def __init__(self, is128):
        self.is128 = is128
        self.frame = 70908 if is128 else 69888
        self.line = 228 if is128 else 224
        self.t0 = 14361 if is128 else 14335
        self.t1 = self.t0 + 192 * self.line  # first T-state after the last display line
        self.int_active = 36 if is128 else 32

    def delay(self, t):
        """Delay added to a contended cycle that starts at frame time t."""
        t %= self.frame
        if t < self.t0:
            return 0
        k = t - self.t0
        line, pos = divmod(k, self.line)
        if line >= 192 or pos >= 128:
            return 0
        return PATTERN[pos % 8]

    def contended(self, addr, bank_at_c000=0):
        addr &= 0xFFFF
        if 0x4000 <= addr < 0x8000:
            return True
        if self.is128 and addr >= 0xC000 and bank_at_c000 % 2:
            return True
        return False

    def apply(self, t, cycles, bank_at_c000=0):
        """Run a bus-cycle list from frame time t; return total T-states incl. delays."""
        start = t
        for c in cycles:
            if c[0] == 'io':
                port = c[1]
                hi = self.contended(port, bank_at_c000)
                lo = port & 1
                if hi:
                    if lo:
                        for _ in range(4):
                            t += self.delay(t) + 1
                    else:
                        t += self.delay(t) + 1
                        t += self.delay(t) + 3
                else:
                    if lo:
                        t += 4
                    else:
                        t += 1
                        t += self.delay(t) + 3
            else:
                addr, n = c
                if self.contended(addr, bank_at_c000):
                    t += self.delay(t)
                t += n
        return t - start

M48 = Machine(False)
M128 = Machine(True)


class Paging128:
    """Reference model of 128K memory paging (port 0x7FFD: A15=0 and A1=0)."""
    def __init__(self, banks, roms, o7ffd=0):
        self.banks = [bytearray(b) for b in banks]
        self.roms = [bytes(r) for r in roms]
        self.locked = False
        self.last = 0
        self.accept(o7ffd, force=True)

    @staticmethod
    def decodes(port):
        return port & 0x8002 == 0

    def accept(self, value, force=False):
        if self.locked and not force:
            return False
        self.last = value & 0xFF
        if value & 0x20:
            self.locked = True
        return True

    def out(self, port, value):
        if self.decodes(port):
            return self.accept(value)
        return False

    def bank_for(self, addr):
        q = (addr & 0xFFFF) >> 14
        if q == 0:
            return None
        return (5, 2, self.last & 7)[q - 1]

    def read(self, addr):
        addr &= 0xFFFF
        b = self.bank_for(addr)
        if b is None:
            return self.roms[(self.last >> 4) & 1][addr]
        return self.banks[b][addr & 0x3FFF]

    def write(self, addr, value):
        addr &= 0xFFFF
        b = self.bank_for(addr)
        if b is not None:
            self.banks[b][addr & 0x3FFF] = value & 0xFF
