"""href/src/id extractor for a tree of HTML files (html.parser only; no skoolkit).

What a browser needs for an internal link to work, written from the HTML and URL
specifications:

* a reference is the value of an ``href``/``src`` (also ``data``/``poster``)
  attribute; it is *absolute* (not ours to resolve) when it carries a scheme
  (``http:``, ``mailto:`` ...) or starts with ``//``;
* a relative reference is ``path[?query][#fragment]``; the path is
  percent-decoded and resolved against the directory of the referring file; an
  empty path names the referring file itself;
* a non-empty fragment names an element whose ``id`` equals it (or, for
  ``<a>``, whose ``name`` equals it), either literally or after
  percent-decoding;
* ``id`` values must be unique within a document.

The scanner also records, for every reference and every id, the chain of
``tag.class`` of the open ancestor elements, so that a check can tell an operand
link (``td.instruction``) from a navigation link, or an entry header from an
instruction anchor.
"""
import os
import posixpath
import re
from html.parser import HTMLParser
from urllib.parse import unquote

URL_ATTRS = ('href', 'src', 'data', 'poster')
VOID = frozenset(('area', 'base', 'br', 'col', 'embed', 'hr', 'img', 'input', 'link', 'meta', 'param',
                  'source', 'track', 'wbr'))
HTML_EXT = ('.html', '.htm', '.xhtml')
_SCHEME = re.compile(r'^[A-Za-z][A-Za-z0-9+.\-]*:')


class Ref:
    """One URL-valued attribute. `text` is the character data inside the element
    (collected for <a> only; '' for void elements)."""
    __slots__ = ('tag', 'attr', 'url', 'ctx', 'line', 'text')

    def __init__(self, tag, attr, url, ctx, line):
        self.tag, self.attr, self.url, self.ctx, self.line = tag, attr, url, ctx, line
        self.text = ''

    def __repr__(self):
        return '<%s %s=%r line %d in %s>' % (self.tag, self.attr, self.url, self.line, '>'.join(self.ctx[-3:]))


class Anchor:
    """An element that can be the target of a fragment."""
    __slots__ = ('id', 'tag', 'cls', 'ctx', 'line')

    def __init__(self, id_, tag, cls, ctx, line):
        self.id, self.tag, self.cls, self.ctx, self.line = id_, tag, cls, ctx, line

    def __repr__(self):
        return '<%s%s id=%r line %d in %s>' % (self.tag, '.' + self.cls if self.cls else '', self.id, self.line,
                                               '>'.join(self.ctx[-2:]))


class Page(HTMLParser):
    def __init__(self):
        super().__init__(convert_charrefs=True)
        self.refs = []
        self.anchors = []
        self._stack = []
        self._open_a = []       # (depth of the <a> in the stack, Ref)

    # -- parser callbacks ---------------------------------------------------
    def handle_starttag(self, tag, attrs):
        n = len(self.refs)
        self._element(tag, attrs)
        if tag == 'a':
            for ref in self.refs[n:]:
                self._open_a.append((len(self._stack), ref))
        if tag not in VOID:
            a = dict(attrs)
            cls = (a.get('class') or '').strip()
            self._stack.append((tag, tag + ('.' + cls.split()[0] if cls else '')))

    def handle_startendtag(self, tag, attrs):
        self._element(tag, attrs)

    def handle_endtag(self, tag):
        for i in range(len(self._stack) - 1, -1, -1):
            if self._stack[i][0] == tag:
                del self._stack[i:]
                while self._open_a and self._open_a[-1][0] >= i:
                    self._open_a.pop()
                break

    def handle_data(self, data):
        for _, ref in self._open_a:
            ref.text += data

    def _element(self, tag, attrs):
        ctx = tuple(s[1] for s in self._stack)
        line = self.getpos()[0]
        seen = set()
        cls = ''
        for k, v in attrs:
            if k == 'class' and v:
                cls = v.strip()
        for k, v in attrs:
            if v is None:
                continue
            if k in URL_ATTRS:
                self.refs.append(Ref(tag, k, v, ctx, line))
            elif k == 'id' or (k == 'name' and tag == 'a'):
                if v not in seen:      # <a id="x" name="x"> is one target
                    seen.add(v)
                    self.anchors.append(Anchor(v, tag, cls, ctx, line))

    # -- results ------------------------------------------------------------------
    @property
    def ids(self):
        return [a.id for a in self.anchors]

    def duplicates(self):
        """dict id -> list of Anchor, for ids carried by more than one element."""
        groups = {}
        for a in self.anchors:
            groups.setdefault(a.id, []).append(a)
        return {k: v for k, v in groups.items() if len(v) > 1}


def scan_html(text):
    p = Page()
    p.feed(text)
    p.close()
    return p


def is_html(path):
    return path.lower().endswith(HTML_EXT)


def scan_tree(root):
    """Walk `root`; return dict relpath (posix, relative to root) -> Page for HTML
    files, None for every other regular file."""
    files = {}
    for dp, dns, fns in os.walk(root):
        dns.sort()
        for fn in sorted(fns):
            full = os.path.join(dp, fn)
            rel = os.path.relpath(full, root).replace(os.sep, '/')
            if is_html(fn):
                with open(full, encoding='utf-8') as f:
                    files[rel] = scan_html(f.read())
            else:
                files[rel] = None
    return files


def split_url(url):
    """-> (kind, path, fragment). kind: 'absolute' (scheme or //host), 'rooted'
    (starts with a single '/': relative to an unknown site root) or 'relative'.
    fragment is None when the URL has no '#'."""
    u = url.strip()
    if _SCHEME.match(u) or u.startswith('//'):
        return 'absolute', u, None
    path, sep, frag = u.partition('#')
    path = path.partition('?')[0]
    kind = 'rooted' if path.startswith('/') else 'relative'
    return kind, unquote(path), (frag if sep else None)


def resolve(from_file, path):
    """Target of relative `path` referenced from file `from_file` (both posix,
    relative to the tree root). Returns None if it leaves the tree."""
    if not path:
        return from_file
    t = posixpath.normpath(posixpath.join(posixpath.dirname(from_file), path))
    if t == '..' or t.startswith('../') or t.startswith('/'):
        return None
    return t


def fragment_ok(page, fragment):
    if fragment is None or fragment == '':
        return True
    ids = page.ids
    return fragment in ids or unquote(fragment) in ids


def check_links(files, fallback=None):
    """Generic resolution check. files: result of scan_tree. fallback: optional
    second tree consulted for targets missing from `files`.
    Yields (kind, file, ref, detail) for every problem:
      'rooted'      reference relative to an unknown site root
      'outside'     target path leaves the tree
      'missing'     target file does not exist
      'directory'   target is a directory of the tree (no file)
      'fragment'    target file has no element with that id
      'fragment-nonhtml'  fragment on a non-HTML file
    """
    dirs = set()
    for f in files:
        d = posixpath.dirname(f)
        while d:
            dirs.add(d)
            d = posixpath.dirname(d)
    for fname in sorted(files):
        page = files[fname]
        if page is None:
            continue
        for ref in page.refs:
            kind, path, frag = split_url(ref.url)
            if kind == 'absolute':
                continue
            if kind == 'rooted':
                yield 'rooted', fname, ref, path
                continue
            target = resolve(fname, path)
            if target is None:
                yield 'outside', fname, ref, path
                continue
            if target in files:
                tpage = files[target]
            elif fallback is not None and target in fallback:
                tpage = fallback[target]
            elif target in dirs or target == '.':
                yield 'directory', fname, ref, target
                continue
            else:
                yield 'missing', fname, ref, target
                continue
            if frag:
                if tpage is None:
                    yield 'fragment-nonhtml', fname, ref, target
                elif not fragment_ok(tpage, frag):
                    yield 'fragment', fname, ref, target
