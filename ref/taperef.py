"""taperef - independent model of a *logical tape* (no skoolkit import).

Written from the TZX 1.20 and PZX 1.0 specifications and the 48K ROM's SA-BYTES
timings.  A logical tape is a list of JSON-able dicts ("blocks"); `data` fields
are bytes in memory and hex strings in JSON (see to_json/from_json).

Portable kinds (serialise to TZX and, lowered, to PZX; `std` also to TAP):
  std     data, pause(ms)                         TZX 0x10
  turbo   pilot, npilot, sync1, sync2, zero, one, used, pause, data   TZX 0x11
  tone    len, n                                  TZX 0x12
  pulses  p=[len,...]                             TZX 0x13
  pure    zero, one, used, pause, data            TZX 0x14
  direct  tps, pause, used, data (non-empty)      TZX 0x15
  pause   ms (>0)                                 TZX 0x20
  stop    only48                                  TZX 0x20 with 0 ms / 0x2A ; PZX STOP
  loop    n, body=[blocks]                        TZX 0x24 ... 0x25 ; PZX: unrolled
  group   name / groupend                         TZX 0x21 / 0x22 ; PZX BRWS / nothing
  text    text                                    TZX 0x30 ; PZX BRWS
  archive items=[[id, text],...]                  TZX 0x32 ; PZX nothing
  hw      items=[[type, id, info],...]            TZX 0x33 ; PZX nothing
PZX-native kinds (serialise to PZX only):
  puls    p=[[count, dur, form],...]  form: 0 shortest encoding, 1 explicit count
          word, 2 explicit count word + 31-bit duration, 3 31-bit duration
          without count word (only count == 1 and dur < 65536)
  data    level, s0, s1, tail, nbits, data (ceil(nbits/8) bytes)
  paus    level, dur
  brws    text
  stop    (as above)

Signal model.  Levels are EAR levels (0/1).  A pulse holds the current level
for its duration and then the level toggles.  TZX kinds carry no level: the
first pulse on the tape has level `polarity`, every pulse toggles, a pause holds
the level that the next pulse will have (so it simply delays it).  PZX blocks
set the level explicitly (PULS: low; DATA/PAUS: bit 31), XORed with `polarity`.
A direct recording is a run-length pulse train; its first run continues the
running level when its first sample is 0 and the opposite level otherwise.
The final pause of the tape and the level before the first edge are not part
of the model.
"""
import struct

T_MS = 3500


def w(n):
    return struct.pack('<H', n)


def w3(n):
    return struct.pack('<I', n)[:3]


def dw(n):
    return struct.pack('<I', n)


# ---------------------------------------------------------------------------
# JSON <-> memory
# ---------------------------------------------------------------------------
def to_json(blocks):
    out = []
    for b in blocks:
        c = dict(b)
        if 'data' in c:
            c['data'] = bytes(c['data']).hex()
        if 'body' in c:
            c['body'] = to_json(c['body'])
        out.append(c)
    return out


def from_json(blocks):
    out = []
    for b in blocks:
        c = dict(b)
        if 'data' in c:
            c['data'] = bytes.fromhex(c['data'])
        if 'body' in c:
            c['body'] = from_json(c['body'])
        out.append(c)
    return out


# ---------------------------------------------------------------------------
# bits
# ---------------------------------------------------------------------------
def nbits_of(b):
    """Number of bits in a data-bearing block."""
    if b['k'] == 'data':
        return b['nbits']
    n = len(b['data'])
    if n == 0:
        return 0
    used = b.get('used', 8)
    return 8 * (n - 1) + used


def bits_of(data, nbits):
    return [(data[i >> 3] >> (7 - (i & 7))) & 1 for i in range(nbits)]


def pack_bits(bits):
    """bits -> bytes, the last byte padded with zeros."""
    out = bytearray((len(bits) + 7) // 8)
    for i, bit in enumerate(bits):
        if bit:
            out[i >> 3] |= 0x80 >> (i & 7)
    return bytes(out)


def truncated(data, nbits):
    """The block's bytes with the unused low bits of the last byte cleared."""
    return pack_bits(bits_of(data, nbits))


def std_pilot(flag):
    # ROM SA-BYTES (0x04D0: BIT 7,A) and TZX 1.20 ID 10: 8063 pulses for flag < 128, 3223 otherwise
    return 8063 if flag < 128 else 3223


# ---------------------------------------------------------------------------
# TAP
# ---------------------------------------------------------------------------
def to_tap(blocks):
    out = bytearray()
    for b in blocks:
        if b['k'] != 'std':
            raise ValueError('TAP holds standard data blocks only')
        out += w(len(b['data'])) + bytes(b['data'])
    return bytes(out)


def parse_tap(tap):
    blocks = []
    i = 0
    while i + 2 <= len(tap):
        n = tap[i] + 256 * tap[i + 1]
        blocks.append(bytes(tap[i + 2:i + 2 + n]))
        i += 2 + n
    return blocks


# ---------------------------------------------------------------------------
# TZX
# ---------------------------------------------------------------------------
def _tzx_one(b, out):
    """Append the TZX encoding of block b; returns the number of TZX blocks written."""
    k = b['k']
    if k == 'std':
        out += b'\x10' + w(b['pause']) + w(len(b['data'])) + bytes(b['data'])
    elif k == 'turbo':
        out += (b'\x11' + w(b['pilot']) + w(b['sync1']) + w(b['sync2']) + w(b['zero']) + w(b['one'])
                + w(b['npilot']) + bytes([b['used']]) + w(b['pause']) + w3(len(b['data'])) + bytes(b['data']))
    elif k == 'tone':
        out += b'\x12' + w(b['len']) + w(b['n'])
    elif k == 'pulses':
        out += bytes([0x13, len(b['p'])]) + b''.join(w(p) for p in b['p'])
    elif k == 'pure':
        out += (b'\x14' + w(b['zero']) + w(b['one']) + bytes([b['used']]) + w(b['pause'])
                + w3(len(b['data'])) + bytes(b['data']))
    elif k == 'direct':
        out += (b'\x15' + w(b['tps']) + w(b['pause']) + bytes([b['used']])
                + w3(len(b['data'])) + bytes(b['data']))
    elif k == 'pause':
        out += b'\x20' + w(b['ms'])
    elif k == 'stop':
        out += b'\x2a\x00\x00\x00\x00' if b.get('only48') else b'\x20\x00\x00'
    elif k == 'group':
        t = b['name'].encode('latin-1')
        out += bytes([0x21, len(t)]) + t
    elif k == 'groupend':
        out += b'\x22'
    elif k == 'text':
        t = b['text'].encode('latin-1')
        out += bytes([0x30, len(t)]) + t
    elif k == 'archive':
        body = bytes([len(b['items'])])
        for i, t in b['items']:
            t = t.encode('latin-1')
            body += bytes([i, len(t)]) + t
        out += b'\x32' + w(len(body)) + body
    elif k == 'hw':
        out += bytes([0x33, len(b['items'])]) + b''.join(bytes(x) for x in b['items'])
    elif k == 'loop':
        out += b'\x24' + w(b['n'])
        n = 2
        for c in b['body']:
            n += _tzx_one(c, out)
        out += b'\x25'
        return n
    else:
        raise ValueError('block kind %r cannot be written to TZX' % k)
    return 1


def to_tzx(blocks, version=(1, 20)):
    """-> (bytes, spans) where spans[i] = (first block number, count) of logical block i."""
    out = bytearray(b'ZXTape!\x1a' + bytes(version))
    spans = []
    num = 1
    for b in blocks:
        n = _tzx_one(b, out)
        spans.append((num, n))
        num += n
    return bytes(out), spans


# ---------------------------------------------------------------------------
# PZX
# ---------------------------------------------------------------------------
def enc_puls(p):
    out = b''
    for e in p:
        count, dur = e[0], e[1]
        form = e[2] if len(e) > 2 else 0
        if not (1 <= count <= 0x7FFF and 0 <= dur <= 0x7FFFFFFF):
            raise ValueError('PULS entry out of range: %r' % (e,))
        if form == 3 and (count != 1 or dur > 0xFFFF):
            form = 2
        long_dur = dur >= 0x8000 or form in (2, 3)
        # a first word of 0x8000|n with n > 0 is a repeat count, so an extended
        # duration whose high part is not 0 needs an explicit count word
        need_count = count > 1 or form in (1, 2) or (long_dur and (dur >> 16) != 0)
        if need_count:
            out += w(0x8000 | count)
        if long_dur:
            out += w(0x8000 | (dur >> 16)) + w(dur & 0xFFFF)
        else:
            out += w(dur)
    return out


def dec_puls(body):
    """The decoding procedure given in the PZX specification."""
    p = []
    i = 0
    while i < len(body):
        count = 1
        dur = body[i] + 256 * body[i + 1]
        i += 2
        if dur > 0x8000:
            count = dur & 0x7FFF
            dur = body[i] + 256 * body[i + 1]
            i += 2
        if dur >= 0x8000:
            dur = ((dur & 0x7FFF) << 16) | (body[i] + 256 * body[i + 1])
            i += 2
        p.append([count, dur])
    return p


def enc_pzx_block(b):
    k = b['k']
    if k == 'puls':
        tag, body = b'PULS', enc_puls(b['p'])
    elif k == 'data':
        nbytes = (b['nbits'] + 7) // 8
        if len(b['data']) != nbytes:
            raise ValueError('DATA: %d bits need %d bytes' % (b['nbits'], nbytes))
        body = (dw((b['level'] << 31) | b['nbits']) + w(b['tail']) + bytes([len(b['s0']), len(b['s1'])])
                + b''.join(w(x) for x in b['s0']) + b''.join(w(x) for x in b['s1']) + bytes(b['data']))
        tag = b'DATA'
    elif k == 'paus':
        tag, body = b'PAUS', dw((b['level'] << 31) | b['dur'])
    elif k == 'brws':
        tag, body = b'BRWS', b['text'].encode('latin-1')
    elif k == 'stop':
        tag, body = b'STOP', w(1 if b.get('only48') else 0)
    else:
        raise ValueError('block kind %r cannot be written to PZX' % k)
    return tag + dw(len(body)) + body


def _compress(durs):
    p = []
    for d in durs:
        if p and p[-1][1] == d and p[-1][0] < 0x7FFF:
            p[-1][0] += 1
        else:
            p.append([1, d])
    return p


def dr_runs(data, used, tps):
    """Direct recording samples -> (first sample, [run durations])."""
    bits = bits_of(data, 8 * (len(data) - 1) + used)
    runs = []
    prev = bits[0]
    n = 0
    for bit in bits:
        if bit == prev:
            n += 1
        else:
            runs.append(n * tps)
            prev = bit
            n = 1
    runs.append(n * tps)
    return bits[0], runs


def lead_pulses(b):
    """Pulse durations that precede the data of a portable block."""
    k = b['k']
    if k == 'std':
        return [2168] * std_pilot(b['data'][0]) + [667, 735] if b['data'] else []
    if k == 'turbo':
        return [b['pilot']] * b['npilot'] + [b['sync1'], b['sync2']]
    if k == 'tone':
        return [b['len']] * b['n']
    if k == 'pulses':
        return list(b['p'])
    return []


def symbols(b):
    k = b['k']
    if k == 'std':
        return (855, 855), (1710, 1710)
    if k == 'data':
        return tuple(b['s0']), tuple(b['s1'])
    return (b['zero'], b['zero']), (b['one'], b['one'])


class _Lower:
    def __init__(self):
        self.native = []
        self.cur = 0     # level of the next pulse (tape space, polarity 0)

    def puls(self, durs):
        if not durs:
            return
        p = _compress(durs)
        if self.cur:
            p.insert(0, [1, 0])     # PULS starts low: a zero-length first pulse makes it start high
        self.native.append({'k': 'puls', 'p': p})
        self.cur ^= len(durs) & 1

    def pause(self, ms):
        if ms:
            self.native.append({'k': 'paus', 'level': self.cur, 'dur': ms * T_MS})

    def block(self, b):
        k = b['k']
        if k in ('std', 'turbo', 'pure'):
            if k == 'std' and not b['data']:
                return
            self.puls(lead_pulses(b))
            if b['data']:
                s0, s1 = symbols(b)
                self.native.append({'k': 'data', 'level': self.cur, 's0': list(s0), 's1': list(s1), 'tail': 0,
                                    'nbits': nbits_of(b), 'data': bytes(b['data'])})
            self.pause(b['pause'])
        elif k in ('tone', 'pulses'):
            self.puls(lead_pulses(b))
        elif k == 'direct':
            first, runs = dr_runs(b['data'], b['used'], b['tps'])
            self.cur ^= first
            self.puls(runs)
            self.pause(b['pause'])
        elif k == 'pause':
            self.pause(b['ms'])
        elif k == 'loop':
            for _ in range(b['n']):
                for c in b['body']:
                    self.block(c)
        elif k == 'group':
            self.native.append({'k': 'brws', 'text': b['name']})
        elif k == 'text':
            self.native.append({'k': 'brws', 'text': b['text']})
        elif k in ('groupend', 'archive', 'hw'):
            pass
        elif k in ('puls', 'data', 'paus', 'brws', 'stop'):
            self.native.append(b)
            if k == 'puls':
                self.cur = sum(e[0] for e in b['p']) & 1
            elif k == 'data':
                s0, s1 = symbols(b)
                n = sum(len(s1) if bit else len(s0) for bit in bits_of(b['data'], b['nbits']))
                self.cur = (b['level'] + n + (1 if b['tail'] else 0)) & 1
            elif k == 'paus':
                self.cur = b['level']
        else:
            raise ValueError('unknown block kind %r' % k)


def lower_pzx(blocks):
    """Portable blocks -> (PZX-native blocks, spans); spans[i] = (index of the
    first native block of logical block i, count)."""
    lo = _Lower()
    spans = []
    for b in blocks:
        n0 = len(lo.native)
        lo.block(b)
        spans.append((n0, len(lo.native) - n0))
    return lo.native, spans


def to_pzx(blocks, info=()):
    """-> (bytes, native blocks, spans); spans[i] = (first PZX block number, count)
    of logical block i.  The PZXT header is block 1."""
    native, spans = lower_pzx(blocks)
    body = b'\x01\x00' + b'\x00'.join(s.encode('latin-1') for s in info)
    out = bytearray(b'PZXT' + dw(len(body)) + body)
    for b in native:
        out += enc_pzx_block(b)
    return bytes(out), native, [(a + 2, n) for a, n in spans]


def parse_pzx(pzx):
    """-> (version, info strings, native blocks). Unknown tags are skipped as the
    specification requires."""
    if pzx[:4] != b'PZXT':
        raise ValueError('not a PZX file')
    blocks = []
    version = info = None
    i = 0
    while i < len(pzx):
        tag = bytes(pzx[i:i + 4])
        n = struct.unpack('<I', pzx[i + 4:i + 8])[0]
        body = bytes(pzx[i + 8:i + 8 + n])
        if len(body) != n:
            raise ValueError('truncated %r block' % tag)
        i += 8 + n
        if tag == b'PZXT':
            if version is None:
                version = (body[0], body[1])
                info = [s.decode('latin-1') for s in body[2:].split(b'\x00')] if len(body) > 2 else []
        elif tag == b'PULS':
            blocks.append({'k': 'puls', 'p': dec_puls(body)})
        elif tag == b'DATA':
            count, tail, p0, p1 = struct.unpack('<IHBB', body[:8])
            j = 8
            s0 = list(struct.unpack('<%dH' % p0, body[j:j + 2 * p0]))
            j += 2 * p0
            s1 = list(struct.unpack('<%dH' % p1, body[j:j + 2 * p1]))
            j += 2 * p1
            nbits = count & 0x7FFFFFFF
            blocks.append({'k': 'data', 'level': count >> 31, 's0': s0, 's1': s1, 'tail': tail, 'nbits': nbits,
                           'data': body[j:j + (nbits + 7) // 8]})
        elif tag == b'PAUS':
            v = struct.unpack('<I', body[:4])[0]
            blocks.append({'k': 'paus', 'level': v >> 31, 'dur': v & 0x7FFFFFFF})
        elif tag == b'BRWS':
            blocks.append({'k': 'brws', 'text': body.decode('latin-1')})
        elif tag == b'STOP':
            blocks.append({'k': 'stop', 'only48': bool(body[0] & 1) if body else False})
    return version, info, blocks


def normal_puls(p):
    """PULS entries as [count, dur] with the encoding form dropped."""
    return [[e[0], e[1]] for e in p]


# ---------------------------------------------------------------------------
# Playing: options, loops, stop blocks
# ---------------------------------------------------------------------------
def play_list(blocks, start=0, stop=None, skip=(), is48=True):
    """The blocks that are played, in order, loops unrolled. start/stop/skip are
    0-based indexes of top-level logical blocks; a `stop` block ends the tape
    unless a stop index was given."""
    out = []
    for i, b in enumerate(blocks):
        if stop is not None and i >= stop:
            break
        if i < start or i in skip:
            continue
        if b['k'] == 'stop' and stop is None and (is48 or not b.get('only48')):
            break
        if b['k'] == 'loop':
            for _ in range(b['n']):
                out.extend(b['body'])
        else:
            out.append(b)
    return out


# ---------------------------------------------------------------------------
# Waveform
# ---------------------------------------------------------------------------
PULSE, DATA, TAIL, PAUSE = 'p', 'd', 't', 'z'


def segments(played, polarity=0):
    """Generate (level, duration, role, block index) for a played block list."""
    pol = polarity & 1
    cur = pol
    for bi, b in enumerate(played):
        k = b['k']
        if k in ('std', 'turbo', 'pure', 'tone', 'pulses'):
            if k == 'std' and not b['data']:
                continue
            for d in lead_pulses(b):
                yield cur, d, PULSE, bi
                cur ^= 1
            if k in ('std', 'turbo', 'pure') and b['data']:
                s0, s1 = symbols(b)
                for bit in bits_of(b['data'], nbits_of(b)):
                    for d in (s1 if bit else s0):
                        yield cur, d, DATA, bi
                        cur ^= 1
            if b.get('pause'):
                yield cur, b['pause'] * T_MS, PAUSE, bi
        elif k == 'direct':
            first, runs = dr_runs(b['data'], b['used'], b['tps'])
            cur ^= first
            for d in runs:
                yield cur, d, PULSE, bi
                cur ^= 1
            if b['pause']:
                yield cur, b['pause'] * T_MS, PAUSE, bi
        elif k == 'pause':
            if b['ms']:
                yield cur, b['ms'] * T_MS, PAUSE, bi
        elif k == 'puls':
            cur = pol
            for e in b['p']:
                for _ in range(e[0]):
                    yield cur, e[1], PULSE, bi
                    cur ^= 1
        elif k == 'data':
            cur = b['level'] ^ pol
            s0, s1 = symbols(b)
            for bit in bits_of(b['data'], b['nbits']):
                for d in (s1 if bit else s0):
                    yield cur, d, DATA, bi
                    cur ^= 1
            if b['tail']:
                yield cur, b['tail'], TAIL, bi
                cur ^= 1
        elif k == 'paus':
            cur = b['level'] ^ pol
            if b['dur']:
                yield cur, b['dur'], PAUSE, bi
        elif k in ('group', 'groupend', 'text', 'archive', 'hw', 'brws', 'stop'):
            pass
        else:
            raise ValueError('cannot play block kind %r' % k)


def waveform(played, first_edge=0, polarity=0):
    """Canonical waveform: zero-length segments dropped, equal neighbours merged.
    -> {'steps': [(time, level), ...], 'end': time, 'ends': set of times,
    'tail_last': bool (the last pulse of non-zero length is a DATA tail pulse)}.
    steps[i] is the start of a run of constant level; `end` is the end of the
    last run (pauses included).  `ends` holds the times at which a faithful
    rendering may stop: the end of the last pulse of non-zero length, the start
    of that pulse if it is a DATA tail pulse, and any later block/pulse boundary
    (only pauses and zero-length pulses follow, none of which a loader can see
    without a further edge)."""
    steps = []
    t = first_edge
    ends = [first_edge]
    tail_last = False
    for lvl, d, role, bi in segments(played, polarity):
        if d and role != PAUSE:
            tail_last = role == TAIL
            ends = ends + [t, t + d] if role == TAIL else [t + d]
        else:
            ends.append(t)
            ends.append(t + d)
        if d == 0:
            continue
        if not steps or steps[-1][1] != lvl:
            steps.append((t, lvl))
        t += d
    return {'steps': steps, 'end': t, 'ends': set(ends), 'tail_last': tail_last}


def clip(steps, t0, end):
    """The runs of a step list that intersect [t0, end), the first one clipped to start at t0."""
    if t0 >= end or not steps:
        return []
    import bisect
    lo = max(bisect.bisect_right(steps, (t0, 2)) - 1, 0)     # last run starting at or before t0
    hi = bisect.bisect_left(steps, (end, -1))                # first run starting at or after end
    out = steps[lo:hi]
    if out and out[0][0] < t0:
        out[0] = (t0, out[0][1])
    return out


def data_times(played, first_edge=0, polarity=0):
    """{block index: (time at which the block's data starts, time at which it ends
    (tail included), level of its first pulse, duration of the tail pulse or 0)}
    for every block of the played list that has data bits."""
    out = {}
    t = first_edge
    for lvl, d, role, bi in segments(played, polarity):
        if role == DATA:
            if bi not in out:
                out[bi] = [t, t, lvl, 0]
            out[bi][1] = t + d
        elif role == TAIL and bi in out:
            out[bi][1] = t + d
            out[bi][3] = d
        t += d
    return {bi: tuple(v) for bi, v in out.items()}


def level_at(wf, t):
    """Level of the canonical waveform at time t (None outside it)."""
    lvl = None
    if t >= wf['end']:
        return None
    for t0, l in wf['steps']:
        if t0 > t:
            break
        lvl = l
    return lvl


def match(wf, edges):
    """Compare a reference waveform with an edge list (edge k starts a pulse of
    level k % 2, the last edge ends the signal) as level step-functions from the
    first edge of the list on: the level before it is not compared, nor is
    anything after the list's end, which must be one of wf['ends'].
    -> None or a message."""
    got = edges_to_waveform(edges)
    end = got['end']
    exp = clip(wf['steps'], edges[0], end)
    if got['steps'] != exp:
        for i, (x, y) in enumerate(zip(got['steps'] + [None], exp + [None])):
            if x != y:
                return 'waveform differs at run %d: got (time, level) %r, expected %r' % (i, x, y)
    if end not in wf['ends']:
        return 'signal ends at %d, expected one of %r' % (end, sorted(wf['ends']))
    return None


def edges_to_waveform(edges):
    """Edge list (edge k starts a pulse of level k % 2; the last edge ends the
    signal) -> canonical {'steps', 'end'}."""
    steps = []
    for k in range(len(edges) - 1):
        if edges[k + 1] != edges[k]:
            if not steps or steps[-1][1] != (k & 1):
                steps.append((edges[k], k & 1))
    return {'steps': steps, 'end': edges[-1]}


def has_zero_pulse(played):
    """True if some pulse of the played blocks has zero length (other than an
    odd-count zero-length first entry of a PULS block, which is PZX's way of
    starting high), or some DATA symbol has no pulses at all."""
    for b in played:
        k = b['k']
        if k == 'puls':
            p = b['p']
            for j, e in enumerate(p):
                if e[1] == 0 and not (j == 0 and e[0] & 1):
                    return True
        elif k == 'data':
            if b['nbits'] and (0 in b['s0'] or 0 in b['s1'] or not b['s0'] or not b['s1']):
                return True
        elif k == 'direct':
            if b['tps'] == 0:
                return True
        elif k in ('std', 'turbo', 'pure', 'tone', 'pulses'):
            if 0 in lead_pulses(b):
                return True
            if k != 'std' and k in ('turbo', 'pure') and b['data'] and (b['zero'] == 0 or b['one'] == 0):
                return True
    return False


def raw_edges(played, first_edge=0, polarity=0):
    """Edge list in the "one edge per pulse" representation, valid for tapes
    without zero-length pulses: edges[0] = first_edge (doubled when polarity is
    odd, so that edge k always starts a pulse of level k % 2); an explicit level
    that differs from the running one inserts an extra edge; a pause only delays.
    Also returns {block index: (index of the edge that starts the first data
    pulse, index of the edge at which the data incl. tail ends, time at which
    the data starts)}.  When a pause precedes the data, the edge that starts the
    first data pulse is the last edge before the pause (the level is held), so
    the data's start time is later than that edge's time.  raw_edges.slack is 1
    when the last edge of the list was made by the level of a trailing pause
    (a renderer that ignores the pause of the last block omits it)."""
    edges = [first_edge]
    if polarity & 1:
        edges.append(first_edge)
    t = first_edge
    spans = {}
    slack = 0
    for lvl, d, role, bi in segments(played, polarity):
        if d == 0:
            continue
        if (len(edges) - 1) & 1 != lvl:
            edges.append(t)
            slack = 1 if role == PAUSE else 0
        t += d
        if role == PAUSE:
            continue
        if role in (DATA, TAIL):
            if bi not in spans:
                spans[bi] = [len(edges) - 1, None, t - d]
            spans[bi][1] = len(edges)
        edges.append(t)
        slack = 0
    raw_edges.slack = slack
    return edges, {bi: tuple(v) for bi, v in spans.items()}


def render(played, first_edge=0, polarity=0, raw=True):
    """waveform(), data_times() and (if raw) raw_edges() in a single pass.
    -> (wf, times, edges or None, slack)."""
    steps = []
    t = first_edge
    ends = [first_edge]
    tail_last = False
    times = {}
    edges = [first_edge]
    if polarity & 1:
        edges.append(first_edge)
    slack = 0
    for lvl, d, role, bi in segments(played, polarity):
        if role == DATA:
            v = times.get(bi)
            if v is None:
                times[bi] = [t, t + d, lvl, 0]
            else:
                v[1] = t + d
        elif role == TAIL and bi in times:
            times[bi][1] = t + d
            times[bi][3] = d
        if d and role == DATA:
            # (fast path of the general rule below)
            tail_last = False
            if len(ends) != 1:
                ends = [0]
            ends[0] = t + d
        elif d and role != PAUSE:
            tail_last = role == TAIL
            ends = ends + [t, t + d] if tail_last else [t + d]
        else:
            ends.append(t)
            ends.append(t + d)
            if d == 0:
                continue
        if not steps or steps[-1][1] != lvl:
            steps.append((t, lvl))
        if raw and (len(edges) - 1) & 1 != lvl:
            edges.append(t)
            slack = 1 if role == PAUSE else 0
        t += d
        if raw and role != PAUSE:
            edges.append(t)
            slack = 0
    wf = {'steps': steps, 'end': t, 'ends': set(ends), 'tail_last': tail_last}
    return wf, {bi: tuple(v) for bi, v in times.items()}, (edges if raw else None), slack


# ---------------------------------------------------------------------------
# Pulse decoder
# ---------------------------------------------------------------------------
def prefix_free(s0, s1):
    s0, s1 = tuple(s0), tuple(s1)
    if not s0 or not s1:
        return False
    n = min(len(s0), len(s1))
    return s0[:n] != s1[:n]


def decode_pulses(durs, s0, s1, nbits):
    """Cut a list of pulse durations into `nbits` symbols. Requires prefix-free
    symbol sequences. -> (bits, leftover durations); bits is None where no symbol
    matches."""
    s0, s1 = list(s0), list(s1)
    n0, n1 = len(s0), len(s1)
    bits = []
    i = 0
    for _ in range(nbits):
        if durs[i:i + n1] == s1:
            bits.append(1)
            i += n1
        elif durs[i:i + n0] == s0:
            bits.append(0)
            i += n0
        else:
            return None, durs[i:]
    return bits, durs[i:]


# ---------------------------------------------------------------------------
# Self-test: encoders against decoders
# ---------------------------------------------------------------------------
def _rand_tape(rnd, native=False):
    def P(zero=False):
        return rnd.choice([1, 2, 100, 855, 1710, 2168, 65535, rnd.randrange(1, 65536)] + ([0] if zero else []))

    def D(lo=0):
        return bytes(rnd.randrange(256) for _ in range(rnd.randrange(lo, 6)))
    blocks = []
    for _ in range(rnd.randrange(1, 7)):
        if native and rnd.random() < 0.6:
            k = rnd.choice(['puls', 'data', 'paus', 'brws'])
            if k == 'puls':
                blocks.append({'k': 'puls', 'p': [[rnd.choice([1, 1, 2, 7, 0x7FFF]), rnd.choice([P(True), 0x8000, 70000, 0x7FFFFFFF]),
                                                   rnd.randrange(4)] for _ in range(rnd.randrange(0, 4))]})
            elif k == 'data':
                nbits = rnd.randrange(0, 33)
                data = bytes(rnd.randrange(256) for _ in range((nbits + 7) // 8))
                blocks.append({'k': 'data', 'level': rnd.randrange(2), 's0': [P(True) for _ in range(rnd.randrange(0, 4))],
                               's1': [P(True) for _ in range(rnd.randrange(0, 4))], 'tail': rnd.choice([0, 945, 1]),
                               'nbits': nbits, 'data': data})
            elif k == 'paus':
                blocks.append({'k': 'paus', 'level': rnd.randrange(2), 'dur': rnd.choice([0, 1, 3500000, 0x7FFFFFFF])})
            else:
                blocks.append({'k': 'brws', 'text': 'x'})
            continue
        k = rnd.choice(['std', 'turbo', 'tone', 'pulses', 'pure', 'direct', 'pause', 'loop', 'group', 'text', 'archive', 'hw'])
        if k == 'std':
            blocks.append({'k': 'std', 'data': D(), 'pause': rnd.choice([0, 1, 1000])})
        elif k == 'turbo':
            blocks.append({'k': 'turbo', 'pilot': P(True), 'npilot': rnd.choice([0, 1, 2, 5]), 'sync1': P(True), 'sync2': P(True),
                           'zero': P(True), 'one': P(True), 'used': rnd.randrange(1, 9), 'pause': rnd.choice([0, 1, 1000]), 'data': D()})
        elif k == 'tone':
            blocks.append({'k': 'tone', 'len': P(True), 'n': rnd.choice([0, 1, 2, 7])})
        elif k == 'pulses':
            blocks.append({'k': 'pulses', 'p': [P(True) for _ in range(rnd.randrange(0, 5))]})
        elif k == 'pure':
            blocks.append({'k': 'pure', 'zero': P(True), 'one': P(True), 'used': rnd.randrange(1, 9),
                           'pause': rnd.choice([0, 1, 500]), 'data': D()})
        elif k == 'direct':
            blocks.append({'k': 'direct', 'tps': rnd.choice([1, 79, 158]), 'pause': rnd.choice([0, 10]),
                           'used': rnd.randrange(1, 9), 'data': D(1)})
        elif k == 'pause':
            blocks.append({'k': 'pause', 'ms': rnd.choice([1, 1000])})
        elif k == 'loop':
            blocks.append({'k': 'loop', 'n': rnd.randrange(1, 4), 'body': [
                {'k': 'tone', 'len': P(), 'n': rnd.choice([1, 3])},
                {'k': 'pure', 'zero': P(), 'one': P(), 'used': rnd.randrange(1, 9), 'pause': rnd.choice([0, 3]), 'data': D(1)}]})
        elif k == 'group':
            blocks += [{'k': 'group', 'name': 'g'}, {'k': 'groupend'}]
        elif k == 'text':
            blocks.append({'k': 'text', 'text': 'hello'})
        elif k == 'archive':
            blocks.append({'k': 'archive', 'items': [[0, 'Title'], [255, 'c']]})
        else:
            blocks.append({'k': 'hw', 'items': [[0, 1, 0]]})
    return blocks


def selftest(n=400):
    import random
    checks = 0
    # PULS encodings
    for p, enc in (([[1, 100, 0]], '6400'), ([[3, 100, 0]], '03806400'), ([[1, 0x8000, 0]], '008000' + '80'),
                   ([[1, 70000, 0]], '0180' + '0180' + '7011'), ([[1, 100, 3]], '00806400'),
                   ([[8063, 2168, 0], [1, 667, 0], [1, 735, 0]], '7f9f78089b02df02')):
        assert enc_puls(p).hex() == enc, (p, enc_puls(p).hex())
        assert dec_puls(enc_puls(p)) == normal_puls(p)
        checks += 2
    for seed in range(n):
        rnd = random.Random(seed)
        native = seed % 2 == 1
        blocks = _rand_tape(rnd, native)
        assert from_json(to_json(blocks)) == blocks
        # TAP
        std = [b for b in blocks if b['k'] == 'std']
        assert parse_tap(to_tap(std)) == [b['data'] for b in std]
        # PZX: encoder vs parser
        pzx, nat, spans = to_pzx(blocks, info=('T',))
        ver, info, back = parse_pzx(pzx)
        assert ver == (1, 0) and info == ['T']
        exp = [dict(b, p=normal_puls(b['p'])) if b['k'] == 'puls' else {k: v for k, v in b.items()} for b in nat]
        assert back == exp, (seed, back, exp)
        assert sum(c for _, c in spans) == len(nat)
        for pol in (0, 1):
            # the lowered tape has the same waveform as the logical one
            a = waveform(play_list(blocks), 5, pol)
            b = waveform(play_list(back), 5, pol)
            r = render(play_list(blocks), 5, pol)
            assert r[0] == a and r[1] == data_times(play_list(blocks), 5, pol)
            assert r[2] == raw_edges(play_list(blocks), 5, pol)[0] and r[3] == raw_edges.slack
            assert clip(a['steps'], 7, a['end']) == [(max(t0, 7), l) for i, (t0, l) in enumerate(a['steps'])
                                                      if t0 < a['end'] and 7 < a['end'] and not (i + 1 < len(a['steps']) and a['steps'][i + 1][0] <= 7)]
            assert a == b, (seed, pol, blocks, a, b)
            # raw edges are consistent with the canonical waveform
            for played in (play_list(blocks), play_list(back)):
                if has_zero_pulse(played):
                    continue
                e, spans2 = raw_edges(played, 5, pol)
                assert e == sorted(e)
                assert match(a, e) is None, (seed, pol, played, e, a, match(a, e))
                # pulse decoder on every data block
                for bi, (i0, i1, t0) in spans2.items():
                    blk = played[bi]
                    assert e[i0] <= t0 < e[i0 + 1]
                    s0, s1 = symbols(blk)
                    if not prefix_free(s0, s1):
                        continue
                    durs = [e[i + 1] - e[i] for i in range(i0, i1)]
                    durs[0] = e[i0 + 1] - t0
                    nb = nbits_of(blk)
                    bits, rest = decode_pulses(durs, s0, s1, nb)
                    assert bits is not None and pack_bits(bits) == truncated(blk['data'], nb), (seed, blk)
                    assert rest == ([blk['tail']] if blk.get('tail') else [])
                    checks += 1
            checks += 2
        # TZX writer: structure walk
        if not native:
            tzx, tspans = to_tzx(blocks)
            assert tzx[:10] == b'ZXTape!\x1a\x01\x14'
            assert len(tspans) == len(blocks)
            checks += 1
    print('taperef selftest: %d checks ok' % checks)


if __name__ == '__main__':
    selftest()
