"""Reference writer and reader for RZX input-recording files, written from the
"RZX format specification, version 0.13" (Ramsoft, rzx.txt / rzxform.html). No
skoolkit import.

File layout (all multi-byte values little-endian):

    header   "RZX!" | major BYTE | minor BYTE | flags DWORD (bit 0: signed)          10 bytes
    block    id BYTE | length DWORD (including these 5 bytes) | body

    0x10 creator     ASCIIZ[20] id | major WORD | minor WORD | custom data          29+N
    0x30 snapshot    flags DWORD (b0 external descriptor, b1 compressed) |
                     ASCIIZ[4] filename extension | uncompressed length DWORD |
                     snapshot data (zlib stream when b1)                              17+SL
    0x80 input rec.  number of frames DWORD | reserved BYTE |
                     T-state counter at the beginning DWORD |
                     flags DWORD (b0 protected, b1 compressed) | frames               18+...
         frame       fetch counter WORD (number of M1 cycles up to the next interrupt)
                     | IN counter WORD | return values BYTE[IN counter];
                     IN counter 65535 = "same port readings as the previous frame",
                     no values follow.

`python -m ref.rzxref` runs the self-test.
"""
import struct
import zlib

REPEAT = 0xFFFF


class RZXFormatError(Exception):
    pass


# ---------------------------------------------------------------------------
# Writer
# ---------------------------------------------------------------------------
def _block(bid, body):
    return bytes([bid]) + struct.pack('<I', len(body) + 5) + bytes(body)


def creator_block(ident='VerifRec', major=1, minor=0, custom=b''):
    name = ident.encode('ascii')[:19]
    return _block(0x10, name + bytes(20 - len(name)) + struct.pack('<HH', major, minor) + bytes(custom))


def snapshot_block(ext, data, compress=True, level=6):
    data = bytes(data)
    e = ext.encode('ascii')[:3]
    body = struct.pack('<I', 2 if compress else 0) + e + bytes(4 - len(e)) + struct.pack('<I', len(data))
    return _block(0x30, body + (zlib.compress(data, level) if compress else data))


def encode_frames(frames):
    """frames: list of (fetch_counter, readings) where readings is a bytes-like
    object, or None for the repeated-frame marker."""
    out = bytearray()
    for fetch, readings in frames:
        if not 0 <= fetch <= 0xFFFF:
            raise ValueError('fetch counter out of range: %r' % (fetch,))
        if readings is None:
            out += struct.pack('<HH', fetch, REPEAT)
        else:
            if len(readings) >= REPEAT:
                raise ValueError('too many port readings in one frame')
            out += struct.pack('<HH', fetch, len(readings)) + bytes(readings)
    return bytes(out)


def input_block(frames, tstates=0, compress=True, level=6):
    fdata = encode_frames(frames)
    body = struct.pack('<IBII', len(frames), 0, tstates, 2 if compress else 0)
    return _block(0x80, body + (zlib.compress(fdata, level) if compress else fdata))


def raw_block(bid, body):
    return _block(bid, body)


def build(blocks, flags=0, version=(0, 13)):
    """blocks: iterable of encoded blocks (bytes)."""
    return b'RZX!' + bytes(version) + struct.pack('<I', flags) + b''.join(blocks)


# ---------------------------------------------------------------------------
# Reader
# ---------------------------------------------------------------------------
def decode_frames(fdata, count):
    """-> list of dicts {fetch, in_counter (as stored), readings (resolved bytes)}."""
    frames = []
    j = 0
    prev = None
    for k in range(count):
        if j + 4 > len(fdata):
            raise RZXFormatError('frame %d: data exhausted' % k)
        fetch, inc = struct.unpack_from('<HH', fdata, j)
        j += 4
        if inc == REPEAT:
            if prev is None:
                raise RZXFormatError('frame %d: repeat marker without a previous frame' % k)
            readings = prev
        else:
            if j + inc > len(fdata):
                raise RZXFormatError('frame %d: port readings truncated' % k)
            readings = bytes(fdata[j:j + inc])
            j += inc
        prev = readings
        frames.append({'fetch': fetch, 'in_counter': inc, 'readings': readings})
    if j != len(fdata):
        raise RZXFormatError('%d trailing bytes after the last frame' % (len(fdata) - j))
    return frames


def parse(data):
    """-> {'version': (major, minor), 'flags': n, 'blocks': [...]} where each block
    is a dict with 'id' and, by type:
      0x10: ident, major, minor, custom
      0x30: flags, ext, length, data (uncompressed snapshot bytes; None if external)
      0x80: tstates, flags, frames (see decode_frames; None if protected)
      else: body
    """
    data = bytes(data)
    if len(data) < 10 or data[:4] != b'RZX!':
        raise RZXFormatError('not an RZX file')
    out = {'version': (data[4], data[5]), 'flags': struct.unpack_from('<I', data, 6)[0], 'blocks': []}
    i = 10
    while i < len(data):
        if i + 5 > len(data):
            raise RZXFormatError('truncated block header at %d' % i)
        bid = data[i]
        blen = struct.unpack_from('<I', data, i + 1)[0]
        if blen < 5 or i + blen > len(data):
            raise RZXFormatError('bad block length %d at %d' % (blen, i))
        body = data[i + 5:i + blen]
        if bid == 0x10:
            if len(body) < 24:
                raise RZXFormatError('creator block too short')
            ident = body[:20].split(b'\x00')[0].decode('latin-1')
            major, minor = struct.unpack_from('<HH', body, 20)
            blk = {'id': bid, 'ident': ident, 'major': major, 'minor': minor, 'custom': body[24:]}
        elif bid == 0x30:
            if len(body) < 12:
                raise RZXFormatError('snapshot block too short')
            flags, = struct.unpack_from('<I', body, 0)
            ext = body[4:8].split(b'\x00')[0].decode('latin-1')
            length, = struct.unpack_from('<I', body, 8)
            sdata = body[12:]
            if flags & 1:
                sdata = None
            else:
                if flags & 2:
                    try:
                        sdata = zlib.decompress(sdata)
                    except zlib.error as e:
                        raise RZXFormatError('snapshot: %s' % e)
                if len(sdata) != length:
                    raise RZXFormatError('snapshot length field %d != actual %d' % (length, len(sdata)))
            blk = {'id': bid, 'flags': flags, 'ext': ext, 'length': length, 'data': sdata}
        elif bid == 0x80:
            if len(body) < 13:
                raise RZXFormatError('input recording block too short')
            count, _reserved, tstates, flags = struct.unpack_from('<IBII', body, 0)
            fdata = body[13:]
            frames = None
            if not flags & 1:
                if flags & 2:
                    try:
                        fdata = zlib.decompress(fdata)
                    except zlib.error as e:
                        raise RZXFormatError('input recording: %s' % e)
                frames = decode_frames(fdata, count)
            blk = {'id': bid, 'count': count, 'tstates': tstates, 'flags': flags, 'frames': frames}
        else:
            blk = {'id': bid, 'body': body}
        out['blocks'].append(blk)
        i += blen
    return out


# ---------------------------------------------------------------------------
# Self-test
# ---------------------------------------------------------------------------
def _selftest(verbose=True):
    # hand-assembled file following the specification text byte by byte
    frames_raw = bytes([3, 0, 2, 0, 0xBF, 0xFF,      # fetch 3, 2 readings
                        1, 0, 0xFF, 0xFF,            # fetch 1, repeat
                        0x34, 0x12, 0, 0])           # fetch 0x1234, no readings
    hand = (b'RZX!\x00\x0d\x00\x00\x00\x00'
            + b'\x10' + struct.pack('<I', 29) + b'Test' + bytes(16) + b'\x02\x00\x05\x00'
            + b'\x30' + struct.pack('<I', 17 + 4) + struct.pack('<I', 0) + b'sna\x00' + struct.pack('<I', 4) + b'ABCD'
            + b'\x80' + struct.pack('<I', 18 + len(frames_raw)) + struct.pack('<I', 3) + b'\x00'
            + struct.pack('<I', 1000) + struct.pack('<I', 0) + frames_raw)
    p = parse(hand)
    assert p['version'] == (0, 13) and p['flags'] == 0
    c, s, r = p['blocks']
    assert (c['ident'], c['major'], c['minor']) == ('Test', 2, 5)
    assert (s['ext'], s['data'], s['flags']) == ('sna', b'ABCD', 0)
    assert r['tstates'] == 1000 and [f['fetch'] for f in r['frames']] == [3, 1, 0x1234]
    assert [f['readings'] for f in r['frames']] == [b'\xbf\xff', b'\xbf\xff', b'']
    assert [f['in_counter'] for f in r['frames']] == [2, 0xFFFF, 0]
    built = build([creator_block('Test', 2, 5), snapshot_block('sna', b'ABCD', False),
                   input_block([(3, b'\xbf\xff'), (1, None), (0x1234, b'')], 1000, False)])
    assert built == hand, 'writer does not reproduce the hand-assembled file'
    z = build([creator_block(), snapshot_block('szx', bytes(range(256)) * 8, True),
               input_block([(5, bytes([1, 2, 3])), (6, None), (7, b'')], 7, True), raw_block(0x55, b'xyz')])
    q = parse(z)
    assert q['blocks'][1]['data'] == bytes(range(256)) * 8 and q['blocks'][1]['flags'] == 2
    assert [(f['fetch'], f['readings']) for f in q['blocks'][2]['frames']] == [(5, b'\x01\x02\x03'), (6, b'\x01\x02\x03'), (7, b'')]
    assert q['blocks'][3] == {'id': 0x55, 'body': b'xyz'}
    for bad in (b'RZX', b'RZX!\x00\x0d\x00\x00\x00\x00\x80\x03\x00\x00\x00'):
        try:
            parse(bad)
        except RZXFormatError:
            pass
        else:
            raise AssertionError('malformed file accepted')
    if verbose:
        print('rzxref self-test passed')


if __name__ == '__main__':
    _selftest()
