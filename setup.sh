#!/bin/sh
# Offline setup: third-party deps from the local wheelhouse, C build of the tree
# under test, self-tests of the reference oracles.
set -e
cd "$(dirname "$0")"
WH=/opt/veriftools/wheels
/venv/bin/python -c "import hypothesis" 2>/dev/null || /venv/bin/pip install -q --no-index --find-links $WH hypothesis
mkdir -p .deps
PYTHONPATH=.deps /venv/bin/python -c "import atheris" 2>/dev/null || /venv/bin/pip install -q --no-index --find-links $WH --target .deps atheris || echo "setup: atheris not installable (fuzz tier disabled)"
/venv/bin/python -c "
import sys; sys.path.insert(0, '.')
from vlib import bootstrap
bootstrap.init()
print('setup: C simulators built for', bootstrap.REPO)
"
/venv/bin/python -m ref.selftest
/venv/bin/python -m ref.pngdec
/venv/bin/python -m ref.taperef
/venv/bin/python -m ref.snapdec
/venv/bin/python -m ref.rzxref
