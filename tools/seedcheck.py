#!/venv/bin/python
"""Verify a seeded change delivered in a scratch worktree and run our checks against it.

usage: tools/seedcheck.py <seed-id> <property> <worktree> [check ...]

The worktree has the change applied and contains _seed/{patch.diff,demo.py,meta.json}.
Steps: (1) repo test suite in the worktree (failing set must equal the baseline's 14 known failures),
(2) demo exits 1 with the change, (3) demo exits 0 without it (git stash), (4) our check(s) with
VERIF_REPO=<worktree>; results are stored in /verif/seeded/<seed-id>/.
"""
import json
import os
import re
import shutil
import subprocess
import sys
import time

VERIF = os.path.dirname(os.path.dirname(os.path.abspath(__file__)))
PY = '/venv/bin/python'


def sh(cmd, cwd=None, timeout=3600, env=None):
    p = subprocess.run(cmd, shell=True, cwd=cwd, capture_output=True, text=True, timeout=timeout, env=env)
    return p.returncode, p.stdout + p.stderr


def rebuild_c(wt):
    rc, out = sh('git status --short c/csimulator.c', wt)
    if out.strip() or True:
        sh('%s setup.py build_ext --inplace' % PY, wt)


def main():
    seed_id, prop, wt = sys.argv[1:4]
    checks = sys.argv[4:] or [prop]
    res = {'seed': seed_id, 'property': prop, 'worktree': wt}
    changes_c = 'c/csimulator.c' in sh('git diff --stat', wt)[1]
    if changes_c:
        rebuild_c(wt)
    # (1) test suite
    rc, out = sh('%s -m pytest -q -p no:cacheprovider -n 8 2>&1 | tail -25' % PY, wt)
    failed = sorted(set(re.findall(r'FAILED (\S+)', out)))
    summary = out.strip().split('\n')[-1]
    res['tests_summary'] = summary
    outside = [f for f in failed if 'csimulator_api_test' not in f]
    flaky = []
    for t in outside:
        # a test that fails under -n but passes alone (and fails the same way on the unchanged tree under -n) is flaky
        rc1, out1 = sh('%s -m pytest -q -p no:cacheprovider "%s" 2>&1 | tail -3' % (PY, t), wt)
        if ' passed' in out1 and 'failed' not in out1:
            flaky.append(t)
    res['tests_flaky_under_xdist'] = flaky
    res['tests_failed_outside_known'] = [t for t in outside if t not in flaky]
    # (2) demo with the change
    rc_with, out_with = sh('%s _seed/demo.py' % PY, wt, 900)
    res['demo_with_change'] = {'rc': rc_with, 'tail': out_with.strip()[-300:]}
    # (3) demo without
    # (the stash is shared between worktrees of one repository: reverse-apply the diff instead)
    sh('git diff -- skoolkit c > _seed/.current.diff && git apply -R _seed/.current.diff', wt)
    if changes_c:
        rebuild_c(wt)
    rc_without, out_without = sh('%s _seed/demo.py' % PY, wt, 900)
    sh('git apply _seed/.current.diff', wt)
    if changes_c:
        rebuild_c(wt)
    res['demo_without_change'] = {'rc': rc_without, 'tail': out_without.strip()[-300:]}
    res['confirmed'] = (not res['tests_failed_outside_known']) and rc_with == 1 and rc_without == 0
    # (4) our checks
    res['checks'] = {}
    env = dict(os.environ, VERIF_REPO=wt)
    for c in checks:
        t0 = time.time()
        rc, out = sh('./check %s --tier quick --no-evidence' % c, VERIF, 3600, env)
        lines = [l for l in out.strip().split('\n') if not l.startswith('KNOWN-FINDING')]
        res['checks'][c] = {'rc': rc, 'caught': rc == 1 and 'VIOLATION' in out, 'wall_s': round(time.time() - t0, 1),
                            'tail': [l[:300] for l in lines[-6:]]}
    d = os.path.join(VERIF, 'seeded', seed_id)
    os.makedirs(d, exist_ok=True)
    rc, diff = sh('git diff -- skoolkit c', wt)
    with open(os.path.join(d, 'patch.diff'), 'w') as f:
        f.write(diff)
    shutil.copy(os.path.join(wt, '_seed', 'demo.py'), os.path.join(d, 'demo.py'))
    meta = {}
    try:
        meta = json.load(open(os.path.join(wt, '_seed', 'meta.json')))
    except Exception:
        pass
    meta['breaks_property'] = prop
    meta['verified'] = {k: res[k] for k in ('tests_summary', 'tests_failed_outside_known', 'tests_flaky_under_xdist', 'demo_with_change', 'demo_without_change', 'confirmed')}
    meta['ran'] = ['cd <worktree> && /venv/bin/python -m pytest -q -p no:cacheprovider -n 8',
                   'cd <worktree> && /venv/bin/python _seed/demo.py  (with the change: exit 1; with the diff reverse-applied: exit 0)'] + \
                  ['VERIF_REPO=<worktree> ./check %s --tier quick' % c for c in checks]
    meta['our_checks'] = res['checks']
    with open(os.path.join(d, 'meta.json'), 'w') as f:
        json.dump(meta, f, indent=1)
    print(json.dumps({'seed': seed_id, 'confirmed': res['confirmed'], 'tests': summary,
                      'demo': (rc_with, rc_without), 'checks': {c: (v['caught'], v['wall_s']) for c, v in res['checks'].items()}}, indent=1))
    for c, v in res['checks'].items():
        print(c, '\n   '.join(v['tail']))


if __name__ == '__main__':
    main()
