#!/venv/bin/python
"""Regenerates MANIFEST.json from checks/*.py metadata (MANIFEST_ENTRY dicts)."""
import importlib, json, os, sys
HERE = os.path.dirname(os.path.dirname(os.path.abspath(__file__)))
sys.path.insert(0, HERE)
props = [json.loads(l) for l in open(os.path.join(HERE, 'properties.jsonl'))]
PENDING = {}
checks, na = [], []
for p in props:
    pid = p['id']
    path = os.path.join(HERE, 'checks', pid.lower() + '.py')
    meta = None
    ready = set(open(os.path.join(HERE, 'tools', 'ready.txt')).read().split())
    if os.path.exists(path) and pid in ready:
        src = open(path).read()
        ns = {}
        # MANIFEST_ENTRY is a plain dict literal at module level
        i = src.find('MANIFEST_ENTRY = ')
        if i >= 0:
            j = src.index('\n}\n', i) + 2
            exec(src[i:j], ns)
            meta = ns['MANIFEST_ENTRY']
    if meta is None:
        na.append({'property_id': pid, 'reason': PENDING.get(pid, 'check not built yet (work in progress); see DESIGN.md section 4 for the planned generator and oracle')})
        continue
    entry = {
        'property_id': pid,
        'quick_cmd': './check %s --tier quick' % pid,
        'thorough_cmd': './check %s --tier thorough' % pid,
        'evidence_file': 'evidence/%s.json' % pid,
        'replay_cmd_template': './check %s --replay {path}' % pid,
        'engine': 'vlib-runner',
        'level_claimed': {'category': 'exploration', 'text': meta['level_text'], 'design_ref': 'DESIGN.md section 4 (%s)' % pid},
        'level_note': meta['level_note'],
        'technique': meta['technique'],
    }
    checks.append(entry)
manifest = {
    'version': 1,
    'setup_cmd': './setup.sh',
    'hooks': {
        'guard': 'SKOOLKIT_VERIF',
        'enable': 'no source hooks: checks import /repo\'s working tree directly (vlib/bootstrap.py sets SKOOLKIT_VERIF=1, compiles c/csimulator.c into /verif/.build/<hash>/ and preloads it); observation points are the public APIs, main() entry points and files',
        'baseline_off_cmd': 'cd /repo && /venv/bin/python -m pytest -q -p no:cacheprovider --timeout=900',
        'source_commits': [],
        'add_only': True,
    },
    'engines': [
        {'name': 'vlib-runner', 'path': 'vlib/runner.py', 'serves_properties': [c['property_id'] for c in checks],
         'kind_free_text': 'Hypothesis (seeded by VERIF_SEED, sharded over 16 processes, root-cause bucketing, shrinking to a JSON replay file) + complete enumeration of finite spaces; oracles in ref/ (independent reference models) and round-trip/differential/metamorphic relations in checks/'},
    ],
    'checks': checks,
    'not_applicable': na,
    'notes': 'Single entry point ./check <ID> --tier quick|thorough [--replay FILE]; exit 0 held / 1 VIOLATION / 2 harness error. Genuine defects: known_findings.json (fixed entries are replayed as regressions).',
}
with open(os.path.join(HERE, 'MANIFEST.json'), 'w') as f:
    json.dump(manifest, f, indent=1)
    f.write('\n')
print('MANIFEST.json: %d checks, %d not_applicable' % (len(checks), len(na)))
