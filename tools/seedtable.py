#!/venv/bin/python
"""Print the markdown table of seeded changes (DESIGN.md section 8) from seeded/*/meta.json."""
import glob
import json
import os

VERIF = os.path.dirname(os.path.dirname(os.path.abspath(__file__)))


def main():
    print('| seed | property | change (file) | needs | confirmed | caught by (quick tier, wall s) |')
    print('|---|---|---|---|---|---|')
    for path in sorted(glob.glob(os.path.join(VERIF, 'seeded', '*', 'meta.json'))):
        d = json.load(open(path))
        sid = os.path.basename(os.path.dirname(path))
        files = ', '.join(os.path.basename(f) for f in d.get('files', []))
        summary = (d.get('summary') or '').replace('|', '\\|').replace('\n', ' ')
        needs = (d.get('needs') or '').replace('|', '\\|').replace('\n', ' ')
        if len(summary) > 260:
            summary = summary[:257] + '...'
        if len(needs) > 260:
            needs = needs[:257] + '...'
        caught = ', '.join('%s %s (%ss)' % (c, 'yes' if v['caught'] else 'NO', v['wall_s']) for c, v in d.get('our_checks', {}).items())
        extra = d.get('strengthened')
        if extra:
            caught += ' - ' + extra
        print('| %s | %s | %s (%s) | %s | %s | %s |' % (sid, d.get('breaks_property'), summary, files, needs,
                                                     'yes' if d['verified']['confirmed'] else 'no', caught))


if __name__ == '__main__':
    main()
