"""C09 - snapshot files round-trip: what is written is what is read back.

(a) EXHAUSTIVE, the Z80 run-length coder: every byte string of length 0..10
    over {ED,00,01} (88,573 strings) and every run of 1..600 of each of those
    bytes with every neighbour class before/after it (plus every neighbour byte
    value 0..255 at the boundary run lengths) goes through both block forms of
    Z80._make_z80_ram_block (version-1 form with the 00 ED ED 00 end marker and
    the length+page form), is decoded by skoolkit's reader (Z80._decompress) and
    by ref/snapdec's decoder; streams produced by snapdec's encoder (written from
    the format text, two run-limit settings) are decoded by skoolkit's reader.
(b) Hypothesis, whole snapshots: RAM (48K or eight banks) x registers x hardware
    state x machine is written by write_snapshot as .z80 and .szx; Snapshot.get
    must return the same RAM and fields, the two formats must agree, snapdec must
    decode the files to the same state, and files produced by snapdec's encoders
    (Z80 v1/v2/v3 with RLE or 0xFFFF raw blocks, uncompressed v1, SZX with
    compressed/stored pages, SNA) must be read by skoolkit to the same state;
    the snapshot loaded into a simulator (simutils.from_snapshot), taken out
    again with simutils.get_state (absolute T-state counter) and written in both
    formats must still be the same state.
(c) Hypothesis, bin2sna.main and snapmod.main with generated --reg/--state/
    --poke/--move/--patch specs: the output must equal the input state with
    exactly the named registers / state attributes / cells changed (small
    reference of the documented option grammar), everything else - including
    header bytes and SZX blocks the tools do not interpret - unchanged.
"""
import hashlib
import itertools
import os
import re

from hypothesis import strategies as st

from vlib.runner import Violation, hyp_run, shard_seed, crash_sig
from vlib import cli
from ref import snapdec

PROPERTY = 'C09'
RULE = ('(a) complete enumeration of byte strings of length 0..10 over {ED,00,01} and of runs 1..600 of each of these bytes '
        'with neighbour classes {none,ED,00,01,02} on both sides (all 256 neighbour values at run lengths 1-6, 254-258, '
        '509-512), each through both block forms of the Z80 coder, skoolkit\'s reader, the reference decoder and the '
        'reference encoder; non-trivial = the string contains 0xED or a run of >= 5 equal bytes; distinct by construction. '
        '(b) Hypothesis draws RAM recipes (per 16K page or per 48K: segments run(byte,len 1..600)/literal over {ED,00,01,02}/'
        'random/random over {ED,00,01}, placed at the start or flush with the end, rest tiled/random/one byte), all registers, '
        'state attributes (border, iff, im, issue2, tstates from 0 to 2^40, 7ffd, fffd, ay[0..15], fe), machine 48K/128K/+2 '
        'and reference-encoder settings; non-trivial = RAM has 0xED next to a run of >= 5 equal bytes, or two adjacent ED, or '
        'a run >= 255, or tstates != 0; each case also goes Snapshot -> simulator -> get_state -> write_snapshot. Valid coded streams built '
        'token by token (literals, single ED + literal, run codes of any length 1..255 incl. short ones, ED as last byte) are decoded by '
        'skoolkit\'s reader; non-trivial = the stream has a run code or an ED literal. (c) Hypothesis draws an input (bin2sna: binary + --org/--page/--bank/-b/-p/-s; '
        'snapmod: Z80 v1/v2/v3 or SZX written by the reference encoder or by skoolkit) and 0-6 option specs; non-trivial = at '
        'least one spec with a range, step, ^/+ operator or bank prefix, or a move/patch. distinct = digest of the whole case.')
ASSUMPTIONS = [
    'the T-state position of a snapshot is tstates modulo the frame length of the machine (69888 / 70908); values read back are compared modulo the frame',
    'state attributes a format cannot store are not compared: MEMPTR and fe in Z80 files, tstates in Z80 v1/v2, 7ffd/fffd/ay in Z80 v1, issue2 on 128K machines',
    '7ffd/fffd/ay[] are generated for 128K machines only and bank prefixes for 128K snapshots only (documented as 128K-only)',
    'snapmod applies --patch, then --move, then --poke options (each kind in command-line order), then registers and state; a --state 7ffd that changes the paged bank is not combined with un-prefixed memory options',
    'bank-prefixed poke/move ranges stay inside one 16K bank; a bank-prefixed patch file may run past the end of the bank (the excess names no cell and must change nothing); un-prefixed addresses are 16384..65535; poke values, patch bytes and register values are in range for their width',
    'numbers are written in decimal or with a 0x prefix (the documented forms)',
    'Z80 byte 12 is never 255 in reference-encoded inputs (legacy "255 means 1" rule not exercised)',
    'SNA: SP is the value stored in the header and PC the word it points to (48K) - skoolkit\'s reading of the format',
]

ALPHA = (0xED, 0x00, 0x01)
MARKER = bytes((0, 0xED, 0xED, 0))


# ---------------------------------------------------------------------------
# (a) exhaustive: the run-length coder
# ---------------------------------------------------------------------------
_Z = None


def _z80obj():
    global _Z
    if _Z is None:
        from skoolkit.snapshot import Z80
        _Z = Z80()
    return _Z


def rle_oracle(data, case):
    """data: bytes. Both block forms, skoolkit's reader, reference decoder and encoder."""
    z = _z80obj()
    lst = list(data)
    try:
        z1 = z._make_z80_ram_block(lst)
        z2 = z._make_z80_ram_block(lst, 5)
    except Exception as e:
        raise Violation(crash_sig(e, 'rle-encode'), '_make_z80_ram_block raised %r' % e, case)
    if bytes(z1[-4:]) != MARKER:
        raise Violation('rle:v1-end-marker', 'version-1 block does not end with 00 ED ED 00: ...%s' % bytes(z1[-6:]).hex(), case)
    body = bytes(z1[:-4])
    if bytes(z2[:3]) != bytes((len(body) % 256, len(body) // 256, 5)) or bytes(z2[3:]) != body:
        raise Violation('rle:block-forms-differ', 'length/page form %s... does not wrap the same stream as the version-1 form' % bytes(z2[:8]).hex(), case)
    try:
        back = z._decompress(list(body))
    except Exception as e:
        raise Violation(crash_sig(e, 'rle-decode'), '_decompress raised %r on skoolkit\'s own output %s' % (e, body[:40].hex()), case)
    if bytes(back) != data:
        raise Violation('rle:roundtrip', 'data %s: skoolkit encodes it as %s and decodes that to %s' % (data[:40].hex(), body[:40].hex(), bytes(back)[:40].hex()), case)
    try:
        ref1 = snapdec.rle_decode(bytes(z1), end_marker=True)
    except snapdec.FormatError as e:
        raise Violation('rle:ref-decode', 'reference decoder rejects the version-1 block %s: %s' % (bytes(z1)[:40].hex(), e), case)
    if ref1 != (data, len(z1)):
        raise Violation('rle:ref-decode', 'reference decoder reads version-1 block %s as %s (consumed %d of %d)' % (
            bytes(z1)[:40].hex(), ref1[0][:40].hex(), ref1[1], len(z1)), case)
    ref2 = snapdec.rle_decode(body)[0]
    if ref2 != data:
        raise Violation('rle:ref-decode', 'reference decoder reads block %s as %s' % (body[:40].hex(), ref2[:40].hex()), case)
    for mx, mn in ((255, 5), (9, 6)):
        enc = snapdec.rle_encode(data, mx, mn)
        try:
            back = z._decompress(list(enc))
        except Exception as e:
            raise Violation(crash_sig(e, 'rle-decode'), '_decompress raised %r on %s' % (e, enc[:40].hex()), case)
        if bytes(back) != data:
            raise Violation('rle:reader', 'skoolkit decodes the valid stream %s to %s' % (enc[:40].hex(), bytes(back)[:40].hex()), case)


def _nontrivial_string(data):
    return 0xED in data or re.search(rb'(.)\1{4}', data, re.S) is not None


def run_strings(shard, rec):
    k, nsh = shard['part'], shard['of']
    idx = n = nt = 0
    for ln in range(11):
        for t in itertools.product(ALPHA, repeat=ln):
            idx += 1
            if idx % nsh != k:
                continue
            data = bytes(t)
            try:
                rle_oracle(data, {'kind': 'rle', 'data': data.hex()})
            except Violation as v:
                if rec.violation(v):
                    rec.note('failing-strings')
                if len(rec.failures) >= 4:
                    rec.exhaustive = False
                    rec.bulk(n, nt, 'rle:strings<=10')
                    return
            n += 1
            nt += _nontrivial_string(data)
            if n % 4001 == 1:
                rec.sample('rle:strings<=10', data.hex())
    rec.bulk(n, nt, 'rle:strings<=10')
    rec.exhaustive = not rec.failures


BOUNDARY_RUNS = (1, 2, 3, 4, 5, 6, 254, 255, 256, 257, 258, 509, 510, 511, 512)
NEIGHBOURS = (None, 0xED, 0x00, 0x01, 0x02)


def run_case_bytes(b, n, pre, post):
    return (b'' if pre is None else bytes([pre])) + bytes([b]) * n + (b'' if post is None else bytes([post]))


def run_runs(shard, rec):
    k, nsh = shard['part'], shard['of']
    cnt = nt = idx = 0

    def one(b, n, pre, post, klass):
        nonlocal cnt, nt
        data = run_case_bytes(b, n, pre, post)
        try:
            rle_oracle(data, {'kind': 'run', 'run': [b, n, pre, post]})
        except Violation as v:
            rec.violation(v)
        cnt += 1
        nt += _nontrivial_string(data)

    for b in ALPHA:
        for n in range(1, 601):
            idx += 1
            if idx % nsh != k:
                continue
            for pre in NEIGHBOURS:
                for post in NEIGHBOURS:
                    one(b, n, pre, post, 'rle:runs')
            if n in BOUNDARY_RUNS:
                for x in range(256):
                    one(b, n, x, None, 'rle:runs')
                    one(b, n, None, x, 'rle:runs')
                    one(b, n, x, x, 'rle:runs')
            if len(rec.failures) >= 4:
                rec.exhaustive = False
                rec.bulk(cnt, nt, 'rle:runs')
                return
    rec.sample('rle:runs', {'byte': 0xED, 'lengths': '1..600', 'neighbours': 'none/ED/00/01/02 on each side; 0..255 at boundary lengths'})
    rec.bulk(cnt, nt, 'rle:runs')
    rec.exhaustive = not rec.failures


# --- valid coded streams built token by token (reader only) ----------------------
NONED = st.integers(0, 254).map(lambda b: b if b < 0xED else b + 1)
TOKEN = st.one_of(
    NONED.map(lambda b: ['lit', b]),
    NONED.map(lambda b: ['edlit', b]),                      # a single ED followed by a literal byte
    st.tuples(st.sampled_from([1, 2, 3, 4, 5, 6, 254, 255]), st.sampled_from([0xED, 0x00, 0x01, 0xFF])).map(lambda t: ['run', t[0], t[1]]),
    st.tuples(st.integers(1, 255), st.integers(0, 255)).map(lambda t: ['run', t[0], t[1]]),
)
STREAMS = st.fixed_dictionaries({'kind': st.just('stream'), 'tokens': st.lists(TOKEN, max_size=40), 'ed_at_end': st.booleans()})


def stream_oracle(case, rec=None):
    coded, plain = bytearray(), bytearray()
    for t in case['tokens']:
        if t[0] == 'lit':
            coded.append(t[1])
            plain.append(t[1])
        elif t[0] == 'edlit':
            coded += bytes((0xED, t[1]))
            plain += bytes((0xED, t[1]))
        else:
            coded += bytes((0xED, 0xED, t[1], t[2]))
            plain += bytes([t[2]]) * t[1]
    if case['ed_at_end']:
        coded.append(0xED)
        plain.append(0xED)
    if snapdec.rle_decode(bytes(coded))[0] != bytes(plain):
        raise AssertionError('reference decoder disagrees with the token construction: %s' % bytes(coded).hex())
    try:
        back = _z80obj()._decompress(list(coded))
    except Exception as e:
        raise Violation(crash_sig(e, 'rle-decode'), '_decompress raised %r on the valid stream %s' % (e, bytes(coded)[:60].hex()), case)
    if bytes(back) != bytes(plain):
        raise Violation('rle:reader', 'skoolkit decodes the valid stream %s to %s, expected %s' % (
            bytes(coded)[:60].hex(), bytes(back)[:60].hex(), bytes(plain)[:60].hex()), case)
    if rec is not None:
        kinds = {t[0] for t in case['tokens']}
        kl = ['stream'] + ['stream:short-run-coded'] * any(t[0] == 'run' and t[1] < 5 and t[2] != 0xED for t in case['tokens'])
        rec.case(repr(case), 'run' in kinds or 'edlit' in kinds or case['ed_at_end'], kl, {'coded': bytes(coded)[:40].hex()})


# ---------------------------------------------------------------------------
# RAM recipes (compact, JSON-able; expansion is a pure function)
# ---------------------------------------------------------------------------
_ALPHA_TABLE = bytes(ALPHA[i % 3] for i in range(256))


def _rand(seed, n):
    return hashlib.shake_256(b'%d' % seed).digest(n)


def _seg_bytes(seg):
    kind = seg[0]
    if kind == 'run':
        return bytes([seg[1]]) * seg[2]
    if kind == 'lit':
        return bytes.fromhex(seg[1])
    if kind == 'rand':
        return _rand(seg[1], seg[2])
    if kind == 'alpha':
        return _rand(seg[1], seg[2]).translate(_ALPHA_TABLE)
    raise ValueError(seg)


def expand(recipe, size):
    stream = b''.join(_seg_bytes(s) for s in recipe['segs'])
    fill = recipe['fill']
    at_end = recipe.get('at') == 'end'
    if fill[0] == 'tile':
        if not stream:
            return bytes(size)
        rep = stream * (size // len(stream) + 2)
        return rep[-size:] if at_end else rep[:size]
    if fill[0] == 'rand':
        base = bytearray(_rand(fill[1], size))
    elif fill[0] == 'alpha':
        base = bytearray(_rand(fill[1], size).translate(_ALPHA_TABLE))
    else:
        base = bytearray([fill[1]]) * size
    stream = stream[:size]
    if at_end:
        base[size - len(stream):] = stream
    else:
        base[:len(stream)] = stream
    return bytes(base)


def build_ram(recipes, is128):
    """-> bytes(49152) or list of 8 bytes(16384)."""
    if is128:
        return [expand(recipes[p % len(recipes)], 16384) for p in range(8)]
    if len(recipes) == 1:
        return expand(recipes[0], 49152)
    return b''.join(expand(recipes[p % len(recipes)], 16384) for p in range(3))


RE_RUN255 = re.compile(rb'(.)\1{254}', re.S)
RE_ED_BEFORE = re.compile(rb'\xed([^\xed])\1{4}', re.S)
RE_ED_AFTER = re.compile(rb'([^\xed])\1{4}\xed', re.S)
RE_ED_PAIR = re.compile(rb'\xed\xed')


def ram_classes(ram):
    pages = ram if isinstance(ram, list) else [ram[i:i + 16384] for i in range(0, 49152, 16384)]
    k = set()
    for p in pages:
        if RE_RUN255.search(p):
            k.add('ram:run>=255')
        if RE_ED_BEFORE.search(p):
            k.add('ram:ED-before-run')
        if RE_ED_AFTER.search(p):
            k.add('ram:ED-after-run')
        if RE_ED_PAIR.search(p):
            k.add('ram:ED-run')
        if p.count(p[:1]) == len(p):
            k.add('ram:all-equal-page')
        if p[-1:] == b'\xed':
            k.add('ram:page-ends-with-ED')
    return k


# ---------------------------------------------------------------------------
# Reference of the documented option grammar (--reg, --state, --poke, --move, --patch)
# ---------------------------------------------------------------------------
def num(s):
    s = s.strip().lower()
    return int(s[2:], 16) if s.startswith('0x') else int(s)


PAIRS = {'b': ('bc', 8), 'c': ('bc', 0), 'd': ('de', 8), 'e': ('de', 0), 'h': ('hl', 8), 'l': ('hl', 0)}


def apply_reg(state, spec):
    name, val = spec.lower().split('=', 1)
    v = num(val)
    suffix = '2' if name.startswith('^') else ''
    name = name.lstrip('^')
    if name in PAIRS:
        pair, shift = PAIRS[name]
        old = state.get(pair + suffix)
        state[pair + suffix] = None if old is None else (old & (0xFF00 >> shift)) | (v << shift)
    else:
        state[name + suffix] = v


def apply_state(state, spec):
    name, val = spec.lower().split('=', 1)
    v = num(val)
    if name == 'iff':
        state['iff1'] = state['iff2'] = v
    elif name in ('im', 'border', 'issue2', 'tstates'):
        state[name] = v
    elif name in ('7ffd', 'fffd', 'fe'):
        state['out' + name] = v
    elif name.startswith('ay['):
        ay = list(state.get('ay') or [0] * 16)
        ay[num(name[3:-1])] = v
        state['ay'] = ay
        if state.get('outfffd') is None:
            state['outfffd'] = 0
    else:
        raise ValueError(spec)
    if name == 'fffd' and state.get('ay') is None:
        state['ay'] = [0] * 16


class Mem:
    """48K: flat bytearray at 16384..65535. 128K: 8 banks, 5/2/page mapped at 4000/8000/C000."""
    def __init__(self, ram, page=0):
        if isinstance(ram, list):
            self.banks = [bytearray(b) for b in ram]
            self.map = [None, self.banks[5], self.banks[2], self.banks[page]]
        else:
            self.banks = None
            self.flat = bytearray(ram)

    def cell(self, page, addr):
        if page is not None:
            return self.banks[page], addr % 16384
        if self.banks is None:
            return self.flat, addr - 16384
        return self.map[addr // 16384], addr % 16384

    def get(self, page, addr):
        a, i = self.cell(page, addr)
        return a[i]

    def put(self, page, addr, v):
        a, i = self.cell(page, addr)
        a[i] = v

    def ram(self):
        return [bytes(b) for b in self.banks] if self.banks is not None else bytes(self.flat)


def _page(s):
    if ':' in s:
        p, s = s.split(':', 1)
        return int(p), s
    return None, s


def apply_poke(mem, spec):
    addr, val = spec.split(',', 1)
    page, addr = _page(addr)
    op = val[0] if val[0] in '^+' else ''
    v = num(val[len(op):])
    r = [num(x) for x in addr.split('-')]
    a, b, c = r[0], (r[1] if len(r) > 1 else r[0]), (r[2] if len(r) > 2 else 1)
    for n in range(a, b + 1, c):
        old = mem.get(page, n)
        mem.put(page, n, old ^ v if op == '^' else (old + v) & 255 if op == '+' else v)


def apply_move(mem, spec):
    src, size, dest = spec.split(',')
    sp, src = _page(src)
    dp, dest = _page(dest)
    if dp is None:
        dp = sp
    src, size, dest = num(src), num(size), num(dest)
    block = [mem.get(sp, src + j) for j in range(size)]
    for j, v in enumerate(block):
        mem.put(dp, dest + j, v)


def apply_patch(mem, spec, data):
    page, addr = _page(spec)
    if page is not None:
        # a RAM bank has 16384 cells: bytes of the file beyond its end name no cell of that bank and change nothing
        data = data[:16384 - num(addr) % 16384]
    for j, v in enumerate(data):
        mem.put(page, num(addr) + j, v)


# ---------------------------------------------------------------------------
# Observation helpers
# ---------------------------------------------------------------------------
REGKEYS = ('a', 'f', 'bc', 'de', 'hl', 'a2', 'f2', 'bc2', 'de2', 'hl2', 'ix', 'iy', 'sp', 'pc', 'i', 'r')
SK_ATTRS = REGKEYS + ('iff1', 'iff2', 'im', 'border', 'tstates', 'memptr', 'out7ffd', 'outfffd', 'ay', 'outfe', 'machine')


def sk_read(path, case, what):
    from skoolkit.snapshot import Snapshot
    try:
        s = Snapshot.get(path)
    except Exception as e:
        raise Violation(crash_sig(e, 'read'), 'Snapshot.get raised %r on %s' % (e, what), case)
    f = {k: getattr(s, k) for k in SK_ATTRS}
    f['ay'] = list(f['ay'])
    f['type'] = s.type
    return s, f


def sk_ram(s, is128, case, what):
    try:
        if is128:
            ram = s.ram(-1)
            if len(ram) != 131072:
                raise Violation('ram-size', '%s: ram(-1) has %d bytes' % (what, len(ram)), case)
            b = bytes(ram)
            return [b[i:i + 16384] for i in range(0, 131072, 16384)]
        ram = s.ram()
        if len(ram) != 49152:
            raise Violation('ram-size', '%s: ram() has %d bytes' % (what, len(ram)), case)
        return bytes(ram)
    except (ValueError, TypeError) as e:
        raise Violation('ram-cell-range', '%s: RAM contains a non-byte value (%r)' % (what, e), case)


def ram_diff(got, exp):
    if isinstance(exp, list):
        for p in range(8):
            if got[p] != exp[p]:
                i = next(i for i in range(16384) if got[p][i] != exp[p][i])
                return 'bank %d offset %d: got %d expected %d (%d cells differ in this bank)' % (
                    p, i, got[p][i], exp[p][i], sum(1 for x, y in zip(got[p], exp[p]) if x != y))
        return None
    if got != exp:
        i = next(i for i in range(49152) if got[i] != exp[i])
        return 'address %d: got %d expected %d (%d cells differ)' % (16384 + i, got[i], exp[i], sum(1 for x, y in zip(got, exp) if x != y))
    return None


def comparable(fmt, machine):
    """Keys of the model a file of this format can carry."""
    is128 = machine != '48K'
    keys = list(REGKEYS) + ['iff1', 'iff2', 'im', 'border']
    if fmt in ('z80v3', 'szx'):
        keys.append('tstates')
    if fmt == 'szx':
        keys += ['memptr', 'outfe']
    if is128 and fmt != 'z80v1':
        keys += ['out7ffd', 'outfffd', 'ay']
    if not is128 and fmt != 'sna':
        keys.append('issue2')
    if fmt == 'sna' and is128:
        keys = [k for k in keys if k not in ('outfffd', 'ay')]
    return keys


def tsig(fmt, t):
    return 'tstates:%s%s' % ('szx' if fmt == 'szx' else 'z80', ':T>=2^24' if t is not None and t >= 1 << 24 else '')


def compare(got, exp, keys, frame, prefix, fmt, case, what):
    """exp values of None are unknown (not compared)."""
    for k in keys:
        e = exp.get(k)
        if e is None or k not in got:
            continue
        g = got[k]
        if k == 'tstates':
            if g is None or g % frame != e % frame:
                raise Violation('%s:%s' % (prefix, tsig(fmt, e)), '%s: T-state position %r (mod %d: %s), expected %d (mod %d: %d)' % (
                    what, g, frame, None if g is None else g % frame, e, frame, e % frame), case)
        elif g != e:
            raise Violation('%s:%s:%s' % (prefix, 'z80' if fmt.startswith('z80') else fmt, k if not k.startswith('ay') else 'ay'),
                            '%s: %s = %r, expected %r' % (what, k, g, e), case)


class _Tracer:
    """The attributes get_state() reads from a simulator's tracer."""
    def __init__(self, f):
        self.border = f['border']
        self.outfe = f['outfe']
        self.outfffd = f['outfffd']
        self.ay = list(f['ay'])


def blank_model():
    m = {k: None for k in REGKEYS}
    m.update(iff1=None, iff2=None, im=None, border=None, issue2=None, tstates=None, memptr=None,
             out7ffd=None, outfffd=None, ay=None, outfe=None)
    return m


# ---------------------------------------------------------------------------
# (b) whole-snapshot round trip
# ---------------------------------------------------------------------------
def rt_oracle(case, rec=None):
    from skoolkit.snapshot import write_snapshot
    machine = case['machine']
    is128 = machine != '48K'
    frame = snapdec.FRAME[machine]
    ram = build_ram(case['ram'], is128)
    ram_lists = [list(b) for b in ram] if is128 else list(ram)
    model = blank_model()
    # documented defaults of write_snapshot's state
    model.update(iff1=1, iff2=1, im=1, tstates=34943, border=0, issue2=0)
    for spec in case['regs']:
        apply_reg(model, spec)
    for spec in case['state']:
        apply_state(model, spec)
    model['machine'] = machine
    enc = case.get('enc') or {}
    results = {}
    with cli.Scratch('c09-') as s:
        for ext in ('z80', 'szx'):
            fmt = 'z80v3' if ext == 'z80' else 'szx'
            path = s.path('w.' + ext)
            try:
                write_snapshot(path, ram_lists, list(case['regs']), list(case['state']), machine)
            except Exception as e:
                raise Violation(crash_sig(e, 'write-' + ext), 'write_snapshot(%s) raised %r' % (ext, e), case)
            keys = comparable(fmt, machine) + ['machine']
            # (1) skoolkit reads its own file
            snap, f = sk_read(path, case, 'skoolkit-written .' + ext)
            if f['type'] != ext.upper():
                raise Violation('rt:type', '.%s file read back as type %r' % (ext, f['type']), case)
            compare(f, model, keys, frame, 'rt', fmt, case, 'write_snapshot -> Snapshot.get (.%s)' % ext)
            got = sk_ram(snap, is128, case, '.%s round trip' % ext)
            d = ram_diff(got, ram)
            if d:
                raise Violation('rt:%s:ram' % ext, 'write_snapshot -> Snapshot.get (.%s): %s' % (ext, d), case)
            if is128 and model['out7ffd'] is not None:
                cur = model['out7ffd'] % 8
                for page in (None, 0, 7, cur):
                    view = bytes(snap.ram(page) if page is not None else snap.ram())
                    top = cur if page is None else page
                    if view != ram[5] + ram[2] + ram[top]:
                        raise Violation('rt:%s:ram-view' % ext, '.%s: ram(%r) is not banks 5, 2, %d' % (ext, page, top), case)
            results[ext] = (f, got)
            # (3) the reference decoder reads skoolkit's file
            with open(path, 'rb') as fh:
                blob = fh.read()
            try:
                dec = snapdec.decode(blob, ext)
            except (snapdec.FormatError, IndexError, ValueError, KeyError) as e:
                # the reference decoder rejects the file: it does not follow the format
                raise Violation('ref-decode:%s:reject' % ext, 'reference decoder rejects skoolkit\'s .%s file: %r' % (ext, e), case)
            if dec['format'] != fmt:
                raise Violation('ref-decode:%s:version' % ext, 'file decodes as %s' % dec['format'], case)
            compare(dec, model, keys, frame, 'ref-decode', fmt, case, 'reference decoder on skoolkit\'s .%s' % ext)
            d = ram_diff(dec['ram'], ram)
            if d:
                raise Violation('ref-decode:%s:ram' % ext, 'reference decoder on skoolkit\'s .%s: %s' % (ext, d), case)
        # (2) cross-format
        fz, fs = results['z80'][0], results['szx'][0]
        for k in SK_ATTRS:
            if k in ('memptr', 'outfe'):
                continue
            if k in ('out7ffd', 'outfffd', 'ay') and not is128:
                continue
            a, b = fz[k], fs[k]
            if k == 'tstates':
                a, b = a % frame, b % frame
            if a != b:
                t = model.get('tstates')
                sig = 'cross:' + (tsig('szx', t) if k == 'tstates' else k)
                raise Violation(sig, 'same state written as .z80 and .szx reads back with %s = %r (z80) vs %r (szx)' % (k, fz[k], fs[k]), case)
        if results['z80'][1] != results['szx'][1]:
            raise Violation('cross:ram', 'same RAM written as .z80 and .szx reads back differently', case)
        # (4) files from the reference encoders are read by skoolkit
        st8 = dict(model)
        for k in REGKEYS:
            if st8[k] is None:
                st8[k] = 0
        for k, dflt in (('memptr', 0), ('outfe', 0), ('out7ffd', 0), ('outfffd', 0)):
            if st8[k] is None:
                st8[k] = dflt
        if st8['ay'] is None:
            st8['ay'] = [0] * 16
        st8['tstates'] = st8['tstates'] % frame
        st8['ram'] = ram
        zver = enc.get('zver', 3)
        if zver == 1 and (is128 or not st8['pc']):
            zver = 3
        files = [('z80v%d' % zver, 'e.z80', lambda: snapdec.encode_z80(st8, zver, enc.get('blocks', 'rle'), enc.get('v1c', True), enc.get('xlen', 54),
                                                                     enc.get('maxrun', 255), enc.get('minrun', 5))),
                 ('szx', 'e.szx', lambda: snapdec.encode_szx(st8, enc.get('szxc', True), enc.get('level', 6), ram_first=enc.get('ram_first', False)))]
        sna = None
        if machine == '128K':
            sna = dict(st8)
        elif machine == '48K' and 16384 <= st8['sp'] <= 65534:
            sna = dict(st8)
            r2 = bytearray(ram)
            r2[st8['sp'] - 16384:st8['sp'] - 16382] = bytes((st8['pc'] & 255, st8['pc'] >> 8))
            sna['ram'] = bytes(r2)
        if sna is not None:
            files.append(('sna', 'e.sna', lambda: snapdec.encode_sna(sna)))
        for fmt, name, make in files:
            path = s.write(name, make())
            snap, f = sk_read(path, case, 'reference-encoded ' + fmt)
            src = sna if fmt == 'sna' else st8
            keys = comparable(fmt, machine) + ['machine']
            compare(f, src, keys, frame, 'reader', fmt, case, 'Snapshot.get on a reference-encoded %s file' % fmt)
            got = sk_ram(snap, is128, case, 'reference-encoded ' + fmt)
            d = ram_diff(got, src['ram'])
            if d:
                raise Violation('reader:%s:ram' % ('z80' if fmt.startswith('z80') else fmt), 'Snapshot.get on a reference-encoded %s file: %s' % (fmt, d), case)
        # (5) Snapshot -> simulator -> get_state -> write_snapshot (what trace.py/rzxplay.py do), with the
        #     simulator's absolute T-state counter set to the case's tstates value
        from skoolkit import simutils
        from skoolkit.simulator import Simulator
        snap0, f0 = sk_read(s.path('w.szx'), case, 'skoolkit-written .szx')
        try:
            sim = simutils.from_snapshot(Simulator, snap0)
            sim.tracer = _Tracer(f0)
            sim.registers[simutils.T] = model['tstates']
            g_ram, g_regs, g_state, g_machine = simutils.get_state(sim)
        except Exception as e:
            raise Violation(crash_sig(e, 'get_state'), 'from_snapshot/get_state raised %r' % e, case)
        for ext in ('z80', 'szx'):
            fmt = 'z80v3' if ext == 'z80' else 'szx'
            path = s.path('s.' + ext)
            try:
                write_snapshot(path, g_ram, g_regs, g_state, g_machine)
            except Exception as e:
                raise Violation(crash_sig(e, 'write-' + ext), 'write_snapshot(%s) of get_state() raised %r' % (ext, e), case)
            snap, f = sk_read(path, case, 'snapshot of the simulator state')
            compare(f, model, comparable(fmt, machine) + ['machine'], frame, 'sim', fmt, case, 'from_snapshot -> get_state -> write_snapshot (.%s)' % ext)
            d = ram_diff(sk_ram(snap, is128, case, 'snapshot of the simulator state'), ram)
            if d:
                raise Violation('sim:%s:ram' % ext, 'from_snapshot -> get_state -> write_snapshot (.%s): %s' % (ext, d), case)
    if rec is not None:
        t = model['tstates']
        kl = ram_classes(ram)
        nt = bool(kl & {'ram:run>=255', 'ram:ED-before-run', 'ram:ED-after-run', 'ram:ED-run'}) or t != 0
        kl |= {'rt:' + machine, 'enc:z80v%d' % zver}
        if enc.get('blocks') not in (None, 'rle'):
            kl.add('enc:z80-raw-blocks')
        if zver == 1 and not enc.get('v1c', True):
            kl.add('enc:z80v1-uncompressed')
        if enc.get('szxc') is not True:
            kl.add('enc:szx-stored-pages')
        if sna is not None:
            kl.add('enc:sna')
        kl.add('T>=2^24' if t >= 1 << 24 else 'T>=frame' if t >= frame else 'T=0' if t == 0 else 'T<frame')
        rec.case(repr(case), nt, sorted(kl), {'machine': machine, 'ram': case['ram'][:2], 'regs': case['regs'][:4], 'state': case['state']})


# --- strategies (module level) ---------------------------------------------------
def solid(strategy):
    """Hide a one_of from an enclosing one_of/map (which would flatten it and change the weights)."""
    return st.tuples(strategy).map(lambda t: t[0])


BYTE = st.integers(0, 255)
WORD = solid(st.one_of(st.sampled_from([0, 1, 255, 256, 0x3FFF, 0x4000, 0x7FFF, 0x8000, 0xFFFE, 0xFFFF]), st.integers(0, 65535)))
BYTEV = solid(st.one_of(st.sampled_from([0, 1, 127, 128, 255]), BYTE))
SEED = st.integers(0, 2 ** 32 - 1)
RUN_BYTE = solid(st.one_of(st.sampled_from([0xED, 0xED, 0x00, 0x01, 0xFF, 0xEC, 0xEE]), BYTE))
RUN_LEN = solid(st.one_of(st.sampled_from([1, 2, 3, 4, 5, 6, 254, 255, 256, 257, 258, 509, 510, 511, 512, 600]), st.integers(1, 600)))
SEG = st.one_of(
    st.tuples(st.just('run'), RUN_BYTE, RUN_LEN).map(list),
    st.tuples(st.just('run'), st.just(0xED), RUN_LEN).map(list),
    st.lists(st.sampled_from([0xED, 0, 1, 2]), min_size=1, max_size=6).map(lambda l: ['lit', bytes(l).hex()]),
    st.tuples(st.just('rand'), SEED, st.integers(1, 2000)).map(list),
    st.tuples(st.just('alpha'), SEED, st.integers(1, 400)).map(list),
)
FILL = st.one_of(st.just(['tile']), st.tuples(st.just('rand'), SEED).map(list), st.tuples(st.just('byte'), RUN_BYTE).map(list),
                 st.tuples(st.just('alpha'), SEED).map(list))
RECIPE = st.fixed_dictionaries({'segs': st.lists(SEG, max_size=6), 'fill': FILL, 'at': st.sampled_from(['start', 'end'])})
CHEAP_RECIPE = st.fixed_dictionaries({'segs': st.lists(SEG, max_size=2), 'fill': st.one_of(st.tuples(st.just('rand'), SEED).map(list), st.tuples(st.just('byte'), BYTE).map(list)),
                                      'at': st.just('start')})
MACHINE = st.sampled_from(['48K', '48K', '128K', '+2'])
TSTATES = solid(st.one_of(
    st.sampled_from([0, 1, 17471, 17472, 17726, 17727, 34943, 52415, 52416, 69887, 69888, 70907, 70908, (1 << 24) - 1, 1 << 24, (1 << 24) + 1]),
    st.integers(0, 70907), st.integers(0, 70907), st.integers(70908, (1 << 24) - 1), st.integers(1 << 24, 1 << 26), st.integers(1 << 24, 1 << 40)))
R16N = ('bc', 'de', 'hl', '^bc', '^de', '^hl', 'ix', 'iy', 'sp', 'pc')
R8N = ('a', 'f', '^a', '^f', 'i', 'r')
R8X = ('b', 'c', 'd', 'e', 'h', 'l', '^b', '^c', '^d', '^e', '^h', '^l')
NUMFMT = st.sampled_from(['d', 'd', 'x', 'X'])


def fmtnum(v, f):
    return str(v) if f == 'd' else '0x%x' % v if f == 'x' else '0x%04X' % v


REGSPEC = solid(st.one_of(
    st.tuples(st.sampled_from(R16N + ('memptr',)), WORD, NUMFMT, st.booleans()),
    st.tuples(st.sampled_from(R8N + R8X), BYTEV, NUMFMT, st.booleans()),
)).map(lambda t: '%s=%s' % (t[0].upper() if t[3] else t[0], fmtnum(t[1], t[2])))
ALLREGS = st.tuples(st.tuples(*[WORD] * len(R16N)), st.tuples(*[BYTEV] * len(R8N)), st.booleans(), NUMFMT, st.lists(REGSPEC, max_size=3))


def all_reg_specs(t):
    words, bytes_, upper, f, extra = t
    specs = ['%s=%s' % (n.upper() if upper else n, fmtnum(v, f)) for n, v in zip(R16N + R8N, words + bytes_)]
    return specs + list(extra)


_ST_COMMON = [
    st.integers(0, 7).map(lambda v: 'border=%d' % v),
    st.integers(0, 1).map(lambda v: 'iff=%d' % v),
    st.integers(0, 2).map(lambda v: 'im=%d' % v),
    TSTATES.map(lambda v: 'tstates=%d' % v),
    TSTATES.map(lambda v: 'tstates=%d' % v),
    BYTEV.map(lambda v: 'fe=%d' % v),
]
STATE48 = solid(st.one_of(*_ST_COMMON, st.integers(0, 1).map(lambda v: 'issue2=%d' % v)))
STATE128 = solid(st.one_of(
    *_ST_COMMON,
    BYTEV.map(lambda v: '7ffd=%d' % v),
    BYTEV.map(lambda v: 'fffd=%d' % v),
    st.tuples(st.integers(0, 15), BYTEV).map(lambda t: 'ay[%d]=%d' % t),
    st.tuples(st.integers(0, 15), BYTEV).map(lambda t: 'ay[%d]=%d' % t),
))
ENC = st.fixed_dictionaries({
    'zver': st.sampled_from([1, 2, 3, 3]),
    'blocks': st.one_of(st.just('rle'), st.just('raw'), st.lists(st.sampled_from(['rle', 'raw']), min_size=2, max_size=8)),
    'v1c': st.booleans(), 'xlen': st.sampled_from([54, 55]),
    'maxrun': st.sampled_from([255, 255, 254, 100, 5]), 'minrun': st.just(5),
    'szxc': st.one_of(st.just(True), st.just(False), st.lists(st.booleans(), min_size=2, max_size=8)),
    'level': st.sampled_from([0, 1, 6, 9]), 'ram_first': st.booleans(),
})


STATES48 = st.lists(STATE48, max_size=8)
STATES128 = st.lists(STATE128, max_size=12)
RAM48 = st.one_of(st.lists(RECIPE, min_size=1, max_size=1), st.lists(RECIPE, min_size=3, max_size=3))
RAM128 = st.lists(RECIPE, min_size=8, max_size=8)


@st.composite
def rt_cases(draw):
    machine = draw(MACHINE)
    state = draw(STATES48 if machine == '48K' else STATES128)
    enc = draw(ENC)
    regs = all_reg_specs(draw(ALLREGS))
    ram = draw(RAM48 if machine == '48K' else RAM128)
    return {'kind': 'rt', 'machine': machine, 'ram': ram, 'regs': regs, 'state': state, 'enc': enc}


# ---------------------------------------------------------------------------
# (c) option specs for snapmod / bin2sna
# ---------------------------------------------------------------------------
ADDR = solid(st.one_of(st.sampled_from([16384, 16385, 32767, 32768, 49151, 49152, 65535]), st.integers(16384, 65535)))
OP = st.sampled_from(['', '', '^', '+'])
SPAN = solid(st.one_of(st.integers(0, 40), st.integers(0, 700)))
STEP = solid(st.one_of(st.integers(1, 9), st.integers(1, 300)))
BANK = st.integers(0, 7)
BANKADDR = solid(st.one_of(st.integers(0, 16383), st.integers(49152, 65535), st.integers(0, 65535)))


def _poke_spec(t, bank=None):
    a, span, step, form, op, v, f = t
    lim = 65535 if bank is None else (a // 16384) * 16384 + 16383
    b = min(a + span, lim)
    addr = fmtnum(a, f) if form == 0 else '%s-%s' % (fmtnum(a, f), fmtnum(b, f)) if form == 1 else '%s-%s-%s' % (fmtnum(a, f), fmtnum(b, f), fmtnum(step, f))
    return '%s%s,%s%s' % ('' if bank is None else '%d:' % bank, addr, op, fmtnum(v, f if f != 'X' else 'x'))


POKE = st.tuples(ADDR, SPAN, STEP, st.integers(0, 2), OP, BYTEV, NUMFMT).map(lambda t: ['poke', _poke_spec(t)])
POKE_BANK = st.tuples(BANK, st.tuples(BANKADDR, SPAN, STEP, st.integers(0, 2), OP, BYTEV, NUMFMT)).map(lambda t: ['poke', _poke_spec(t[1], t[0])])


def _move_spec(t):
    src, dest, size, f = t
    size = min(size, 65536 - src, 65536 - dest)
    return ['move', '%s,%s,%s' % (fmtnum(src, f), fmtnum(size, f), fmtnum(dest, f))]


def _move_bank_spec(t):
    sb, db, src, dest, size, samebank, f = t
    size = min(size, 16384 - src % 16384, 16384 - dest % 16384)
    if samebank:
        return ['move', '%d:%s,%s,%s' % (sb, fmtnum(src, f), fmtnum(size, f), fmtnum(dest, f))]
    return ['move', '%d:%s,%s,%d:%s' % (sb, fmtnum(src, f), fmtnum(size, f), db, fmtnum(dest, f))]


MOVE = st.tuples(ADDR, ADDR, st.integers(1, 700), NUMFMT).map(_move_spec)
MOVE_BANK = st.tuples(BANK, BANK, BANKADDR, BANKADDR, st.integers(1, 700), st.booleans(), NUMFMT).map(_move_bank_spec)
PATCH_DATA = solid(st.one_of(st.lists(BYTE, min_size=1, max_size=8).map(lambda l: bytes(l).hex()),
                             st.tuples(SEED, st.integers(1, 700)).map(lambda t: _rand(t[0], t[1]).hex())))
PATCH = st.tuples(ADDR, PATCH_DATA).map(lambda t: ['patch', '%d' % min(t[0], 65536 - len(t[1]) // 2), t[1]])
PATCH_BANK = st.tuples(BANK, BANKADDR, PATCH_DATA, st.sampled_from([0, 0, 0, 0, 1])).map(
    lambda t: ['patch', '%d:%d' % (t[0], (t[1] // 16384 * 16384 + 16384 - max(1, len(t[2]) // 4)) if t[3] else
                                   t[1] - max(0, t[1] % 16384 + len(t[2]) // 2 - 16384)), t[2]])      # t[3]: the file runs past the end of the bank
REGOP = REGSPEC.map(lambda s: ['reg', s])
STATEOP48 = STATE48.map(lambda s: ['state', s])
STATEOP128 = STATE128.map(lambda s: ['state', s])
# (weights are explicit: one_of would flatten the nested state alternatives and over-represent them)
OPKINDS = {
    'snapmod48': ([POKE, MOVE, PATCH, REGOP, STATEOP48], [3, 2, 2, 2, 2]),
    'snapmod128': ([POKE, POKE_BANK, MOVE, MOVE_BANK, PATCH, PATCH_BANK, REGOP, STATEOP128], [2, 3, 1, 2, 1, 2, 2, 2]),
    'bin2sna48': ([POKE, REGOP, STATEOP48], [3, 2, 2]),
    'bin2sna128': ([POKE, POKE_BANK, REGOP, STATEOP128], [2, 3, 2, 2]),
}
OPPICK = {k: st.sampled_from([i for i, w in enumerate(v[1]) for _ in range(w)]) for k, v in OPKINDS.items()}
NOPS = st.sampled_from([0, 1, 1, 2, 2, 3, 3, 4, 5, 6])


@st.composite
def op_lists(draw, which):
    strats = OPKINDS[which][0]
    pick = OPPICK[which]
    return [draw(strats[draw(pick)]) for _ in range(draw(NOPS))]


def fix_7ffd(ops, page):
    """A 7ffd change together with un-prefixed memory options keeps the paged bank."""
    mem_unprefixed = any(o[0] in ('poke', 'move', 'patch') and ':' not in o[1] for o in ops)
    if not mem_unprefixed:
        return ops
    out = []
    for o in ops:
        if o[0] == 'state' and o[1].startswith('7ffd='):
            o = ['state', '7ffd=%d' % ((int(o[1][5:]) & 0xF8) | page)]
        out.append(o)
    return out


def ops_classes(ops):
    k = set()
    for o in ops:
        kind, spec = o[0], o[1]
        k.add('op:' + kind)
        if kind in ('poke', 'move', 'patch') and ':' in spec:
            k.add('op:%s-bank' % kind)
        if kind == 'poke':
            addr, val = spec.split(',')
            n = addr.split(':')[-1].count('-')
            if n >= 1:
                k.add('op:poke-range')
            if n == 2:
                k.add('op:poke-step')
            if val[0] == '^':
                k.add('op:poke-xor')
            if val[0] == '+':
                k.add('op:poke-add')
        if kind == 'state' and spec.startswith('tstates='):
            k.add('op:tstates')
        if kind == 'reg' and spec.lower().split('=')[0].lstrip('^') in PAIRS:
            k.add('op:reg-half')
    return k


NT_OPS = {'op:poke-range', 'op:poke-step', 'op:poke-xor', 'op:poke-add', 'op:poke-bank', 'op:move', 'op:move-bank', 'op:patch', 'op:patch-bank'}


def apply_ops(model, mem, ops):
    """The tools apply patches, then moves, then pokes, then registers, then state."""
    for o in ops:
        if o[0] == 'patch':
            apply_patch(mem, o[1], bytes.fromhex(o[2]))
    for o in ops:
        if o[0] == 'move':
            apply_move(mem, o[1])
    for o in ops:
        if o[0] == 'poke':
            apply_poke(mem, o[1])
    for o in ops:
        if o[0] == 'reg':
            apply_reg(model, o[1])
    for o in ops:
        if o[0] == 'state':
            apply_state(model, o[1])


def last_tstates(ops):
    t = None
    for o in ops:
        if o[0] == 'state' and o[1].startswith('tstates='):
            t = int(o[1][8:])
    return t


def restrict_model(model, before, fmt, machine):
    """Attributes the format cannot store keep their previous (decoded) value."""
    is128 = machine != '48K'
    keep = []
    if fmt != 'szx':
        keep += ['memptr', 'outfe']
    if fmt in ('z80v1', 'z80v2'):
        keep.append('tstates')
    if fmt == 'z80v1' or not is128:
        keep += ['out7ffd', 'outfffd', 'ay']
    if fmt == 'szx' and is128:
        keep.append('issue2')
    for k in keep:
        model[k] = before.get(k)


def check_output(out_blob, ext, before, model, mem, fmt, machine, case, tool):
    """before: reference-decoded input state; model: expected state; mem: expected memory."""
    is128 = machine != '48K'
    frame = snapdec.FRAME[machine]
    try:
        dec = snapdec.decode(out_blob, ext)
    except (snapdec.FormatError, IndexError, ValueError, KeyError) as e:
        raise Violation('%s:ref-decode:reject' % tool, 'reference decoder rejects the file written by %s: %r' % (tool, e), case)
    if dec['format'] != fmt:
        raise Violation('%s:version' % tool, '%s turned a %s file into %s' % (tool, fmt, dec['format']), case)
    if dec['machine'] != machine:
        raise Violation('%s:machine' % tool, '%s turned a %s snapshot into %s' % (tool, machine, dec['machine']), case)
    keys = list(REGKEYS) + ['iff1', 'iff2', 'im', 'border', 'issue2', 'tstates', 'memptr', 'outfe', 'out7ffd', 'outfffd', 'ay']
    if is128:
        keys.remove('issue2')
    t_named = last_tstates(case['ops']) if fmt in ('z80v3', 'szx') else None
    for k in keys:
        e, g = model.get(k), dec.get(k)
        if k == 'tstates' and t_named is not None:
            if g is None or g % frame != t_named % frame:
                raise Violation('%s:%s' % (tool, tsig(fmt, t_named)), '%s --state tstates=%d on a %s file: position read back %r (mod %d: %s), expected %d' % (
                    tool, t_named, fmt, g, frame, None if g is None else g % frame, t_named % frame), case)
            continue
        if e != g:
            named = 'named' if e != before.get(k) else 'not named by any option'
            raise Violation('%s:%s:%s:%s' % (tool, 'z80' if fmt.startswith('z80') else fmt, k, 'wrong' if e != before.get(k) else 'collateral'),
                            '%s on a %s %s file: %s = %r, expected %r (%s; input had %r)' % (tool, machine, fmt, k, g, e, named, before.get(k)), case)
    d = ram_diff(dec['ram'], mem.ram())
    if d:
        raise Violation('%s:ram' % tool, '%s on a %s %s file: %s' % (tool, machine, fmt, d), case)
    return dec


def sk_agrees(path, dec, fmt, machine, case, tool):
    """skoolkit's reader and the reference decoder agree on the file the tool wrote."""
    frame = snapdec.FRAME[machine]
    snap, f = sk_read(path, case, 'file written by ' + tool)
    compare(f, dec, comparable(fmt, machine) + ['machine'], frame, tool + ':reread', fmt, case, 'Snapshot.get on the file written by ' + tool)
    got = sk_ram(snap, machine != '48K', case, 'file written by ' + tool)
    d = ram_diff(got, dec['ram'])
    if d:
        raise Violation('%s:reread:ram' % tool, 'Snapshot.get on the file written by %s: %s' % (tool, d), case)


OPTNAMES = {
    'snapmod': {'reg': ('-r', '--reg'), 'state': ('-s', '--state'), 'poke': ('-p', '--poke'), 'move': ('-m', '--move'), 'patch': ('--patch', '--patch')},
    'bin2sna': {'reg': ('-r', '--reg'), 'state': ('-S', '--state'), 'poke': ('-P', '--poke')},
}


def ops_argv(tool, ops, scratch, long_opts):
    argv = []
    for n, o in enumerate(ops):
        opt = OPTNAMES[tool][o[0]][1 if long_opts else 0]
        if o[0] == 'patch':
            name = 'patch%d.bin' % n
            scratch.write(name, bytes.fromhex(o[2]))
            argv += [opt, '%s,%s' % (o[1], name)]
        else:
            argv += [opt, o[1]]
    return argv


def run_tool(tool, argv, case):
    r = cli.run(tool, argv)
    if r.exc is not None:
        raise Violation(crash_sig(r.exc, tool), '%s %s raised %r' % (tool, ' '.join(map(str, argv[:12])), r.exc), case)
    if not r.ok:
        raise Violation('%s:exit' % tool, '%s %s exited %r: %s' % (tool, ' '.join(map(str, argv[:12])), r.code, r.err[-300:]), case)
    return r


# --- snapmod -------------------------------------------------------------------
def make_input_state(case):
    """State dict for the reference encoders from the JSON case."""
    src = case['input']
    machine = src['machine']
    st8 = snapdec.blank_state(machine)
    model = blank_model()
    for spec in src['regs']:
        apply_reg(model, spec)
    for spec in src['state']:
        apply_state(model, spec)
    for k, v in model.items():
        if v is not None:
            st8[k] = v
    if machine == '48K':
        st8['out7ffd'] = st8['outfffd'] = 0
        st8['ay'] = [0] * 16
    st8['tstates'] %= snapdec.FRAME[machine]
    st8['ram'] = build_ram(src['ram'], machine != '48K')
    st8['extra'] = dict(src.get('extra') or {})
    return st8


def snapmod_oracle(case, rec=None):
    from skoolkit.snapshot import write_snapshot
    src = case['input']
    machine, fmt = src['machine'], src['format']
    is128 = machine != '48K'
    ext = 'szx' if fmt == 'szx' else 'z80'
    st8 = make_input_state(case)
    with cli.Scratch('c09-') as s:
        infile = s.path('in.' + ext)
        if src['producer'] == 'sk':
            ram = st8['ram']
            try:
                write_snapshot(infile, [list(b) for b in ram] if is128 else list(ram), list(src['regs']), list(src['state']), machine)
            except Exception as e:
                raise Violation(crash_sig(e, 'write-' + ext), 'write_snapshot raised %r' % e, case)
        elif fmt == 'szx':
            e = src['enc']
            s.write('in.szx', snapdec.encode_szx(st8, e['szxc'], e['level'], with_ay=e.get('with_ay'), with_keyb=e.get('with_keyb'), ram_first=e['ram_first']))
        else:
            e = src['enc']
            s.write('in.z80', snapdec.encode_z80(st8, int(fmt[-1]), e['blocks'], e['v1c'], e['xlen'], e['maxrun'], e['minrun']))
        with open(infile, 'rb') as fh:
            in_blob = fh.read()
        if src['producer'] == 'sk':
            try:
                before = snapdec.decode(in_blob, ext)
            except (snapdec.FormatError, IndexError, ValueError, KeyError) as e:
                raise Violation('ref-decode:%s:reject' % ext, 'reference decoder rejects skoolkit\'s .%s file: %r' % (ext, e), case)
        else:
            before = snapdec.decode(in_blob, ext)   # harness error if our own input is malformed
        if before['format'] != fmt or before['machine'] != machine:
            raise AssertionError('input snapshot is %s/%s, wanted %s/%s' % (before['format'], before['machine'], fmt, machine))
        model = dict(before)
        mem = Mem(before['ram'], (before['out7ffd'] or 0) % 8 if is128 else 0)
        apply_ops(model, mem, case['ops'])
        restrict_model(model, before, fmt, machine)
        exp_extra = dict(before['extra'])
        if fmt == 'szx':
            exp_extra = dict(exp_extra)
            if not is128 and 'keyb' not in exp_extra and any(o[0] == 'state' and o[1].startswith('issue2=') for o in case['ops']):
                exp_extra['keyb'] = [0, 0]
            if 'ayflags' not in exp_extra and any(o[0] == 'state' and o[1].startswith(('ay[', 'fffd=')) for o in case['ops']):
                exp_extra['ayflags'] = 0
            if before.get('issue2') is None and not is128 and 'keyb' not in exp_extra:
                model['issue2'] = None
            if 'ayflags' not in exp_extra:
                model['outfffd'] = model['ay'] = None
        argv = ops_argv('snapmod', case['ops'], s, case.get('long', True))
        if case.get('inplace'):
            outfile = infile
            argv += [infile]
        else:
            outfile = s.path('out.' + ext)
            argv += [infile, outfile]
        run_tool('snapmod', argv, case)
        with open(outfile, 'rb') as fh:
            out_blob = fh.read()
        if not case.get('inplace'):
            with open(infile, 'rb') as fh:
                if fh.read() != in_blob:
                    raise Violation('snapmod:input-modified', 'snapmod changed its input file although an output file was named', case)
        dec = check_output(out_blob, ext, before, model, mem, fmt, machine, case, 'snapmod')
        if dec['extra'] != exp_extra:
            diff = {k: (exp_extra.get(k), dec['extra'].get(k)) for k in set(exp_extra) | set(dec['extra']) if exp_extra.get(k) != dec['extra'].get(k)}
            raise Violation('snapmod:%s:extra:%s' % (ext, sorted(diff)[0]), 'snapmod changed data no option names (expected, got): %r' % diff, case)
        sk_agrees(outfile, dec, fmt, machine, case, 'snapmod')
    if rec is not None:
        kl = ops_classes(case['ops'])
        nt = bool(kl & NT_OPS)
        kl |= {'snapmod:%s:%s' % (fmt, '48K' if not is128 else '128K'), 'snapmod:input-by-' + src['producer']}
        t = last_tstates(case['ops'])
        if t is not None and t >= 1 << 24:
            kl.add('T>=2^24')
        rec.case(repr(case), nt, sorted(kl), {'format': fmt, 'machine': machine, 'ops': [o[:2] for o in case['ops']]})


Z80_EXTRA = st.fixed_dictionaries({
    'b12': st.sampled_from([0, 0, 0x10, 0x40, 0x80, 0x90]), 'b29': st.sampled_from([0, 0, 0x40, 0x88, 0xF8, 0x30]),
    'b36': st.sampled_from([0, 0xFF]), 'b37': st.sampled_from([0, 3, 4, 0x47]),
    'tail': st.one_of(st.just(''), SEED.map(lambda x: _rand(x, 29).hex())),
})
SZX_EXTRA = st.fixed_dictionaries({
    'version': st.sampled_from([[1, 4], [1, 5], [1, 3]]), 'flags': st.just(0),
    'z80r': st.sampled_from(['0000', '0001', '0002', '1f00']), '1ffd': st.sampled_from([0, 4]),
    'ayflags': st.sampled_from([0, 0, 1]), 'keyb': st.sampled_from([[0, 0], [0, 3], [0, 8]]),
    'blocks': st.lists(st.sampled_from([
        [b'CRTR'.hex(), (b'reference encoder'.ljust(32, b'\0') + bytes((1, 0, 2, 0)) + b'xyz').hex()],
        [b'JOY\0'.hex(), bytes((1, 0, 0, 0, 0, 8)).hex()],
        [b'ZXPR'.hex(), bytes((1, 0)).hex()],
    ]), max_size=3, unique_by=lambda b: b[0]),
})
HW = {('z80v2', '48K'): [0, 1], ('z80v2', '128K'): [3, 4], ('z80v2', '+2'): [12, 3, 4],
      ('z80v3', '48K'): [0, 1, 3], ('z80v3', '128K'): [4, 5, 6], ('z80v3', '+2'): [12, 4, 5, 6]}
SNAPMOD_FMT = st.sampled_from(['z80v1', 'z80v2', 'z80v3', 'z80v3', 'szx', 'szx'])
INREGS = st.tuples(st.tuples(*[WORD] * len(R16N)), st.tuples(*[BYTEV] * len(R8N)), st.just(False), st.just('d'), st.just([]))
IN_T = st.one_of(st.sampled_from([0, 1, 17471, 17472, 69887]), st.integers(0, 69887))


@st.composite
def snapmod_cases(draw):
    fmt = draw(SNAPMOD_FMT)
    machine = '48K' if fmt == 'z80v1' else draw(MACHINE)
    is128 = machine != '48K'
    ops = draw(op_lists('snapmod128' if is128 else 'snapmod48'))
    producer = draw(st.sampled_from(['ref', 'ref', 'sk'])) if fmt in ('z80v3', 'szx') else 'ref'
    regs = all_reg_specs(draw(INREGS))
    if fmt == 'z80v1' and regs[R16N.index('pc')] == 'pc=0':
        regs[R16N.index('pc')] = 'pc=1'
    state = ['border=%d' % draw(st.integers(0, 7)), 'iff=%d' % draw(st.integers(0, 1)), 'im=%d' % draw(st.integers(0, 2)),
             'tstates=%d' % draw(IN_T)]
    if fmt == 'szx':
        regs.append('memptr=%d' % draw(WORD))
        state.append('fe=%d' % draw(BYTE))
    if is128:
        state += ['7ffd=%d' % draw(BYTE), 'fffd=%d' % draw(st.integers(0, 15))]
        state += ['ay[%d]=%d' % (i, draw(BYTE)) for i in sorted(draw(st.sets(st.integers(0, 15), max_size=4)))]
    else:
        state.append('issue2=%d' % draw(st.integers(0, 1)))
    ram = draw(st.lists(CHEAP_RECIPE, min_size=8, max_size=8)) if is128 else draw(st.lists(CHEAP_RECIPE, min_size=1, max_size=1))
    src = {'format': fmt, 'machine': machine, 'producer': producer, 'regs': regs, 'state': state, 'ram': ram}
    if producer == 'ref':
        enc = draw(ENC)
        if fmt == 'szx':
            extra = draw(SZX_EXTRA)
            enc = dict(enc)
            if draw(st.integers(0, 3)) == 0:
                enc['with_ay'] = not is128
            if draw(st.integers(0, 3)) == 0:
                enc['with_keyb'] = is128
            if enc.get('with_ay', is128) is False:
                extra.pop('ayflags')
            if enc.get('with_keyb', not is128) is False:
                extra.pop('keyb')
        else:
            extra = draw(Z80_EXTRA)
            if fmt != 'z80v1':
                extra['hw'] = draw(st.sampled_from(HW[(fmt, machine)]))
            if fmt != 'z80v3':
                extra['tail'] = ''
            elif extra['tail']:
                extra['tail'] = extra['tail'][:2 * (enc['xlen'] - 26)]
            else:
                extra.pop('tail')
            if fmt == 'z80v1':
                extra = {'b12': extra['b12'], 'b29': extra['b29']}
            elif fmt == 'z80v2':
                extra.pop('tail', None)
        src['enc'] = enc
        src['extra'] = extra
    if is128:
        page = [int(x[5:]) for x in state if x.startswith('7ffd=')][0] % 8
        ops = fix_7ffd(ops, page)
    if fmt == 'z80v1':
        ops = [o for o in ops if not (o[0] == 'reg' and o[1].lower().startswith('pc=') and num(o[1][3:]) == 0)]
    return {'kind': 'snapmod', 'input': src, 'ops': ops, 'long': draw(st.booleans()), 'inplace': draw(st.integers(0, 4)) == 0}


# --- bin2sna --------------------------------------------------------------------
def bin2sna_oracle(case, rec=None):
    ext = case['ext']
    fmt = 'szx' if ext == 'szx' else 'z80v3'
    data = expand(case['bin'], case['len'])
    big = case['len'] == 0x20000
    page = case.get('page')
    is128 = big or page is not None
    machine = '128K' if is128 else '48K'
    org = case.get('org')
    eff_org = 0 if big else org if org is not None else 65536 - len(data)
    base = []
    if org is not None:
        base += ['-o', fmtnum(org, case.get('numfmt', 'd'))]
    if page is not None:
        base += ['--page', page]
    with cli.Scratch('c09-') as s:
        s.write('in.bin', data)
        banks = {}
        for n, (bank, recipe, ln) in enumerate(case.get('banks') or []):
            bdata = expand(recipe, ln)
            s.write('bank%d.bin' % n, bdata)
            base += ['--bank', '%d,bank%d.bin' % (bank, n)]
            banks[bank] = bdata + bytes(16384 - ln)
        for opt, key in (('-b', 'border'), ('-p', 'stack'), ('-s', 'start')):
            if case.get(key) is not None:
                base += [opt if not case.get('long') else {'-b': '--border', '-p': '--stack', '-s': '--start'}[opt],
                         fmtnum(case[key], case.get('numfmt', 'd')) if key != 'border' else case[key]]
        # run A: no --reg/--state/--poke: the documented layout and defaults
        run_tool('bin2sna', base + ['in.bin', 'a.' + ext], case)
        a_blob = s.read('a.' + ext, True)
        try:
            before = snapdec.decode(a_blob, ext)
        except (snapdec.FormatError, IndexError, ValueError, KeyError) as e:
            raise Violation('bin2sna:ref-decode:reject', 'reference decoder rejects the file written by bin2sna: %r' % e, case)
        if before['format'] != fmt or before['machine'] != machine:
            raise Violation('bin2sna:machine', 'bin2sna wrote a %s %s file, expected %s %s' % (before['machine'], before['format'], machine, fmt), case)
        if big:
            exp_ram = [data[i:i + 16384] for i in range(0, 0x20000, 16384)]
        else:
            m64 = bytes(eff_org) + data + bytes(65536 - eff_org - len(data))
            if is128:
                exp_ram = [bytes(16384)] * 8
                exp_ram[5], exp_ram[2], exp_ram[page] = m64[0x4000:0x8000], m64[0x8000:0xC000], m64[0xC000:]
                for b, bd in banks.items():
                    exp_ram[b] = bd
            else:
                exp_ram = m64[16384:]
        d = ram_diff(before['ram'], exp_ram)
        if d:
            raise Violation('bin2sna:layout', 'bin2sna %s: RAM is not the input placed at ORG=%d: %s' % (' '.join(map(str, base)), eff_org, d), case)
        dflt = {'sp': case['stack'] if case.get('stack') is not None else eff_org,
                'pc': case['start'] if case.get('start') is not None else eff_org,
                'border': (case['border'] if case.get('border') is not None else 7),
                'iff1': 1, 'iff2': 1, 'im': 1, 'tstates': 34943}
        if not is128:
            dflt['issue2'] = 0
        elif page is not None:
            dflt['out7ffd'] = page
        for k, v in dflt.items():
            if before.get(k) != v:
                raise Violation('bin2sna:default:' + k, 'bin2sna %s: %s = %r, documented default/option value %r' % (' '.join(map(str, base)), k, before.get(k), v), case)
        sk_agrees(s.path('a.' + ext), before, fmt, machine, case, 'bin2sna')
        # run B: with the generated options
        model = dict(before)
        mem = Mem(before['ram'], (page or 0) if is128 else 0)
        apply_ops(model, mem, case['ops'])
        restrict_model(model, before, fmt, machine)
        argv = base + ops_argv('bin2sna', case['ops'], s, case.get('long', True)) + ['in.bin', 'b.' + ext]
        run_tool('bin2sna', argv, case)
        dec = check_output(s.read('b.' + ext, True), ext, before, model, mem, fmt, machine, case, 'bin2sna')
        if dec['extra'] != before['extra']:
            raise Violation('bin2sna:extra', 'options changed uninterpreted data: %r -> %r' % (before['extra'], dec['extra']), case)
        sk_agrees(s.path('b.' + ext), dec, fmt, machine, case, 'bin2sna')
    if rec is not None:
        kl = ops_classes(case['ops'])
        nt = bool(kl & NT_OPS)
        kl |= {'bin2sna:%s:%s' % (ext, 'bin128K' if big else 'page' if page is not None else '48K')}
        if case.get('banks'):
            kl.add('bin2sna:--bank')
        t = last_tstates(case['ops'])
        if t is not None and t >= 1 << 24:
            kl.add('T>=2^24')
        rec.case(repr(case), nt, sorted(kl), {'ext': ext, 'len': case['len'], 'org': org, 'page': page, 'ops': [o[:2] for o in case['ops']]})


BIN_LEN = st.one_of(st.integers(1, 64), st.integers(1, 3000), st.sampled_from([16384, 32768, 49151, 49152]), st.integers(1, 49152))


@st.composite
def bin2sna_cases(draw):
    ext = draw(st.sampled_from(['z80', 'szx']))
    mode = draw(st.sampled_from(['48K', '48K', 'page', 'page', 'big']))
    ops = draw(op_lists('bin2sna48' if mode == '48K' else 'bin2sna128'))
    case = {'kind': 'bin2sna', 'ext': ext, 'bin': draw(CHEAP_RECIPE), 'long': draw(st.booleans()), 'numfmt': draw(st.sampled_from(['d', 'x']))}
    if mode == 'big':
        case['len'] = 0x20000
        case['page'] = draw(st.one_of(st.none(), BANK))
        page = case['page'] or 0
    else:
        ln = draw(BIN_LEN)
        case['len'] = ln
        if draw(st.booleans()):
            case['org'] = draw(st.integers(16384, 65536 - ln))
        if mode == 'page':
            page = case['page'] = draw(BANK)
            others = [b for b in range(8) if b not in (5, 2, page)]
            nb = draw(st.lists(st.sampled_from(others), max_size=3, unique=True))
            case['banks'] = [[b, draw(CHEAP_RECIPE), draw(st.sampled_from([1, 100, 16383, 16384]))] for b in nb]
        else:
            page = None
    for key, strat in (('border', st.integers(0, 7)), ('stack', WORD), ('start', WORD)):
        if draw(st.booleans()):
            case[key] = draw(strat)
    if page is not None:
        ops = fix_7ffd(ops, page)
        if mode == 'big' and case['page'] is None:
            # without --page the snapshot's 7ffd stays 0: keep bank 0 paged in
            ops = fix_7ffd(ops, 0)
    case['ops'] = ops
    return case


# ---------------------------------------------------------------------------
# plan / run / replay
# ---------------------------------------------------------------------------
def plan(tier, seed):
    quick = tier == 'quick'
    shards = []
    for i in range(6):
        shards.append({'kind': 'strings', 'part': i, 'of': 6})
    for i in range(6):
        shards.append({'kind': 'runs', 'part': i, 'of': 6})
    nrt, nsm, nbs = (1320, 1600, 840) if quick else (48000, 60000, 30000)
    for i in range(2):
        shards.append({'kind': 'stream', 'n': 3000 if quick else 100000, 'seed': shard_seed(seed, PROPERTY, 'st%d' % i)})
    for i in range(12):
        shards.append({'kind': 'rt', 'n': nrt // 12, 'seed': shard_seed(seed, PROPERTY, 'rt%d' % i)})
    for i in range(8):
        shards.append({'kind': 'snapmod', 'n': nsm // 8, 'seed': shard_seed(seed, PROPERTY, 'sm%d' % i)})
    for i in range(6):
        shards.append({'kind': 'bin2sna', 'n': nbs // 6, 'seed': shard_seed(seed, PROPERTY, 'bs%d' % i)})
    return shards


ORACLES = {'rt': rt_oracle, 'snapmod': snapmod_oracle, 'bin2sna': bin2sna_oracle, 'stream': stream_oracle}
STRATEGIES = {'rt': rt_cases, 'snapmod': snapmod_cases, 'bin2sna': bin2sna_cases, 'stream': lambda: STREAMS}


def run_shard(shard, rec):
    k = shard['kind']
    if k == 'strings':
        run_strings(shard, rec)
    elif k == 'runs':
        run_runs(shard, rec)
    else:
        oracle = ORACLES[k]
        hyp_run(rec, STRATEGIES[k](), lambda c: oracle(c, rec), shard['n'], shard['seed'])


def replay(case):
    k = case['kind']
    if k == 'rle':
        rle_oracle(bytes.fromhex(case['data']), case)
    elif k == 'run':
        rle_oracle(run_case_bytes(*case['run']), case)
    else:
        ORACLES[k](case)


def known_class(sig, case):
    """F6: the SZX writer stores tstates % 2**24 instead of the position within the
    frame. Only T-state mismatches of SZX files for tstates >= 2**24 belong to it."""
    if not isinstance(case, dict) or not sig.endswith('tstates:szx:T>=2^24'):
        return None
    k = case.get('kind')
    if k == 'rt':
        t = None
        for spec in case['state']:
            if spec.startswith('tstates='):
                t = int(spec[8:])
        return 'F6' if t is not None and t >= 1 << 24 else None
    if k == 'snapmod':
        t = last_tstates(case['ops'])
        return 'F6' if case['input']['format'] == 'szx' and t is not None and t >= 1 << 24 else None
    if k == 'bin2sna':
        t = last_tstates(case['ops'])
        return 'F6' if case['ext'] == 'szx' and t is not None and t >= 1 << 24 else None
    return None


MANIFEST_ENTRY = {
    'technique': 'complete enumeration of the Z80 run-length coder on short strings and runs; Hypothesis round-trip, cross-format and differential testing of snapshot files against independent Z80/SZX/SNA decoders and encoders (ref/snapdec); model-based testing of bin2sna/snapmod options',
    'level_text': 'Every byte string of length 0-10 over {ED,00,01} and every run of 1-600 of those bytes with each neighbour class is pushed through both block forms of the Z80 coder, skoolkit\'s reader, an independent decoder and an independent encoder (exhaustive). Generated machine states (RAM recipes with ED/run edge shapes, all registers, all state attributes incl. T-state counters up to 2^40, 48K/128K/+2) are written as .z80 and .szx and must read back identically through skoolkit and through decoders written from the format specifications; reference-encoded Z80 v1/v2/v3 (RLE, raw 0xFFFF blocks, uncompressed v1), SZX (compressed and stored pages) and SNA files must be read to the same state. bin2sna and snapmod runs with generated --reg/--state/--poke/--move/--patch specs are compared with a small reference of the documented option grammar, including preservation of uninterpreted header bytes and SZX blocks.',
    'level_note': 'The RLE part is exhaustive for the stated finite space; whole snapshots and option specs are sampled. T-state positions are compared modulo the frame length. Attributes a format cannot store are not compared (see assumptions). The order patch/move/poke across option kinds is assumed as implemented.',
}
