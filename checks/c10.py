"""C10 - saving a snapshot mid-run and resuming from it is transparent.

Three real trace.main runs per (program, split): A = -m N -> file;
B1 = -m n1 -> file; B2 = -m (N - n1) from B1's file -> file. A and B2 must hold
the same RAM, registers, interrupt state, border, paging/AY state, frame
position (and MEMPTR for SZX) and print the same "Stopped at" line.
"""
import re

from hypothesis import strategies as st

from vlib.runner import Violation, hyp_run, shard_seed, crash_sig
from vlib import cli, gen_prog

PROPERTY = 'C10'
RULE = ('Hypothesis draws a program (instruction grammar + templates: EI/DI/IM n/HALT waits of k operations before a frame '
        'boundary, LDIR/CPIR/INIR/OTIR in progress, DD/FD chains, OUT to 0xFE/0x7FFD/0xFFFD/0xBFFD, IM 2 vector table), a start '
        'state (registers, IM, IFF, T anywhere incl. just before a frame boundary and beyond 2^24), N operations and a set of split '
        'points n1 (every n1 in 1..N-1 for N <= 14, else up to 12 drawn), format szx/z80, machine 48K/128K, plain/-c, C/--python. '
        'Each (case, split) is one evaluation. Non-trivial: the run crosses a frame boundary with interrupts enabled, or the '
        'program contains a HALT/EI/prefix-chain/block-instruction template; distinct = digest of (case, split).')
ASSUMPTIONS = [
    'the Z80 format cannot store MEMPTR or the value last written to port 0xFE: those are compared for SZX only',
    'snapshots are decoded with skoolkit\'s own reader (the reader/writer pair is checked against an independent decoder in C09)',
]

FIELDS = ('a', 'f', 'bc', 'de', 'hl', 'a2', 'f2', 'bc2', 'de2', 'hl2', 'ix', 'iy', 'sp', 'i', 'r', 'pc', 'border', 'iff1', 'im',
          'tstates', 'out7ffd', 'outfffd', 'ay')

FILL = st.lists(st.sampled_from([0x00, 0x3C, 0x04, 0x23, 0x0B, 0xA7]), min_size=2, max_size=30)


@st.composite
def templates(draw, org, frame, kind=None, pb_v=None):
    kind = kind or draw(st.sampled_from(['halt', 'halt', 'haltb', 'block', 'prefix', 'out', 'ay', 'im2', 'ei']))
    if kind == 'ay' and frame != 70908:
        kind = 'prefix'       # the AY chip (and its state in snapshots) is documented for 128K machines only
    t = None
    if kind == 'haltb':
        # HALT next to a contended/uncontended boundary, entered during the display period
        pre = draw(st.sampled_from([[0xFB], [0xF3], [0xFB, 0x00]]))
        code = pre + [0x76] + draw(FILL)
        t = draw(st.integers(14300, 57000))
        return 'haltb:%d' % draw(st.sampled_from([0x7FFF, 0x7FFE, 0x8000, 0x4000])), code, t
    if kind == 'halt':
        # EI: HALT - the wait lasts k HALT operations before the frame boundary
        k = draw(st.integers(1, 40))
        pre = draw(st.sampled_from([[0xFB], [0xF3], [0xED, 0x56, 0xFB], [0xED, 0x46, 0xFB]]))
        code = pre + [0x76] + draw(FILL)
        t = frame - 4 * k - 4 * len(pre) - draw(st.integers(0, 3))
    elif kind == 'block':
        n = draw(st.integers(1, 40))
        op = draw(st.sampled_from([0xB0, 0xB8, 0xB1, 0xB9, 0xB2, 0xBA, 0xB3, 0xBB]))
        # (block I/O: port B:FE, or on 128K B:FD - a paging write by OUTI/OTIR & co.)
        lo = 0xFE if frame != 70908 else draw(st.sampled_from([0xFE, 0xFD, 0xFD]))
        code = [0x21, 0x00, 0x90, 0x11, 0x00, 0xA0, 0x01, n if op & 2 == 0 else lo, 0 if op & 2 == 0 else n, 0xED, op] + draw(FILL)
    elif kind == 'prefix':
        code = draw(st.lists(st.sampled_from([0xDD, 0xFD]), min_size=2, max_size=8)) + draw(st.sampled_from([[0x21, 0x34, 0x12], [0x00], [0xCB, 0x05, 0x06], [0xE5]])) + draw(FILL)
    elif kind == 'out':
        code = []
        for _ in range(draw(st.integers(1, 4))):
            # (AY ports only on 128K machines: F51)
            port = draw(st.sampled_from([0x00FE, 0x7FFD, 0xFFFD, 0xBFFD, 0x7FFE, 0x1FFD] if frame == 70908 else [0x00FE, 0x7FFD, 0x7FFE, 0x1FFD, 0x00FF]))
            v = draw(st.sampled_from([0, 1, 5, 7, 0x10, 0x17, 0x20, 0xFF]) | st.integers(0, 255))
            code += [0x01, port & 255, port >> 8, 0x3E, v, 0xED, 0x79]
        code += draw(FILL)
    elif kind == 'pageblk':
        # a block OUT (OUTI/OUTD/OTIR/OTDR) that pages another bank in, then reads of 0xC000+ during the display period:
        # whether those reads are contended depends on the bank the block OUT selected
        v = pb_v
        op = draw(st.sampled_from([0xA3, 0xAB, 0xB3, 0xBB]))
        code = [0x21, (org + 24) & 255, ((org + 24) >> 8) & 255, 0x01, 0xFD, 0x01, 0xED, op] + [0x3A, 0x00, 0xC1] * 4 + [0x00] * 4 + [v, v, v]
        t = draw(st.integers(14400, 50000))
    elif kind == 'ay':
        # select an AY register (or none: values >= 16 deselect), then - possibly in the other leg - write the data
        # port and read the register port back into memory
        v1 = draw(st.sampled_from([0, 7, 15, 16, 23, 31, 0x80, 0xFF]) | st.integers(0, 255))
        code = [0x01, 0xFD, 0xFF, 0x3E, v1, 0xED, 0x79] + draw(FILL) + [0x06, 0xBF, 0x3E, draw(st.integers(0, 255)), 0xED, 0x79,
                                                                        0x06, 0xFF, 0xED, 0x78, 0x32, 0x00, 0x90] + draw(FILL)
    elif kind == 'im2':
        # I = 0x90: vector at 0x90FF -> handler at org + 0x40 (EI: RET)
        code = [0x3E, 0x90, 0xED, 0x47, 0xED, 0x5E, 0xFB] + draw(FILL) + [0x76] + draw(FILL)
        t = frame - draw(st.integers(4, 200))
    else:
        code = draw(st.lists(st.sampled_from([[0xFB], [0xF3], [0xFB, 0x00], [0xFB, 0xFB], [0xFB, 0xDD, 0xFD, 0x00]]), min_size=1, max_size=4))
        code = [b for part in code for b in part] + draw(FILL)
        t = frame - draw(st.integers(1, 60))
    return kind, code, t


@st.composite
def cases(draw, tier):
    machine = draw(st.sampled_from(['48K', '48K', '128K']))
    frame = 70908 if machine == '128K' else 69888
    org = draw(st.sampled_from([0x8000, 0x8000, 0x6000, 0xC000, 0x7FF0]))
    parts = []
    kinds = []
    t_hint = None
    # a dedicated shape (128K): the paging block OUT first, during the display period, selecting a bank whose contention
    # differs from the one paged in at the start, and few enough operations for every split point to be tried
    pb = machine == '128K' and draw(st.integers(0, 7)) == 0
    pb_v = draw(st.sampled_from([0x00, 0x01, 0x03, 0x06, 0x11, 0x07]))
    if pb:
        org = draw(st.sampled_from([0x8000, 0x6000]))
    for i in range(draw(st.integers(1, 3))):
        if pb and i == 0:
            k, code, t = draw(templates(org, frame, 'pageblk', pb_v))
            kinds.append(k)
            parts.append(code)
            t_hint = t
        elif draw(st.integers(0, 2)):
            k, code, t = draw(templates(org, frame))
            if k.startswith('haltb:'):
                if not parts:
                    # place the HALT instruction itself at the boundary address
                    org = (int(k[6:]) - (len(code) - len(code[code.index(0x76):]))) & 0xFFFF
                k = 'haltb'
            kinds.append(k)
            parts.append(code)
            if t is not None and t_hint is None and not parts[:-1]:
                t_hint = t
        else:
            kinds.append('prog')
            parts.append(draw(gen_prog.program(org, 10)))
    code = [b for p in parts for b in p]
    if t_hint is not None and (pb or draw(st.integers(0, 3))):
        tstates = t_hint % frame
    else:
        tstates = draw(gen_prog.frame_times(frame))
    tstates += frame * draw(st.sampled_from([0, 0, 1, 240, 241]))       # 240 frames > 2^24 T-states
    # 'long' runs: enough operations (a HALT wait counts one per 4 T-states) for the leg after the split to reach the
    # next frame interrupt from any frame position, so that a frame position that is saved or restored wrongly shows
    # up as an interrupt accepted at the wrong time even when it is wrong in the same way in both runs' final files
    long_run = 0 if pb else draw(st.sampled_from([0, 0, 0, 1]))
    if pb:
        N = draw(st.integers(8, 14))
        splits = list(range(1, N))
    elif long_run:
        N = draw(st.integers(2000, 20000))
        splits = sorted(set(draw(st.lists(st.integers(1, N - 1), min_size=1, max_size=4 if tier == 'quick' else 12))))
    else:
        N = draw(st.integers(2, 60 if tier == 'quick' else 3000))
        if N <= 14:
            splits = list(range(1, N))
        else:
            splits = sorted(set(draw(st.lists(st.integers(1, N - 1), min_size=1, max_size=12 if tier == 'quick' else 60))))
    regs = draw(gen_prog.registers())
    regs['SP'] = draw(st.sampled_from([0xFF00, 0x5C00, 0xBFFE, 0x4002, 0x4001, 0x4000, 0x3FFF, 0x0002, 0x0000]))      # incl. pushes into ROM and across the ROM/RAM boundary
    regs['I'] = draw(st.sampled_from([0x3F, 0x90, 0x40, 0x00]))
    force = 'pageblk' in kinds          # contention after a paging block OUT: the contended simulators, mostly the Python one
    return {
        'machine': machine, 'org': org, 'code': code, 'kinds': kinds,
        'fill_seed': draw(st.integers(0, 2 ** 32 - 1)), 'fill_style': draw(st.sampled_from([0, 0, 1])),
        'regs': regs, 'im': draw(st.integers(0, 2)), 'iff': 1 if long_run else draw(st.integers(0, 1)), 'tstates': tstates,
        'border': draw(st.integers(0, 7)), 'o7ffd': ((pb_v ^ 1) & 0x17 if pb and draw(st.integers(0, 3)) else draw(st.sampled_from([0, 0x10, 7, 0x11]))) if machine == '128K' else 0,
        'N': N, 'splits': splits, 'fmt': draw(st.sampled_from(['szx', 'z80'])), 'start_fmt': draw(st.sampled_from(['szx', 'z80'])),
        'cmio': True if force else draw(st.booleans()),
        # an interrupt routine of several instructions, so that split points fall between acceptance and return
        'isr': draw(st.sampled_from([None, [0x14, 0x1C, 0x04, 0xFB, 0xC9], [0xF5, 0x3C, 0xF1, 0xFB, 0xC9], [0x00, 0x00, 0xFB, 0xED, 0x4D]])),
        'python': draw(st.sampled_from([True, True, False])) if force else (draw(st.sampled_from([False, False, False, True])) if tier == 'quick' else draw(st.booleans())),
    }


def write_start(s, case):
    from skoolkit.snapshot import write_snapshot
    org, code = case['org'], case['code']
    if case['machine'] == '128K':
        raw = gen_prog.fill_bytes(case['fill_seed'], 0x20000, case['fill_style'])
        banks = [list(raw[i * 0x4000:(i + 1) * 0x4000]) for i in range(8)]
        page = case['o7ffd'] & 7
        for k, b in enumerate(code):
            a = (org + k) & 0xFFFF
            if a >= 0x4000:
                banks[(5, 2, page)[(a >> 14) - 1]][a & 0x3FFF] = b
        # IM 2 vector table entry at 0x90FF -> org + 0x40 (whatever lies there), or -> an explicit handler at org + 0x100
        ram = banks
        isr_at = (org + (0x100 if case.get('isr') else 0x40)) & 0xFFFF
        for k, b in enumerate(case.get('isr') or ()):
            _poke128(banks, page, (isr_at + k) & 0xFFFF, b)
        _poke128(banks, page, 0x90FF, isr_at & 255)
        _poke128(banks, page, 0x9100, (isr_at >> 8) & 255)
    else:
        mem = gen_prog.fill_bytes(case['fill_seed'], 0x10000, case['fill_style'])
        for k, b in enumerate(code):
            mem[(org + k) & 0xFFFF] = b
        isr_at = (org + (0x100 if case.get('isr') else 0x40)) & 0xFFFF
        for k, b in enumerate(case.get('isr') or ()):
            mem[(isr_at + k) & 0xFFFF] = b
        mem[0x90FF] = isr_at & 255
        mem[0x9100] = (isr_at >> 8) & 255
        ram = list(mem[0x4000:])
    registers = ['%s=%d' % (k.lower(), v) for k, v in case['regs'].items()] + ['pc=%d' % case['org']]
    state = ['im=%d' % case['im'], 'iff=%d' % case['iff'], 'tstates=%d' % case['tstates'], 'border=%d' % case['border']]
    if case['machine'] == '128K':
        state.append('7ffd=%d' % case['o7ffd'])
    # the start file's format is drawn independently of the format under test, so that a defect of one writer cannot
    # move the start state out of the region where the same defect would show at the split
    fname = s.path('start.' + case.get('start_fmt', 'szx'))
    write_snapshot(fname, ram, registers, state, case['machine'])
    return fname


def _poke128(banks, page, addr, v):
    if addr >= 0x4000:
        banks[(5, 2, page)[(addr >> 14) - 1]][addr & 0x3FFF] = v


def run_trace(s, case, infile, n, outname):
    argv = ['-m', n]
    if case['cmio']:
        argv.append('-c')
    if case['python']:
        argv.append('--python')
    out = s.path(outname)
    r = cli.run('trace', argv + [infile, out])
    if r.exc is not None:
        raise Violation(crash_sig(r.exc, 'trace'), 'trace.py -m %d raised %r' % (n, r.exc), case)
    if not r.ok:
        raise Violation('trace-exit', 'trace.py exited %r: %s' % (r.code, r.err[-200:]), case)
    m = re.search(r'^Stopped at [^:\n]*', r.out, re.M)     # the address; the operation count is per leg
    return out, (m.group(0) if m else None)


def decode(path):
    from skoolkit.snapshot import Snapshot
    sn = Snapshot.get(path)
    d = {k: getattr(sn, k) for k in FIELDS}
    d['ay'] = list(d['ay'])
    if path.endswith('.szx'):
        d['memptr'] = sn.memptr
        d['outfe'] = sn.outfe
    d['ram'] = bytes(sn.ram(-1))
    return d


def oracle(case, rec=None):
    frame = 70908 if case['machine'] == '128K' else 69888
    with cli.Scratch('c10-') as s:
        start = write_start(s, case)
        fmt = case['fmt']
        a_file, a_stop = run_trace(s, case, start, case['N'], 'a.' + fmt)
        A = decode(a_file)
        for n1 in case['splits']:
            sub = dict(case, splits=[n1])
            b1_file, _ = run_trace(s, sub, start, n1, 'b1.' + fmt)
            b2_file, b_stop = run_trace(s, sub, b1_file, case['N'] - n1, 'b2.' + fmt)
            B = decode(b2_file)
            for k in A:
                va, vb = A[k], B[k]
                if k == 'tstates':
                    va, vb = va % frame, vb % frame
                if va != vb:
                    if k == 'ram':
                        bad = [i for i in range(len(va)) if va[i] != vb[i]][:4]
                        detail = 'RAM differs at offsets %r' % bad
                    else:
                        detail = '%s: %r (uninterrupted) vs %r (saved after %d operations and resumed)' % (k, va, vb, n1)
                    sig = 'resume:%s' % k
                    if k == 'tstates' and case['cmio'] and _saved_at_halt(b1_file, case):
                        sig = 'resume:tstates:cmio-saved-inside-halt'
                    elif case['cmio'] and _saved_at_halt(b1_file, case):
                        # a later consequence of the same shift (e.g. the frame interrupt accepted one HALT operation
                        # earlier or later in a long run): F7 only if the frame position is already off after the
                        # very first operation of the resumed leg
                        c1_file, _ = run_trace(s, sub, start, n1 + 1, 'c1.' + fmt)
                        c2_file, _ = run_trace(s, sub, b1_file, 1, 'c2.' + fmt)
                        if decode(c1_file)['tstates'] % frame != decode(c2_file)['tstates'] % frame:
                            sig = 'resume:tstates:cmio-saved-inside-halt'
                            detail += ' (frame position already differs one operation after the split)'
                    if case['machine'] == '48K' and _ay_state_lost_on_48k(s, sub, start, n1, b1_file, case['N']):
                        sig += ':48k-ay-state'
                    raise Violation(sig, '%s %s %s%s: %s' % (case['machine'], fmt, '-c ' if case['cmio'] else '', '--python' if case['python'] else 'C', detail), sub)
            if a_stop != b_stop:
                raise Violation('resume:stop-line', 'stdout %r vs %r (split %d)' % (a_stop, b_stop, n1), sub)
            if rec is not None:
                crosses = (case['tstates'] % frame) + 4 * case['N'] >= frame or A['tstates'] % frame < case['tstates'] % frame
                nt = (crosses and case['iff']) or any(k != 'prog' for k in case['kinds'])
                klass = ['%s:%s%s' % (case['machine'], fmt, ':cmio' if case['cmio'] else ''), 'python' if case['python'] else 'C'] + ['tpl:' + k for k in set(case['kinds'])]
                if case['tstates'] >= 2 ** 24:
                    klass.append('T>=2^24')
                if case['N'] >= 2000:
                    klass.append('long-run')
                rec.case((_key(case), n1), nt, klass, _sample(case, n1))


def _saved_at_halt(b1_file, case):
    """True if the intermediate snapshot was taken with PC on a HALT instruction in RAM (inside a HALT wait)."""
    b1 = decode(b1_file)
    pc = b1['pc']
    if pc < 0x4000:
        return False
    ram = b1['ram']
    if len(ram) == 0xC000:
        return ram[pc - 0x4000] == 0x76
    page = (5, 2, b1['out7ffd'] & 7)[(pc >> 14) - 1]
    return ram[page * 0x4000 + (pc & 0x3FFF)] == 0x76


def _key(case):
    return repr(sorted((k, v) for k, v in case.items() if k != 'splits'))


def _sample(case, n1):
    c = {k: v for k, v in case.items() if k not in ('splits',)}
    c['code'] = ' '.join('%02X' % b for b in case['code'][:40])
    c['split'] = n1
    return c


def plan(tier, seed):
    n = 2400 if tier == 'quick' else 40000
    nsh = 16 if tier == 'quick' else 64
    return [{'kind': 'hyp', 'tier': tier, 'n': n // nsh, 'seed': shard_seed(seed, PROPERTY, i)} for i in range(nsh)]


def run_shard(shard, rec):
    hyp_run(rec, cases(shard['tier']), lambda c: oracle(c, rec), shard['n'], shard['seed'])


def replay(case):
    oracle(case)


def _ay_state_lost_on_48k(s, sub, start, n1, b1_file, N):
    """Classification aid for F51 (used only after a mismatch on a 48K case): True if the first leg ends with AY state
    in trace.py's tracer (a register selected or written - wherever the program wandered, including ROM and filler
    code) and the second leg reads the AY register port."""
    import skoolkit.trace as tr
    seen = {}
    orig_init, orig_read = tr.Tracer.__init__, tr.Tracer.read_port

    def init(self, *a, **k):
        orig_init(self, *a, **k)
        seen['tracer'] = self

    def read(self, registers, port):
        if port & 0xC002 == 0xC000:
            seen['read'] = True
        return orig_read(self, registers, port)
    tr.Tracer.__init__, tr.Tracer.read_port = init, read
    try:
        run_trace(s, sub, start, n1, 'd1.szx')
        t = seen.get('tracer')
        lost = t is not None and bool(t.outfffd or any(t.ay))
        seen.pop('read', None)
        run_trace(s, sub, b1_file, N - n1, 'd2.szx')
        return bool(lost and seen.get('read'))
    finally:
        tr.Tracer.__init__, tr.Tracer.read_port = orig_init, orig_read


def known_class(sig, case):
    # F51: trace.py emulates the AY register port 0xFFFD on every machine, but a 48K snapshot carries no AY state: a
    # 48K program that selects an AY register and reads it back after the split sees a different value.
    # (decided by what the two legs actually did - see _ay_state_lost_on_48k - not by the shape of the program)
    if sig.startswith('resume:') and sig.endswith(':48k-ay-state'):
        return 'F51'
    if sig.startswith('resume:tstates:cmio-saved-inside-halt'):
        return 'F7'
    # F7: neither snapshot format carries the HALT flag (and from_snapshot does not restore it). With -c the
    # contended simulators put PC+1 on the bus while halted but PC when a HALT is (re-)entered, so a run
    # resumed from a snapshot taken inside a HALT wait next to a contention boundary ends a few T-states off.
    if sig == 'resume:tstates:cmio-saved-inside-halt':
        return 'F7'
    return None


MANIFEST_ENTRY = {
    'technique': 'metamorphic relation through the real CLI: one trace.py run of N operations vs a run split at n1 by writing and re-reading a snapshot, over Hypothesis-generated programs, states and split points',
    'level_text': 'For each generated program/state, trace.main is run for N operations and, for every split point (all of them for N <= 14, otherwise up to 12 drawn), for n1 operations to a snapshot and N-n1 more from that snapshot; the final snapshots must agree on RAM (all banks), all registers, IFF/IM, border, 0x7FFD/0xFFFD/AY, frame position (and MEMPTR/0xFE for SZX) and the stop line; formats szx/z80, 48K/128K, plain and -c, C and --python, with HALT waits, EI, prefix chains, block instructions (incl. block OUTs that page memory), port writes, AY registers and IM 2 (ROM and explicit handlers) around the split; one run in four is long enough (2000-20000 operations) to reach the next frame interrupt after the split.',
    'level_note': 'Run length bounded (N <= 60 or 2000-20000 quick, <= 3000 or 2000-20000 thorough; up to 12/60 split points per long run). Snapshots are decoded with skoolkit\'s own reader, whose agreement with an independent decoder is C09\'s subject.',
}
