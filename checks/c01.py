"""C01 - disassembly is lossless: sna2skool output reassembles to the original bytes.

Round trip through the real command entry points:
    sna2skool.main(bin + ctl + options) -> skool text -> skool2bin.main -> bytes
and every original byte outside ignored blocks must come back.
"""
from hypothesis import strategies as st

from vlib.runner import Violation, hyp_run, shard_seed, crash_sig
from vlib import cli, gen_skool

PROPERTY = 'C01'
RULE = ('Hypothesis draws a memory image (random/prefix-heavy/text incl. quote, backslash, ^, `, DEL and bit-7 characters/'
        'equal-byte runs/code-like/word segments; placed at 0, in RAM, mid-memory or ending at 65536), sna2skool options '
        '(-H, -l, -w, DefbSize, DefmSize, DefwSize, Opcodes, Wrap, -r with RSTHandlerConfig) and a constructive control '
        'file (b/c/g/s/t/u/w/i blocks; B/C/S/T/W sub-blocks; sublength lists with b/c/d/h/m/n and two-letter prefixes; * '
        'multipliers; M and L directives) or no control file. Non-trivial: the control file has a non-default base or a '
        'sublength list, or the image contains an instruction with a numeric operand under a non-default option; '
        'distinct = digest of (bytes, ctl, options).')
ASSUMPTIONS = [
    'base m is generated only where a signed operand is meaningful: 8/16-bit immediate data (LD r,n; ALU n; LD (HL),n; LD rr,nn), DEFB/DEFM/DEFW items and the DEFS fill value',
    'S sub-blocks are generated only over runs of equal bytes (DEFS cannot express anything else)',
    'a case whose control file makes sna2skool print a warning is outside the precondition (counted, not judged)',
]


@st.composite
def cases(draw, tier):
    start, data = draw(gen_skool.images(300 if tier == 'quick' else 3000))
    o = draw(gen_skool.options())
    mode = draw(st.sampled_from(['ctl', 'ctl', 'ctl', 'none']))
    case = {'start': start, 'data': bytes(data).hex(), 'opts': o, 'ctl': None, 'ignored': []}
    if mode == 'ctl':
        lines, info = draw(gen_skool.plans(start, data, o))
        case['ctl'] = '\n'.join(lines) + '\n'
        case['ignored'] = info['ignored']
        case['_info'] = {k: info[k] for k in ('bases', 'lists', 'M', 'L', 'm')}
    return case


def oracle(case, rec=None):
    data = bytes.fromhex(case['data'])
    start = case['start']
    end = start + len(data)
    o = case['opts']
    with cli.Scratch('c01-') as s:
        binf = s.write('in.bin', data)
        ini = gen_skool.ini_text(o)
        if ini:
            s.write('skoolkit.ini', ini)
            cli.reset_config()
        argv = gen_skool.sna2skool_argv(o) + ['-o', start]
        if case['ctl'] is not None:
            argv += ['-c', s.write('in.ctl', case['ctl'])]
        else:
            argv += ['-c', '0']
        r = cli.run('sna2skool', argv + [binf])
        if r.exc is not None:
            raise Violation(crash_sig(r.exc, 'sna2skool'), 'sna2skool raised %r' % r.exc, case)
        if not r.ok:
            raise Violation('sna2skool-exit', 'sna2skool exited %r: %s' % (r.code, r.err[-300:]), case)
        if r.warnings() and case['ctl'] is not None:
            if rec is not None:
                rec.note('precondition:sna2skool-warning')
            return 'precondition'
        skf = s.write('out.skool', r.out)
        r2 = cli.run('skool2bin', ['-S', start, '-E', end, '-I', 'PadLeft=%d' % start, '-I', 'PadRight=%d' % end, skf, s.path('out.bin')])
        if r2.exc is not None:
            msg = str(r2.exc)
            if 'Failed to assemble' in msg:
                import re
                op = msg.split('\n')[-1].strip().split(' ', 1)[-1]
                shape = re.sub(r'[$%]?[0-9A-Fa-f]+\b|"[^"]*"', 'N', op.upper())
                raise Violation('skool2bin-rejects:' + shape[:40], 'skool2bin cannot assemble sna2skool output: %s' % msg.split('\n')[-1].strip(), case)
            raise Violation(crash_sig(r2.exc, 'skool2bin'), 'skool2bin raised %r on sna2skool output' % r2.exc, case)
        if not r2.ok:
            msg = r2.err.strip().split('\n')[-1][:200]
            sig = 'skool2bin-rejects'
            if 'Failed to assemble' in msg:
                import re
                m = re.search(r'-\$?0*(256|65536|100|10000)\b', msg)
                sig = 'skool2bin-rejects:assemble' + (':minus-zero' if m else '')
            raise Violation(sig, 'skool2bin failed on sna2skool output: %s' % msg, case)
        got = s.read('out.bin', True)
    ignored = case.get('ignored') or []
    if len(got) > len(data):
        raise Violation('length', 'skool2bin wrote %d bytes for a %d-byte range' % (len(got), len(data)), case)
    for i in range(len(data)):
        # bytes after the last converted instruction are not written: fine only inside an ignored block
        if i >= len(got) or got[i] != data[i]:
            a = start + i
            if any(x <= a < y for x, y in ignored):
                continue
            line = ''
            for l in r.out.split('\n'):
                if l[1:6].strip().isdigit() or l[1:2] == '$':
                    try:
                        la = int(l[2:6], 16) if l[1] == '$' else int(l[1:6])
                    except ValueError:
                        continue
                    if la <= a:
                        line = l
            raise Violation('byte-mismatch', 'address %d: original %d, reassembled %s; skool line: %r' % (a, data[i], got[i] if i < len(got) else 'nothing', line[:80]), case)
    if rec is not None:
        info = case.get('_info') or {}
        nt = bool(info.get('bases') or info.get('lists')) or o['hex'] or o['lower'] or bool(o['opcodes']) or o['rst']
        klass = ['ctl' if case['ctl'] is not None else 'no-ctl']
        for k in ('M', 'L', 'm', 'lists', 'bases'):
            if info.get(k):
                klass.append('ctl:' + k)
        if o['rst']:
            klass.append('opt:rst')
        if o['wrap']:
            klass.append('opt:wrap')
        if start + len(data) == 65536:
            klass.append('ends-at-64K')
        rec.case((case['data'], case['ctl'], repr(sorted(o.items()))), nt, klass,
                 {'start': start, 'len': len(data), 'opts': o, 'ctl': (case['ctl'] or '')[:400]})
    return 'ok'


def plan(tier, seed):
    n = 12000 if tier == "quick" else 200000
    nsh = 16 if tier == 'quick' else 64
    return [{'kind': 'hyp', 'tier': tier, 'n': n // nsh, 'seed': shard_seed(seed, PROPERTY, i)} for i in range(nsh)]


def run_shard(shard, rec):
    hyp_run(rec, cases(shard['tier']), lambda c: oracle(c, rec), shard['n'], shard['seed'])


def replay(case):
    oracle(case)


def known_class(sig, case):
    return None


MANIFEST_ENTRY = {
    'technique': 'round-trip property (sna2skool -> skool2bin) over Hypothesis-generated images, options and constructive control files',
    'level_text': 'Each generated (image, control file, options) is pushed through the real sna2skool.main and skool2bin.main and every original byte outside ignored blocks must be reproduced; the control-file generator tiles the range into statements first, so its directives are well formed by construction (block/sub-block types, sublength lists with every base prefix, multipliers, M and L directives), and images include 64K-boundary and Wrap cases.',
    'level_note': 'Inputs are sampled (20-300 bytes quick, up to 3000 thorough), not enumerated. The generator asks the disassembler for instruction lengths to place C sub-blocks (the property\'s precondition). Base m is restricted as stated in the assumptions.',
}
