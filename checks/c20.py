"""C20 - RZX playback is reproducible, implementation-independent and resumable.

A harness-side *recorder* drives one of skoolkit's simulators by T-states (not
fetch counts): it runs instructions until T >= frame length, counts the M1
cycles of every instruction by opcode class, logs the values its tracer returned
for port reads, applies the frame-end rule (IFF set => interrupt accepted, HALT
released) itself on the register/memory arrays, and restarts T at 0. The frames
are written as RZX 0.13 bytes by ref/rzxref.py with embedded snapshots encoded by
ref/snapdec.py (neither imports skoolkit). Oracles:

 (1) rzxplay.main([--no-screen --quiet ... file out.szx|out.z80]) ends without
     error and the dumped machine state equals the recorder's final state;
 (2) the C and Python players (and, when the program never executes the one
     MEMPTR-dependent instruction BIT n,(HL), the plain and --cmio players) agree;
 (3) rzxplay --stop k in.rzx part.rzx: part.rzx (parsed with rzxref) holds exactly
     the remaining frames and a snapshot equal to the recorder's state at that
     frame boundary, and playing it to the end gives the state of uninterrupted
     playback - for both embedded snapshot formats;
 (4) rzxinfo --frames prints exactly the recorded frame count, fetch counters,
     IN counters and (first ten) port readings of every frame.
"""
import hashlib
import random
import re

from hypothesis import strategies as st

from vlib.runner import Violation, hyp_run, shard_seed, crash_sig
from vlib import cli, gen_prog
from ref import rzxref, snapdec

PROPERTY = 'C20'
CASE_CPU_LIMIT_S = 180       # a recording is a few frames: seconds of CPU at most
RULE = ('Hypothesis draws a machine (48K/128K/+2), a main program closed by a jump back - either a mix of up to 20 (36 thorough) '
        'RZX-specific snippets (IN forms, HALT, EI/DI, IM 0/1/2 with a vector table, LD A,I/R, LD R,A, prefix chains, paging/AY/border '
        'OUTs, counted loops dense in those, delay loops, LDIR) or a short dense loop of the instructions the frame-end rules look '
        'at - optionally salted with "wild" pieces (gen_prog instructions/templates/raw bytes, RET/RST, stack and I changes), an IM 2 '
        'handler, background memory, registers, IFF/IM, initial T, the port value stream (constant / per-frame pattern / random), '
        '1..12 frames (<=60 thorough) whose T lengths are the real frame duration or a drawn cycle of short lengths (100..6000 T), '
        'the recording convention (playback flags 1 and 2), 1-3 input recording blocks each preceded by a snapshot (flag 4 on/off), '
        'snapshot encodings (z80 v1/v2/v3 rle/raw, szx compressed or not), RZX block compression, repeated-frame markers, an unknown '
        'block, and the recorder implementation (C/Python, plain/contended). Every recording is played by the C player in both '
        'embedded formats, a third also by the Python player, stopped at every frame k (all k for <= 12 frames, <= 6 drawn k otherwise) '
        'and resumed. Non-trivial: >= 3 frames, >= 1 port reading and >= 1 accepted interrupt; distinct = digest of the case.')
ASSUMPTIONS = [
    'frame-end convention (rzxplay documentation, --flags help): an interrupt is accepted at the start of every frame except the first '
    'whenever IFF is set, whatever the last instruction was; a HALTed CPU is released (PC moves past the HALT); the same rule is applied '
    'after the last frame of the recording (rzxplay does so before dumping)',
    'IM 0 and IM 1 both vector to 0x0038 (13 T); IM 2 reads the vector at I*256+255 (bus value 0xFF, 19 T); pushes to ROM addresses are dropped',
    'flag 1 recordings: the recorder resets bit 2 of F when the interrupt follows LD A,I / LD A,R; flag 2 recordings: after a frame that '
    'ends on EI the recorder emits a one-instruction frame (fetch counter 1 or 2) without accepting the interrupt, and never ends a '
    'recording or an input recording block on a frame that ends on EI (the documentation does not say what happens there)',
    'plain and --cmio playback are compared (T-states and MEMPTR aside) only for recordings that never execute BIT n,(HL), whose flag bits 3 '
    'and 5 come from MEMPTR (modelled by the contended simulators only); a .z80 snapshot cannot carry MEMPTR or the last OUT to 0xFE, so '
    '--cmio resumption through .z80 is judged only for such recordings and outfe is compared only where the format carries it',
    'T-states of the dumped snapshot are compared with the recorder only for the uncontended players',
    'a frame with fetch counter 0 is never generated (every T-based frame executes at least one instruction)',
]

REAL_FRAME = {'48K': 69888, '128K': 70908, '+2': 70908}
REG16 = ('bc', 'de', 'hl', 'bc2', 'de2', 'hl2', 'ix', 'iy', 'sp', 'pc')
REG8 = ('a', 'f', 'a2', 'f2', 'i', 'r')
CPU_KEYS = REG8 + REG16 + ('iff1', 'iff2', 'im')
MAX_EXTRA_FRAMES = 64


# ---------------------------------------------------------------------------
# Generator
# ---------------------------------------------------------------------------
def _w(a):
    return [a & 255, (a >> 8) & 255]


_byte = gen_prog.byte
_small = st.integers(1, 6)
_count = st.one_of(st.integers(1, 12), st.integers(1, 255))

SAFE_PIECES = [
    # port reads
    [0xDB, 0xFE], [0xDB, 0x1F], [0xDB, 0xFF], [0xED, 0x78], [0xED, 0x40], [0xED, 0x50], [0xED, 0x70], [0xED, 0x68],
    [0xED, 0xA2], [0xED, 0xAA], [0x3E, 0xFE, 0xDB, 0xFE], [0x01, 0xFE, 0x7F, 0xED, 0x78], [0x01, 0xFE, 0xFE, 0xED, 0x48],
    # HALT / EI / DI / IM
    [0x76], [0xFB], [0xF3], [0xFB, 0x76], [0xFB, 0x76], [0xFB, 0x76], [0xFB, 0x00, 0x76], [0xDD, 0x76], [0xFD, 0xFB],
    [0xFB, 0xFB], [0xFB, 0xF3], [0xED, 0x46], [0xED, 0x56], [0xED, 0x56, 0xFB], [0xED, 0x4E], [0xED, 0x76], [0xED, 0x66],
    # LD A,I / LD A,R / LD R,A
    [0xED, 0x57], [0xED, 0x5F], [0xED, 0x57, 0xF5, 0xF1], [0xED, 0x5F, 0xF5, 0xC1], [0xED, 0x57, 0xE2, 0x00, 0x00], [0xED, 0x4F],
    # prefixes
    [0xDD], [0xFD], [0xDD, 0xFD], [0xDD, 0xDD, 0xFD, 0x23], [0xFD, 0xDD, 0xCB, 0x01, 0x06], [0xDD, 0xED, 0x4F], [0xFD, 0xED, 0x57],
    [0xDD, 0xCB, 0x00, 0x46], [0xFD, 0xCB, 0xFF, 0xC6], [0xCB, 0x46], [0xCB, 0x7E], [0xCB, 0x47], [0xDD, 0x00], [0xFD, 0x3C],
    [0xDD, 0x7E, 0x00], [0xFD, 0x34, 0x02], [0xDD, 0x24], [0xDD, 0xFB], [0xFD, 0xF3],
    # port writes
    [0xD3, 0xFE], [0x3C, 0xD3, 0xFE], [0x3E, 0x02, 0xD3, 0xFE],
    [0x01, 0xFD, 0x7F, 0x3E, 0x10, 0xED, 0x79], [0x01, 0xFD, 0x7F, 0x3E, 0x17, 0xED, 0x79],
    [0x01, 0xFD, 0x7F, 0x3E, 0x13, 0xED, 0x79], [0x01, 0xFD, 0x7F, 0x3E, 0x31, 0xED, 0x79], [0x3E, 0x11, 0xD3, 0xFD],
    [0x01, 0xFD, 0xFF, 0x3E, 0x07, 0xED, 0x79, 0x01, 0xFD, 0xBF, 0x3E, 0x38, 0xED, 0x79],
    [0x01, 0xFD, 0xFF, 0x3E, 0x0E, 0xED, 0x79, 0x06, 0xBF, 0xED, 0x51],
    # register / memory effects
    [0xF5, 0xF1], [0xC5, 0xC1], [0xE5, 0xD1], [0x34], [0x35], [0x77], [0x23], [0x3C], [0x04], [0x0C], [0x08], [0xD9], [0x87], [0x2F],
    [0xED, 0xA0], [0xED, 0xA1], [0xED, 0x44], [0xED, 0x6F], [0xCB, 0x06], [0x06, 0x03, 0xED, 0xB3],
    [0xCD, 0x38, 0x00],
]

WILD_FIXED = [[0xED, 0x47], [0xED, 0x5E], [0xC9], [0xED, 0x4D], [0xED, 0x45], [0xFF], [0xC7], [0xF5], [0xF1], [0xE1], [0xED, 0xB0], [0xED, 0xB8],
              [0xED, 0xB1], [0xED, 0xB2], [0xED, 0x79], [0xED, 0x41], [0x01, 0xFD, 0x7F, 0x3E, 0x07, 0xED, 0x79],
              [0x01, 0xFD, 0x7F, 0x3E, 0x00, 0xED, 0x79], [0x01, 0xFD, 0x7F, 0x3E, 0x21, 0xED, 0x79], [0x3E, 0x3B, 0xED, 0x47],
              [0x18, 0xF8], [0x20, 0xF4], [0x10, 0xFC], [0xF3, 0x76], [0x31, 0x00, 0x00], [0x31, 0x02, 0x40], [0xE9], [0xDD, 0xE9]]

LOOP_BODIES = [
    [0xED, 0x57, 0xED, 0x5F], [0xED, 0x57, 0xF5, 0xF1], [0xED, 0x57], [0xED, 0x5F, 0xFB], [0xFB, 0x00, 0xFB], [0xFB], [0xFB, 0xFB, 0x3C],
    [0xFB, 0x76], [0xFB, 0x76, 0xF3], [0xDD, 0xFD, 0xDD, 0x23], [0xDD, 0xFD], [0xDD, 0xCB, 0x00, 0x06], [0xFD, 0xCB, 0x01, 0x4E, 0xDD],
    [0xDB, 0xFE, 0xED, 0x78], [0xDB, 0xFE], [0xED, 0x78, 0xFB], [0xED, 0xA2, 0x04], [0xCB, 0x46, 0xF5, 0xF1], [0xED, 0x4F, 0xDD, 0x23],
    [0x3C, 0xD3, 0xFE], [0xED, 0x5F, 0x77, 0x23], [0xED, 0x44, 0xFB, 0xED, 0x57], [0xFD], [0x00], [0xFB, 0xED, 0x57], [0xFB, 0xDD],
    [0xDD, 0xFB], [0xF3, 0xED, 0x57, 0xFB],
]

DENSE_PIECES = [[0xFB], [0xFB], [0xFB], [0xED, 0x57], [0xED, 0x57], [0xED, 0x5F], [0xDD], [0xFD], [0x76], [0x76], [0xDB, 0xFE], [0x00], [0xF3],
                [0x3C], [0xDD, 0x23], [0xCB, 0x46], [0xED, 0x78], [0xF5, 0xF1], [0xED, 0x4F], [0xDD, 0xCB, 0x00, 0x06], [0xD3, 0xFE],
                [0xED, 0x57, 0xF5, 0xF1], [0xFB, 0x76], [0xDD, 0xFB], [0xFD, 0x76], [0xED, 0xA2], [0x06, 0x05, 0x10, 0xFE]]

AFTER_EI = [[0xED, 0x57], [0xDD, 0x23], [0xCB, 0x46], [0x3C], [0xED, 0x78], [0xDD], [0xFB], [0xFB, 0xCB, 0x07], [0x00], [0xFD, 0xCB, 0x00, 0x46],
            [0xED, 0xA2], [0xF5, 0xF1], [0xC9]]

LDIR_SHAPES = [(0x4000, 0x4001, 4000), (0x5800, 0x5801, 700), (0x9000, 0xA000, 4000), (0xC000, 0xE000, 3000), (0x0000, 0xA000, 4000),
               (0xAFFF, 0xAFFE, 3000)]


@st.composite
def _safe_piece(draw, vpage):
    kind = draw(st.sampled_from(['fixed'] * 9 + ['loop'] * 5 + ['im2', 'delay', 'delay', 'ldir', 'lda', 'ldr', 'inir', 'jr', 'ldhl']))
    if kind == 'fixed':
        return draw(st.sampled_from(SAFE_PIECES))
    if kind == 'im2':
        return [0x3E, vpage, 0xED, 0x47, 0xED, 0x5E] + draw(st.sampled_from([[], [0xFB], [0xFB, 0x76]]))
    if kind == 'loop':
        body = draw(st.sampled_from(LOOP_BODIES))
        n = draw(_count if body.count(0x76) == 0 else _small)
        return [0x06, n] + body + [0x10, (-(len(body) + 2)) & 0xFF]
    if kind == 'delay':
        n = draw(st.one_of(st.integers(1, 60), st.integers(1, 3000)))
        return [0x01] + _w(n) + [0x0B, 0x78, 0xB1, 0x20, 0xFB]
    if kind == 'ldir':
        src, dst, mx = draw(st.sampled_from(LDIR_SHAPES))
        n = draw(st.one_of(st.integers(1, 40), st.integers(1, mx)))
        return [0x21] + _w(src) + [0x11] + _w(dst) + [0x01] + _w(n) + [0xED, 0xB8 if dst < src else 0xB0]
    if kind == 'lda':
        return [0x3E, draw(_byte)]
    if kind == 'ldr':
        return [0x3E, draw(_byte), 0xED, 0x4F]
    if kind == 'inir':
        return [0x21] + _w(draw(st.sampled_from([0x5B00, 0x9000, 0xE000]))) + [0x06, draw(st.integers(0, 40)), 0xED, draw(st.sampled_from([0xB2, 0xBA]))]
    if kind == 'ldhl':
        return [draw(st.sampled_from([0x21, 0x11]))] + _w(draw(st.sampled_from([0x9000, 0xA800, 0x7000, 0x4800, 0x5AFF])))
    # jr: conditional/unconditional short forward jump (may land inside the next piece)
    return [draw(st.sampled_from([0x18, 0x20, 0x28, 0x30, 0x38])), draw(st.integers(0, 4))]


@st.composite
def _wild_piece(draw, base):
    kind = draw(st.sampled_from(['instr', 'instr', 'instr', 'template', 'raw', 'fixed', 'fixed']))
    if kind == 'instr':
        return draw(gen_prog.instruction(base))
    if kind == 'template':
        return draw(st.sampled_from(gen_prog._templates()))
    if kind == 'raw':
        return draw(st.lists(st.integers(0, 255), min_size=1, max_size=4))
    return draw(st.sampled_from(WILD_FIXED))


ISR_PIECES = [[0xDB, 0xFE], [0xED, 0x78], [0x3C], [0xD3, 0xFE], [0xED, 0x57], [0xED, 0x5F], [0x08], [0xD9], [0x34], [0xDD], [0xCB, 0x46],
              [0xED, 0xA2], [0xC5, 0xC1], [0xED, 0x56], [0xED, 0x5E], [0xFB], [0xFB, 0x76], [0xDB, 0xFE, 0x2F, 0xE6, 0x1F],
              [0x06, 0x08, 0xED, 0x78, 0x10, 0xFC], [0x01, 0xFD, 0x7F, 0x3E, 0x10, 0xED, 0x79]]
ISR_ENDS = [[0xFB, 0xC9], [0xFB, 0xC9], [0xFB, 0xC9], [0xFB, 0xED, 0x4D], [0xED, 0x45], [0xC9], [0xFB, 0x00, 0xC9],
            [0xC3, 0x38, 0x00], [0xFF, 0xC9], [0xF3, 0xFB, 0xC9]]
SAFE_BASES = {False: [0x8000, 0x8000, 0x6000, 0xBFF0, 0xC000, 0xF000], True: [0x8000, 0x8000, 0x6000, 0x7F80]}
WILD_BASES = [0x8000, 0xC000, 0x5B00, 0xBFF0, 0xFF80, 0x4000]


@st.composite
def cases(draw, tier):
    model = draw(st.sampled_from(['48K', '48K', '48K', '128K', '128K', '+2']))
    is128 = model != '48K'
    wild_max = draw(st.sampled_from([0, 0, 0, 1, 2, 99]))
    wild = wild_max == 99
    if wild:
        base = draw(st.sampled_from(WILD_BASES))
        vpage = draw(st.sampled_from([0xFE, 0xBE, 0x7E, 0x5B, 0x3B, 0x00]))
        vbyte = draw(st.sampled_from([0x81, 0xFD, 0x65, 0xC3, 0x5C]))
    else:
        base = draw(st.sampled_from(SAFE_BASES[is128]))
        vpage = draw(st.sampled_from([0x7C, 0xBC] if is128 else [0x7C, 0xBC, 0xFD]))
        vbyte = draw(st.sampled_from([v for v in (0x65, 0x9A, 0xB5) if not base - 0x100 <= v * 257 <= base + 0x500]))
    conv = draw(st.sampled_from([0, 0, 0, 1, 1, 2, 2, 3, 3]))
    focus2 = False
    if draw(st.sampled_from([False, False, True])) or (conv and draw(st.booleans())):
        # dense: a short loop made of the instructions the frame-end rules care about
        parts = draw(st.lists(st.sampled_from(DENSE_PIECES), min_size=1, max_size=5))
        if conv & 2:
            focus2 = True
            parts = [q for q in parts[:draw(st.integers(0, 2))] if 0x76 not in q]
            for a in draw(st.lists(st.sampled_from(AFTER_EI), min_size=1, max_size=3)):
                parts.insert(draw(st.integers(0, len(parts))), [0xFB] + a)
        if conv & 1:
            parts.insert(draw(st.integers(0, len(parts))), draw(st.sampled_from([[0xFB, 0xED, 0x57], [0xFB, 0xED, 0x5F, 0xF5, 0xF1], [0xED, 0x57, 0xE5, 0xF5, 0xE1, 0x77]])))
    else:
        parts = draw(st.lists(_safe_piece(vpage), min_size=1, max_size=20 if tier == 'quick' else 36))
    for _ in range(draw(st.integers(0, min(wild_max, 12)))):
        parts.insert(draw(st.integers(0, len(parts))), draw(_wild_piece(base)))
    safe_sp = ((base & 0xFF00) - 0x10) & 0xFFFF
    code = list(draw(st.sampled_from([[], [0x31] + _w(safe_sp), [0xFB], [0x3E, vpage, 0xED, 0x47, 0xED, 0x5E, 0xFB]])))
    for p in parts:
        code.extend(p)
    tail = draw(st.sampled_from(['jp', 'jp', 'jp', 'jp', 'halt-loop', 'halt-loop', 'none' if wild else 'jp', 'sp-boundary' if wild else 'halt-loop']))
    if tail == 'sp-boundary' and not focus2:
        # the frame interrupt is accepted with the stack pointer on the ROM/RAM boundary: one byte of the return
        # address is dropped, the other is written
        code += [0x31] + _w(draw(st.sampled_from([0x4001, 0x4001, 0x0001, 0x4002, 0x4000]))) + [0xFB, 0x76, 0xC3] + _w(base)
    elif tail == 'jp' or focus2:
        code += [0xC3] + _w(base)
    elif tail == 'halt-loop':
        code += [0xFB, 0x76, 0xC3] + _w(base)
    isr = []
    for p in draw(st.lists(st.sampled_from(ISR_PIECES), min_size=0, max_size=5)):
        isr.extend(p)
    if isr and draw(st.booleans()):
        isr = [0xF5] + isr + [0xF1]
    isr += draw(st.sampled_from(ISR_ENDS))
    regs = draw(gen_prog.registers())
    im = draw(st.sampled_from([0, 1, 1, 1, 2, 2]))
    if wild:
        regs['SP'] = draw(st.one_of(st.sampled_from([0xFF00, 0x7FFE, 0x5C00, 0xFFFE, 0x0000, 0x4001, 0x4001, 0x4001, 0x0001, 0x4002, 0x4003]), gen_prog.word))
        o7ffd = draw(st.one_of(st.sampled_from([0, 0x10, 0x07, 0x11, 0x17, 0x30]), st.integers(0, 255))) if is128 else 0
    else:
        regs['SP'] = safe_sp
        regs['HL'] = draw(st.sampled_from([0x9000, 0xA800, 0x7000, 0x4800]))
        regs['DE'] = draw(st.sampled_from([0xA000, 0x7800, 0x5000]))
        regs['IX'] = draw(st.sampled_from([0xB000, 0x7400, 0x5AFF]))
        regs['IY'] = 0x5C3A
        if im == 2:
            regs['I'] = vpage
        o7ffd = draw(st.sampled_from([0x10, 0x10, 0x11, 0x13, 0x17, 0x30])) if is128 else 0
    real = REAL_FRAME[model]
    max_frames = 12 if tier == 'quick' else draw(st.sampled_from([12, 12, 30, 60]))
    nframes = draw(st.integers(1, max_frames))
    flen_kind = draw(st.sampled_from(['real', 'real', 'short', 'short', 'short', 'mixed']))
    if flen_kind == 'real':
        flen = []
    else:
        flen = draw(st.lists(st.one_of(st.integers(100, 400), st.integers(100, 6000)), min_size=1, max_size=4))
        if flen_kind == 'mixed':
            flen.append(0)        # 0 = real frame duration
    first = flen[0] if flen and flen[0] else real
    t0 = draw(st.one_of(st.just(0), st.just(0), st.integers(0, first - 1)))
    nblocks = draw(st.sampled_from([1, 1, 1, 2, 3]))
    splits = sorted(set(draw(st.lists(st.integers(1, max(1, nframes - 1)), min_size=nblocks - 1, max_size=nblocks - 1)))) if nframes > 1 else []
    case = {
        'model': model,
        'base': base,
        'code': code,
        'isr': isr,
        'vpage': vpage,
        'vbyte': vbyte,
        'fill_seed': draw(st.integers(0, 2 ** 32 - 1)),
        'fill_style': draw(st.sampled_from([0, 0, 1, 1, 2])),
        'regs': regs,
        'im': im,
        'iff': draw(st.sampled_from([0, 1, 1])),
        't0': t0,
        'border': draw(st.integers(0, 7)),
        'outfe': draw(_byte),
        'memptr': draw(gen_prog.word),
        'o7ffd': o7ffd,
        'outfffd': draw(st.integers(0, 255)) if is128 else 0,
        'ay': draw(st.lists(st.integers(0, 255), min_size=16, max_size=16)) if is128 else [0] * 16,
        'frames': nframes,
        'flen': flen,
        'in_mode': draw(st.sampled_from(['const', 'const', 'frame', 'frame', 'stream', 'stream'])),
        'in_vals': draw(st.lists(st.one_of(st.sampled_from([0xFF, 0xBF, 0xFE, 0x1F, 0x00]), st.integers(0, 255)), min_size=1, max_size=6)),
        'in_seed': draw(st.integers(0, 2 ** 32 - 1)),
        'conv': conv,
        'flag4': draw(st.booleans()),
        'splits': splits,
        'fmt': draw(st.sampled_from(['szx', 'z80'])),
        'z80ver': draw(st.sampled_from([3, 3, 2, 1])),
        'z80blocks': draw(st.sampled_from(['rle', 'rle', 'raw'])),
        'szxz': draw(st.booleans()),
        'zsnap': draw(st.sampled_from([True, True, False])),
        'zirb': draw(st.sampled_from([True, True, False])),
        'repeat': draw(st.sampled_from([0, 1, 1, 2])),
        'unknown': draw(st.sampled_from([0, 0, 0, 1])),
        'rec': draw(st.sampled_from(['c', 'c', 'c', 'c', 'py', 'ccmio', 'ccmio', 'pycmio'])),
        'py': draw(st.sampled_from([0, 0, 1])),
        'stops': None,
    }
    if nframes > 12:
        case['stops'] = sorted(set(draw(st.lists(st.integers(1, nframes - 1), min_size=1, max_size=6))))
    return case


# ---------------------------------------------------------------------------
# Recorder
# ---------------------------------------------------------------------------
class RecTracer:
    """Tracer of the recording run: port reads come from the case's value
    stream and are logged per frame; port writes are decoded as on a 128K
    Spectrum (border/0xFE: A0=0; 0x7FFD: A15=0 and A1=0, ignored once bit 5 has
    been written; 0xFFFD: A15=A14=1, A1=0; 0xBFFD: A15=1, A14=0, A1=0)."""

    def __init__(self, sim, case):
        self.sim = sim
        self.is128 = case['model'] != '48K'
        self.border = case['border']
        self.outfe = case['outfe']
        self.out7ffd = case['o7ffd']
        self.outfffd = case['outfffd']
        self.ay = list(case['ay'])
        self.readings = bytearray()
        self.total_reads = 0
        self.frame_no = 0
        self.last_fe_frame = -1
        self.paged = 0
        mode = case['in_mode']
        vals = case['in_vals']
        if mode == 'const':
            v = vals[0]
            self.value = lambda: v
        elif mode == 'frame':
            n = len(vals)
            self.value = lambda: vals[len(self.readings) % n]
        else:
            rnd = random.Random(case['in_seed'])
            self.value = lambda: rnd.getrandbits(8)

    def read_port(self, registers, port):
        v = self.value()
        self.readings.append(v)
        self.total_reads += 1
        return v

    def write_port(self, registers, port, value, offset=0):
        if port & 1 == 0:
            self.border = value & 7
            self.outfe = value
            self.last_fe_frame = self.frame_no
        if self.is128 and port & 0x8002 == 0 and not self.out7ffd & 0x20:
            self.sim.memory.out7ffd(value)
            self.out7ffd = value
            self.paged += 1
        if port & 0xC002 == 0xC000:
            self.outfffd = value
        elif port & 0xC002 == 0x8000 and self.outfffd < 16:
            self.ay[self.outfffd] = value


def sim_class(impl):
    import skoolkit
    from skoolkit.simulator import Simulator
    from skoolkit.cmiosimulator import CMIOSimulator
    return {'py': Simulator, 'c': skoolkit.CSimulator, 'pycmio': CMIOSimulator, 'ccmio': skoolkit.CCMIOSimulator}[impl]


_ROMS = {}


def _rom(name):
    if name not in _ROMS:
        import skoolkit
        from skoolkit import read_bin_file
        _ROMS[name] = bytes(read_bin_file(getattr(skoolkit, name)))
    return _ROMS[name]


def initial_ram(case):
    """-> 48K: bytearray(49152) (0x4000-0xFFFF); 128K: list of 8 bytearrays, built
    through the paging the case starts with."""
    is128 = case['model'] != '48K'
    vt = case['vpage'] * 256
    isr_addr = case['vbyte'] * 257
    writes = [(vt + k, case['vbyte']) for k in range(257)]
    writes += [((isr_addr + k) & 0xFFFF, b) for k, b in enumerate(case['isr'])]
    writes += [((case['base'] + k) & 0xFFFF, b) for k, b in enumerate(case['code'])]
    if is128:
        raw = gen_prog.fill_bytes(case['fill_seed'], 0x20000, case['fill_style'])
        banks = [bytearray(raw[i * 0x4000:(i + 1) * 0x4000]) for i in range(8)]
        pages = [None, banks[5], banks[2], banks[case['o7ffd'] & 7]]
        for a, b in writes:
            if a >= 0x4000:
                pages[a >> 14][a & 0x3FFF] = b
        return banks
    ram = bytearray(gen_prog.fill_bytes(case['fill_seed'], 0xC000, case['fill_style']))
    for a, b in writes:
        if a >= 0x4000:
            ram[a - 0x4000] = b
    return ram


def initial_state(case, fmt):
    """The machine state the embedded snapshot describes (snapdec state dict)."""
    r = case['regs']
    s = snapdec.blank_state(case['model'])
    s.update(a=r['A'], f=r['F'], bc=r['BC'], de=r['DE'], hl=r['HL'], ix=r['IX'], iy=r['IY'], sp=r['SP'], i=r['I'], r=r['R'],
             a2=r['^A'], f2=r['^F'], bc2=r['^BC'], de2=r['^DE'], hl2=r['^HL'], pc=case['base'],
             iff1=case['iff'], iff2=case['iff'], im=case['im'], border=case['border'], tstates=case['t0'])
    if fmt == 'szx':
        s.update(memptr=case['memptr'], outfe=case['outfe'])
    else:
        s.update(memptr=0, outfe=0)      # not carried by .z80: the player starts from its defaults
    if case['model'] != '48K':
        s.update(out7ffd=case['o7ffd'], outfffd=case['outfffd'], ay=list(case['ay']))
        s['ram'] = [bytes(b) for b in initial_ram(case)]
    else:
        s['ram'] = bytes(initial_ram(case))
    return s


def encode_snapshot(case, state, fmt):
    if fmt == 'szx':
        return snapdec.encode_szx(state, compress=bool(case['szxz']))
    ver = case['z80ver']
    if ver == 1 and (state['machine'] != '48K' or state['pc'] == 0):
        ver = 3
    return snapdec.encode_z80(state, version=ver, blocks=case['z80blocks'])


def make_sim(case, impl):
    is128 = case['model'] != '48K'
    cls = sim_class(impl)
    ram = initial_ram(case)
    if is128:
        from skoolkit.pagingtracer import Memory
        mem = Memory([list(b) for b in ram], case['o7ffd'], case['model'])
    else:
        mem = list(_rom('ROM48')) + list(ram)
    r = case['regs']
    regs = {k: r[k] for k in ('A', 'F', 'BC', 'DE', 'HL', 'IX', 'IY', 'SP', 'I', 'R', '^A', '^F', '^BC', '^DE', '^HL')}
    regs['PC'] = case['base']
    regs['MEMPTR'] = case['memptr'] if case['fmt_rec'] == 'szx' else 0
    state = {'im': case['im'], 'iff': case['iff'], 'tstates': case['t0']}
    cfg = {'frame_duration': REAL_FRAME[case['model']], 'int_active': 0}
    sim = cls(mem, regs, state, cfg)
    tracer = RecTracer(sim, case)
    sim.set_tracer(tracer)
    return sim, tracer


def _ram_of(sim, is128):
    if is128:
        return [bytes(b) for b in sim.memory.banks]
    return bytes(sim.memory[0x4000:0x10000])


def _ram_digest(ram):
    h = hashlib.blake2b(digest_size=12)
    if isinstance(ram, (bytes, bytearray)):
        h.update(ram)
    else:
        for b in ram:
            h.update(b)
    return h.hexdigest()


def snap_of(sim, tracer, is128, full):
    r = sim.registers
    s = {'a': int(r[0]), 'f': int(r[1]), 'bc': int(r[3] + 256 * r[2]), 'de': int(r[5] + 256 * r[4]), 'hl': int(r[7] + 256 * r[6]),
         'ix': int(r[9] + 256 * r[8]), 'iy': int(r[11] + 256 * r[10]), 'sp': int(r[12]), 'i': int(r[14]), 'r': int(r[15]),
         'a2': int(r[16]), 'f2': int(r[17]), 'bc2': int(r[19] + 256 * r[18]), 'de2': int(r[21] + 256 * r[20]),
         'hl2': int(r[23] + 256 * r[22]), 'pc': int(r[24]), 'tstates': int(r[25]), 'iff1': int(r[26]), 'iff2': int(r[26]),
         'im': int(r[27]), 'memptr': int(r[29]), 'border': tracer.border, 'outfe': tracer.outfe,
         'last_fe_frame': tracer.last_fe_frame}
    if is128:
        s.update(out7ffd=tracer.out7ffd, outfffd=tracer.outfffd, ay=list(tracer.ay))
    ram = _ram_of(sim, is128)
    s['ram_digest'] = _ram_digest(ram)
    if full:
        s['ram'] = ram
    return s


class Recording:
    pass


def record(case):
    """Run the case's program frame by frame. Returns a Recording or None when
    the EI-chain cap of a flag-2 recording was hit (case discarded)."""
    is128 = case['model'] != '48K'
    cmio = 'cmio' in case['rec']
    sim, tracer = make_sim(case, case['rec'])
    regs, mem, run = sim.registers, sim.memory, sim.run
    real = REAL_FRAME[case['model']]
    flen = case['flen']
    conv = case['conv']
    want = case['frames']
    splits = set(case['splits'])
    frames = []            # (fetch, readings bytes)
    bounds = []            # state after the frame-end rule of frame k-1 (index k-1)
    ends = []              # what the frame ended on
    block_starts = [0]
    stats = {'accepted': 0, 'im2': 0, 'halt_release': 0, 'ldair': 0, 'ei_block': 0, 'ei_short2': 0, 'bit_hl': False, 'steps': 0}
    short = False          # the next frame is a one-instruction frame (flag 2 convention)
    nt = 0                 # index into the T-length cycle
    pending_split = False
    while True:
        k = len(frames)
        if k >= want and not short:
            break
        if k >= want + MAX_EXTRA_FRAMES:
            return None
        tracer.frame_no = k
        tracer.readings = bytearray()
        fetch = 0
        if short:
            limit = -1
        else:
            limit = flen[nt % len(flen)] if flen else 0
            limit = limit or real
            nt += 1
        while True:
            pc = regs[24]
            op = mem[pc]
            run(pc)
            if op == 0xCB:
                fetch += 2
                op2 = mem[(pc + 1) & 0xFFFF]
                if op2 & 0xC7 == 0x46:
                    stats['bit_hl'] = True
            elif op == 0xED:
                fetch += 2
            elif op == 0xDD or op == 0xFD:
                # a lone prefix (next opcode not affected by it) is an instruction of its own: 1 M1 cycle;
                # prefix + opcode: 2. Decided from what the simulator did with PC, never from R.
                if (regs[24] - pc) & 0xFFFF == 1 and mem[(pc + 1) & 0xFFFF] != 0xE9:
                    fetch += 1
                else:
                    fetch += 2
            else:
                fetch += 1
            stats['steps'] += 1
            if regs[25] >= limit:
                break
        frames.append((fetch, bytes(tracer.readings)))
        if short and fetch == 2:
            stats['ei_short2'] += 1
        # ---- frame end ----------------------------------------------------
        regs[25] = 0
        end = 'other'
        short = False
        if op == 0x76:
            end = 'halt'
        elif op == 0xFB:
            end = 'ei'
        elif op == 0xED and mem[(pc + 1) & 0xFFFF] in (0x57, 0x5F):
            end = 'ldair'
        elif op in (0xDD, 0xFD) and fetch and (regs[24] - pc) & 0xFFFF == 1:
            end = 'prefix'
        if regs[26]:
            accept = True
            if end == 'halt':
                regs[24] = (regs[24] + 1) & 0xFFFF
                stats['halt_release'] += 1
            elif end == 'ldair' and conv & 1:
                regs[1] &= 0xFB
                stats['ldair'] += 1
            elif end == 'ei' and conv & 2:
                accept = False
                short = True
                stats['ei_block'] += 1
            if accept:
                ret = regs[24]
                if regs[27] == 2:
                    va = (regs[14] << 8) | 0xFF
                    target = mem[va] | (mem[(va + 1) & 0xFFFF] << 8)
                    regs[25] += 19
                    stats['im2'] += 1
                else:
                    target = 0x38
                    regs[25] += 13
                sp = (regs[12] - 1) & 0xFFFF
                if sp >= 0x4000:
                    mem[sp] = ret >> 8
                sp = (sp - 1) & 0xFFFF
                if sp >= 0x4000:
                    mem[sp] = ret & 0xFF
                regs[12] = sp
                regs[15] = (regs[15] & 0x80) | ((regs[15] + 1) & 0x7F)
                regs[24] = target
                regs[26] = 0
                regs[28] = 0
                if cmio:
                    regs[29] = target
                stats['accepted'] += 1
        ends.append(end)
        k += 1
        if k in splits:
            pending_split = True
        is_split = pending_split and not short and k < want
        if is_split:
            pending_split = False
            block_starts.append(k)
        bounds.append(snap_of(sim, tracer, is128, full=is_split))
    rec = Recording()
    rec.frames = frames
    rec.bounds = bounds
    rec.ends = ends
    rec.block_starts = block_starts
    rec.stats = stats
    rec.final = snap_of(sim, tracer, is128, full=True)
    rec.paged = tracer.paged
    rec.total_reads = tracer.total_reads
    return rec


# ---------------------------------------------------------------------------
# RZX construction
# ---------------------------------------------------------------------------
def boundary_state(case, recording, k, fmt):
    """snapdec state dict for the snapshot embedded at frame boundary k (k > 0)."""
    b = recording.bounds[k - 1]
    s = snapdec.blank_state(case['model'])
    for key in CPU_KEYS + ('border', 'tstates'):
        s[key] = b[key]
    if fmt == 'szx':
        s.update(memptr=b['memptr'], outfe=b['outfe'])
    else:
        s.update(memptr=0, outfe=0)
    if case['model'] != '48K':
        s.update(out7ffd=b['out7ffd'], outfffd=b['outfffd'], ay=list(b['ay']))
    s['ram'] = b['ram']
    return s


def build_rzx(case, recording, fmt):
    blocks = [rzxref.creator_block('VerifRec', 1, 20)]
    if case['unknown']:
        blocks.append(rzxref.raw_block(0x55, bytes([case['in_seed'] & 255] * 7)))
    starts = recording.block_starts + [len(recording.frames)]
    markers = 0
    for bi in range(len(starts) - 1):
        lo, hi = starts[bi], starts[bi + 1]
        if bi == 0:
            state = initial_state(case, fmt)
            tstates = case['t0']
        else:
            state = boundary_state(case, recording, lo, fmt)
            tstates = state['tstates']
        blocks.append(rzxref.snapshot_block(fmt, encode_snapshot(case, state, fmt), compress=bool(case['zsnap'])))
        frames = []
        for j in range(lo, hi):
            fetch, readings = recording.frames[j]
            if j > lo and case['repeat'] and readings == recording.frames[j - 1][1] and (readings or case['repeat'] == 2):
                frames.append((fetch, None))
                markers += 1
            else:
                frames.append((fetch, readings))
        blocks.append(rzxref.input_block(frames, tstates, compress=bool(case['zirb'])))
    return rzxref.build(blocks), markers


# ---------------------------------------------------------------------------
# Playing and comparing
# ---------------------------------------------------------------------------
def _norm(msg):
    return re.sub(r'\d+', 'N', msg)[:60]


def play(s, case, infile, outfile, flags, python=False, cmio=False, stop=None, what='play'):
    argv = ['--no-screen', '--quiet']
    if flags:
        argv += ['--flags', str(flags)]
    if python:
        argv.append('--python')
    if cmio:
        argv.append('--cmio')
    if stop is not None:
        argv += ['--stop', str(stop)]
    argv += [s.path(infile), s.path(outfile)]
    r = cli.run('rzxplay', argv)
    variant = 'py' if python else 'c'
    if r.exc is not None:
        from skoolkit import SkoolKitError
        if isinstance(r.exc, SkoolKitError):
            raise Violation('%s-error:%s:%s' % (what, variant, _norm(str(r.exc))),
                            'rzxplay %s failed: %s' % (' '.join(argv[:-2] + [infile, outfile]), r.exc), case)
        raise Violation(crash_sig(r.exc, 'rzxplay-' + variant), 'rzxplay %s raised %r' % (' '.join(argv[:-2] + [infile, outfile]), r.exc), case)
    if not r.ok or 'Wrote ' not in r.out:
        raise Violation('%s-exit:%s' % (what, variant), 'rzxplay %s: exit code %r, stdout %r, stderr %r' % (
            ' '.join(argv[:-2] + [infile, outfile]), r.code, r.out[-200:], r.err[-300:]), case)
    data = s.read(outfile, True)
    if outfile.endswith('.rzx'):
        return data
    try:
        return snapdec.decode(data, outfile.rpartition('.')[2])
    except snapdec.FormatError as e:
        raise Violation('dump-unreadable:' + outfile.rpartition('.')[2], 'snapshot written by rzxplay is not decodable: %s' % e, case)


def state_diff(a, b, skip=()):
    """Keys on which two state dicts (snapdec form, or recorder form with ram) differ.
    A key is compared only when both sides carry it (value not None)."""
    out = []
    for k in CPU_KEYS + ('border', 'tstates', 'memptr', 'outfe', 'out7ffd', 'outfffd', 'ay'):
        if k in skip:
            continue
        x, y = a.get(k), b.get(k)
        if x is None or y is None:
            continue
        if k == 'ay':
            x, y = list(x), list(y)
        if x != y:
            out.append((k, x, y))
    ra, rb = a.get('ram'), b.get('ram')
    if ra is not None and rb is not None and 'ram' not in skip:
        if isinstance(ra, (bytes, bytearray)) != isinstance(rb, (bytes, bytearray)):
            out.append(('ram-shape', type(ra).__name__, type(rb).__name__))
        elif isinstance(ra, (bytes, bytearray)):
            if bytes(ra) != bytes(rb):
                i = next(i for i in range(min(len(ra), len(rb))) if ra[i] != rb[i]) if len(ra) == len(rb) else -1
                out.append(('ram[%d]' % (0x4000 + i), ra[i] if i >= 0 else len(ra), rb[i] if i >= 0 else len(rb)))
        else:
            for p in range(8):
                if bytes(ra[p]) != bytes(rb[p]):
                    i = next(i for i in range(16384) if ra[p][i] != rb[p][i])
                    out.append(('bank%d[%d]' % (p, i), ra[p][i], rb[p][i]))
                    break
    return out


def _kind(diff):
    k = diff[0][0]
    if k.startswith(('ram', 'bank')):
        return 'ram'
    if k in ('tstates', 'memptr', 'border', 'outfe', 'out7ffd', 'outfffd', 'ay'):
        return k
    return 'regs'


def expected_outfe(case, recording, fmt, flags):
    """Last value written to an even port as the player can know it: a .z80
    snapshot does not carry it, so it restarts at 0 with every snapshot the
    player loads."""
    f = recording.final
    if fmt == 'szx':
        return f['outfe']
    last_loaded = 0 if (flags & 4) else recording.block_starts[-1]
    return f['outfe'] if f['last_fe_frame'] >= last_loaded else 0


def parse_rzxinfo(text):
    """-> list of input-recording blocks: {'count', 'tstates', 'frames': [(fetch, in_counter, n_repeat or None, readings or None, ellipsis)]}"""
    blocks = []
    cur = None
    frame = None
    for line in text.split('\n'):
        t = line.strip()
        if t.startswith('Input recording:'):
            cur = {'count': None, 'tstates': None, 'frames': []}
            blocks.append(cur)
        elif cur is not None and t.startswith('Number of frames:'):
            cur['count'] = int(t.split(':')[1].split()[0])
        elif cur is not None and t.startswith('T-states:'):
            cur['tstates'] = int(t.split(':')[1])
        elif cur is not None and re.match(r'Frame \d+:$', t):
            frame = {'index': int(t[6:-1]), 'fetch': None, 'in': None, 'rep': None, 'readings': None, 'more': False}
            cur['frames'].append(frame)
        elif frame is not None and t.startswith('Fetch counter:'):
            frame['fetch'] = int(t.split(':')[1])
        elif frame is not None and t.startswith('IN counter:'):
            m = re.match(r'IN counter: (\d+)(?: \((\d+)\))?$', t)
            if m:
                frame['in'] = int(m.group(1))
                frame['rep'] = int(m.group(2)) if m.group(2) else None
        elif frame is not None and t.startswith('Port readings:'):
            v = t.split(':', 1)[1].strip()
            frame['more'] = v.endswith('...')
            v = v[:-3] if frame['more'] else v
            try:
                frame['readings'] = [int(x) for x in v.split(',')]
            except ValueError:
                frame['readings'] = v        # not a list of integers: reported as a mismatch by the caller
        elif t.startswith(('Snapshot:', 'Creator information:', 'Unknown block')):
            cur = frame = None
    return blocks


def check_rzxinfo(s, case, fname, ref_blocks, what):
    """ref_blocks: the file's input recording blocks as parsed by rzxref."""
    r = cli.run('rzxinfo', ['--frames', s.path(fname)])
    if r.exc is not None:
        raise Violation(crash_sig(r.exc, 'rzxinfo'), 'rzxinfo --frames %s raised %r' % (fname, r.exc), case)
    if not r.ok:
        raise Violation('rzxinfo-exit', 'rzxinfo --frames %s: exit %r %s' % (fname, r.code, r.err[-200:]), case)
    got = parse_rzxinfo(r.out)
    if len(got) != len(ref_blocks):
        raise Violation('rzxinfo-blocks', '%s: rzxinfo shows %d input recording blocks, file has %d' % (what, len(got), len(ref_blocks)), case)
    for bi, (g, b) in enumerate(zip(got, ref_blocks)):
        if g['count'] != b['count'] or g['tstates'] != b['tstates']:
            raise Violation('rzxinfo-header', '%s block %d: rzxinfo shows %r frames / T=%r, file has %d / %d' % (
                what, bi, g['count'], g['tstates'], b['count'], b['tstates']), case)
        if len(g['frames']) != len(b['frames']):
            raise Violation('rzxinfo-frame-count', '%s block %d: rzxinfo lists %d frames, file has %d' % (what, bi, len(g['frames']), len(b['frames'])), case)
        for fi, (gf, bf) in enumerate(zip(g['frames'], b['frames'])):
            readings = list(bf['readings'])
            exp = {'index': fi, 'fetch': bf['fetch'], 'in': bf['in_counter'],
                   'rep': len(readings) if bf['in_counter'] == rzxref.REPEAT else None,
                   'readings': readings[:10] if readings else None, 'more': len(readings) > 10}
            if gf != exp:
                bad = sorted(k for k in exp if gf.get(k) != exp[k])
                raise Violation('rzxinfo-frames:' + bad[0], '%s block %d frame %d: rzxinfo shows %r, recorded %r' % (what, bi, fi, gf, exp), case)
    return r.out


def flat_frames(parsed):
    out = []
    for b in parsed['blocks']:
        if b['id'] == 0x80:
            out.extend((f['fetch'], bytes(f['readings'])) for f in b['frames'])
    return out


def z80v1_pc0(case, recording, k, fmt):
    """F40 class: the recording embeds a version-1 .z80 snapshot (whose header cannot
    express PC=0) and the CPU is at address 0 at frame boundary k: rzxplay --stop k
    reuses the version-1 header for the snapshot it writes."""
    return (fmt == 'z80' and case['z80ver'] == 1 and case['model'] == '48K' and case['base'] != 0
            and recording.bounds[k - 1]['pc'] == 0)


def check_part(case, recording, part, k, fmt, cmio, stop_variant):
    """The RZX file written by --stop k: remaining frames and embedded snapshot."""
    try:
        p = rzxref.parse(part)
    except rzxref.RZXFormatError as e:
        raise Violation('part-malformed', 'file written by rzxplay --stop %d is not a valid RZX file: %s' % (k, e), case)
    if p['version'] != (0, 13):
        raise Violation('part-version', 'written RZX version %r' % (p['version'],), case)
    snaps = [b for b in p['blocks'] if b['id'] == 0x30]
    irbs = [b for b in p['blocks'] if b['id'] == 0x80]
    if not snaps or not irbs or p['blocks'][0]['id'] != 0x10:
        raise Violation('part-blocks', '--stop %d output has block ids %r' % (k, [b['id'] for b in p['blocks']]), case)
    first_snap = next(i for i, b in enumerate(p['blocks']) if b['id'] == 0x30)
    first_irb = next(i for i, b in enumerate(p['blocks']) if b['id'] == 0x80)
    if first_snap > first_irb:
        raise Violation('part-blocks', '--stop %d output starts with an input recording block before any snapshot' % k, case)
    got = flat_frames(p)
    exp = recording.frames[k:]
    if got != exp:
        n = next((i for i in range(min(len(got), len(exp))) if got[i] != exp[i]), min(len(got), len(exp)))
        raise Violation('part-frames', '--stop %d (%s, %s): written file holds %d frames, expected the %d remaining; first difference at remaining '
                        'frame %d: written %r, recorded %r' % (k, fmt, stop_variant, len(got), len(exp), n,
                                                                got[n] if n < len(got) else None, exp[n] if n < len(exp) else None), case)
    sb = snaps[0]
    if sb['ext'].lower() != fmt or sb['data'] is None:
        raise Violation('part-snapshot-type', '--stop %d: embedded snapshot extension %r, expected %r' % (k, sb['ext'], fmt), case)
    try:
        st_ = snapdec.decode(sb['data'], fmt)
    except snapdec.FormatError as e:
        sig = 'part-snapshot-unreadable'
        if z80v1_pc0(case, recording, k, fmt):
            sig += ':z80v1-pc0'
        raise Violation(sig, '--stop %d: embedded %s snapshot not decodable: %s' % (k, fmt, e), case)
    b = dict(recording.bounds[k - 1])
    skip = ['ram', 'memptr'] + (['tstates'] if cmio else [])
    if fmt != 'szx':
        skip.append('outfe')       # not carried by .z80
    d = state_diff(st_, b, skip)
    if not d and _ram_digest(st_['ram']) != b['ram_digest']:
        d = [('ram', 'digest', 'differs')]
    if d:
        raise Violation('part-snapshot:' + _kind(d), '--stop %d (%s, %s): snapshot embedded in the written RZX file differs from the recorder\'s state '
                        'after %d frames: %s (written, recorder)' % (k, fmt, stop_variant, k, d[:6]), case)
    return p


# ---------------------------------------------------------------------------
# Oracle
# ---------------------------------------------------------------------------
def oracle(case, rec=None, avoid_known=True):
    case = dict(case)
    case['fmt_rec'] = case['fmt']
    recording = record(case)
    shown = {k: v for k, v in case.items() if k != 'fmt_rec'}
    if recording is None:
        if rec is not None:
            rec.note('discarded:ei-chain-cap')
        return
    F = len(recording.frames)
    stats = recording.stats
    rec_cmio = 'cmio' in case['rec']
    memptr_sensitive = stats['bit_hl']
    flags = case['conv'] | (4 if case['flag4'] else 0)
    primary = case['fmt']
    other = 'z80' if primary == 'szx' else 'szx'
    stops = case['stops'] if case['stops'] is not None else list(range(1, F))
    stops = [k for k in stops if 1 <= k < F]
    final = recording.final
    markers_used = 0
    with cli.Scratch('verif-c20-') as s:
        for fmt in (primary, other):
            # the recording as made with this snapshot format (MEMPTR start value is format dependent: only
            # observable by a contended recorder executing BIT n,(HL); then the other format is a different run)
            if fmt != primary and rec_cmio and memptr_sensitive:
                continue
            rzx, markers = build_rzx(case, recording, fmt)
            markers_used = max(markers_used, markers)
            name = 'rec-%s.rzx' % fmt
            s.write(name, rzx)
            exp = dict(final)
            exp['outfe'] = expected_outfe(case, recording, fmt, flags)
            skip_t = ('tstates', 'memptr') if rec_cmio else ('memptr',)
            # ---- (1) uninterrupted playback, both dump formats -----------------
            full = {}
            for ext in ('szx', 'z80'):
                got = play(s, shown, name, 'full-%s.%s' % (fmt, ext), flags, cmio=rec_cmio)
                if got['machine'] != case['model']:
                    raise Violation('dump-machine', 'dumped %s snapshot is for %r, recording for %r' % (ext, got['machine'], case['model']), shown)
                d = state_diff(got, exp, skip_t)
                if d:
                    raise Violation('play-vs-recorder:%s' % _kind(d),
                                    'rzxplay%s --flags %d %s -> .%s: final state differs from the recorder\'s after %d frames (frame ends: %s): %s '
                                    '(played, recorded); fetch counters %r' % (' --cmio' if rec_cmio else '', flags, name, ext, F,
                                                                              recording.ends[-6:], d[:6], [f[0] for f in recording.frames[:12]]), shown)
                full[ext] = got
            # ---- (2) other implementations ------------------------------------
            if fmt == primary:
                variants = []
                alt_c = None
                if case['py']:
                    variants.append((True, rec_cmio))
                if not memptr_sensitive:
                    variants.append((False, not rec_cmio))
                    if case['py']:
                        variants.append((True, not rec_cmio))
                for python, cmio in variants:
                    got = play(s, shown, name, 'alt.szx', flags, python=python, cmio=cmio)
                    if cmio == rec_cmio:
                        ref, skip, sig = full['szx'], (), 'c-vs-python'
                    elif python:
                        ref, skip, sig = alt_c, (), 'c-vs-python'
                    else:
                        ref, skip, sig = full['szx'], ('tstates', 'memptr'), 'plain-vs-cmio'
                    d = state_diff(got, ref, skip)
                    if d:
                        raise Violation('%s:%s' % (sig, _kind(d)), 'rzxplay %s%s--flags %d %s: final state differs from the %s player\'s: %s' % (
                            '--python ' if python else '', '--cmio ' if cmio else '', flags, name,
                            'C' if sig == 'c-vs-python' else ('contended' if rec_cmio else 'plain'), d[:6]), shown)
                    if not python:
                        alt_c = got
            # ---- (3) stop at k, write RZX, resume -------------------------------
            ref_irbs = None
            for k in stops:
                if avoid_known and z80v1_pc0(case, recording, k, fmt):
                    if rec is not None:
                        rec.excluded['F40'] += 1
                    continue
                runs = [(False, rec_cmio)]
                if fmt == primary and case['py'] and k == stops[(case['in_seed'] >> 3) % len(stops)]:
                    runs.append((True, rec_cmio))
                if fmt == primary and not memptr_sensitive and k == stops[(case['in_seed'] >> 7) % len(stops)]:
                    runs.append((False, not rec_cmio))
                for python, cmio in runs:
                    if cmio and fmt == 'z80' and memptr_sensitive:
                        continue       # MEMPTR is lost in a .z80 snapshot
                    variant = ('py' if python else 'c') + ('cmio' if cmio else '')
                    part = play(s, shown, name, 'part.rzx', flags, python=python, cmio=cmio, stop=k, what='stop')
                    parsed = check_part(shown, recording, part, k, fmt, cmio, variant)
                    got = play(s, shown, 'part.rzx', 'end.' + fmt, flags, python=python, cmio=cmio, what='resume')
                    skip = ['tstates', 'memptr'] if cmio != rec_cmio else []
                    d = state_diff(got, full[fmt], skip)
                    if d:
                        raise Violation('resume:%s' % _kind(d), 'rzxplay --stop %d %s part.rzx; rzxplay part.rzx end.%s (%s, flags %d): final state differs '
                                        'from uninterrupted playback: %s (resumed, uninterrupted); frame %d ended on %s' % (
                                            k, name, fmt, variant, flags, d[:6], k - 1, recording.ends[k - 1]), shown)
                    if ref_irbs is None and not python and cmio == rec_cmio and k == stops[(case['in_seed'] >> 11) % len(stops)]:
                        ref_irbs = [b for b in parsed['blocks'] if b['id'] == 0x80]
                        check_rzxinfo(s, shown, 'part.rzx', ref_irbs, 'part.rzx (--stop %d)' % k)
            # ---- (4) rzxinfo ------------------------------------------------------
            mine = rzxref.parse(rzx)
            out = check_rzxinfo(s, shown, name, [b for b in mine['blocks'] if b['id'] == 0x80], name)
            if fmt == primary:
                m = re.findall(r'Start address: (\d+)', out)
                if not m or int(m[0]) != case['base']:
                    raise Violation('rzxinfo-snapshot', 'rzxinfo %s: start address %r, snapshot PC is %d' % (name, m[:1], case['base']), shown)
                if ('Filename extension: ' + fmt) not in out:
                    raise Violation('rzxinfo-snapshot', 'rzxinfo %s does not show the snapshot extension %s' % (name, fmt), shown)
    if rec is not None:
        nt = F >= 3 and recording.total_reads >= 1 and stats['accepted'] >= 1
        klass = ['model:' + case['model'], 'fmt:' + primary, 'rec:' + case['rec'], 'flags:%d' % flags,
                 'flen:' + ('real' if not case['flen'] else 'mixed' if 0 in case['flen'] else 'short')]
        for e in sorted(set(recording.ends)):
            klass.append('frame-end:' + e)
        if stats['im2']:
            klass.append('im2-accepted')
        if stats['halt_release']:
            klass.append('halt-released')
        if stats['ldair']:
            klass.append('ldair-flag-reset')
        if stats['ei_block']:
            klass.append('ei-short-frame')
        if stats['ei_short2']:
            klass.append('ei-short-frame:2-fetches')
        if recording.paged:
            klass.append('paged')
        if markers_used:
            klass.append('repeat-marker')
        if len(recording.block_starts) > 1:
            klass.append('multi-block')
        if case['py']:
            klass.append('python-player')
        if memptr_sensitive:
            klass.append('bit-hl')
        if primary == 'z80':
            klass.append('z80v%d' % case['z80ver'])
        rec.case(repr(sorted(shown.items())), nt, klass,
                 {'model': case['model'], 'frames': F, 'fetch': [f[0] for f in recording.frames[:8]],
                  'in': [len(f[1]) for f in recording.frames[:8]], 'ends': recording.ends[:8], 'accepted': stats['accepted'],
                  'flags': flags, 'fmt': primary, 'rec': case['rec'], 'code': bytes(case['code'][:24]).hex()})


def plan(tier, seed):
    rzxref._selftest(False)
    n = 480 if tier == 'quick' else 16000
    nsh = 16 if tier == 'quick' else 64
    return [{'kind': 'hyp', 'tier': tier, 'n': n // nsh, 'seed': shard_seed(seed, PROPERTY, i)} for i in range(nsh)]


def run_shard(shard, rec):
    hyp_run(rec, cases(shard['tier']), lambda c: oracle(c, rec), shard['n'], shard['seed'])


def replay(case):
    oracle(case, avoid_known=False)


def known_class(sig, case):
    # F40: rzxplay --stop writes the snapshot into the version-1 .z80 header it was given; when the CPU is at
    # address 0 at that frame boundary the header says PC=0, which marks a version 2/3 file, and the written
    # RZX file cannot be read back (IndexError in rzxplay/rzxinfo). Only this signature, only v1 48K recordings.
    if sig == 'part-snapshot-unreadable:z80v1-pc0' and isinstance(case, dict) and case.get('z80ver') == 1 and case.get('model') == '48K':
        return 'F40'
    return None


MANIFEST_ENTRY = {
    'technique': 'model-based round trip: a harness recorder (T-state driven, own frame-end rule, RZX/snapshot bytes from spec-based writers) vs rzxplay/rzxinfo; differential C vs Python and plain vs --cmio players; metamorphic stop/resume at every frame',
    'level_text': 'Each generated recording is written as RZX 0.13 in both embedded snapshot formats, played by the real rzxplay.main (C player always, Python player on a third), and the dumped .szx/.z80 state is compared with the recorder\'s final state; every stop frame k is written to an RZX file whose frames and snapshot are checked against the recorder and which is then played to the end; rzxinfo --frames output is compared frame by frame with the recorded counters and readings.',
    'level_note': 'Sampled programs (1-12 frames quick, up to 60 thorough; real or short T frame lengths). The recorder steps skoolkit\'s own simulators (the property is about recordings of the simulator itself), so a defect shared by every simulator and the player in the same way is out of reach; frame-end convention is taken from the rzxplay documentation.',
}
