"""C13 - simulated LOAD results do not depend on speed-up options or simulator choice.

A. CLI lattice: bin2tap tapes loaded by tap2sna.main under the configuration
   lattice accelerator x accelerate-dec-a x pause x python (fast-load and cmio
   held fixed): the complete final machine state (all registers incl. R and T,
   captured by wrapping tap2sna.get_state, plus all RAM) must be identical;
   across fast-load and cmio only the loaded data bytes, PC and SP must agree.
B. Accelerator table, enumerated: for each of the ACCELERATORS entries one
   unaccelerated iteration of its code signature, executed on the simulator,
   must take exactly loop_time T-states and loop_r_inc R increments and change
   only the declared counter by one in the declared direction.
C. Sampling harness, enumerated x generated pulse trains: a loader built from
   each entry's own signature (wrapped in CALL/RET, counter stored after each
   edge) is run by LoadTracer over pure-tone / pulse-sequence tapes with and
   without the accelerator, on the C and Python simulators; plus DEC A: JR/JP NZ
   delay loops for all 256 initial A values under accelerate-dec-a 0..3.
"""
import contextlib
import io

from hypothesis import strategies as st

from vlib.runner import Violation, hyp_run, shard_seed, crash_sig
from vlib import cli
from checks import c12

PROPERTY = 'C13'
RULE = ('A: Hypothesis draws a bin2tap tape (C12 generator, 48K, <= 250 bytes) and a set of configurations from the lattice; each '
        '(tape, configuration) load is one evaluation; non-trivial = the unaccelerated run executed the ROM loader in full '
        '(fast-load=0) and an accelerated variant reported accelerator or dec-a hits. B: all ACCELERATORS entries (exhaustive). '
        'C: every entry x drawn pulse trains x {accelerated, not} x {C, Python}; non-trivial = the accelerator was hit at least '
        'once in the accelerated run; distinct = digest of (entry, pulses, config).')
ASSUMPTIONS = [
    'a configuration under which the tape does not load (pause=0 with a loader that needs the pause, timeout) is not compared, unless C and Python disagree about it',
    'wildcard bytes in an accelerator signature are filled with NOPs (0x7F after LD A,n) and a closing JP gets the loop address: the harness is a loader of exactly the recognised shape',
    'entries whose loop cannot be made to spin by the generic harness are reported as unmeasured (note), not as violations',
]

REG = {'A': 0, 'F': 1, 'B': 2, 'C': 3, 'D': 4, 'E': 5, 'H': 6, 'L': 7}


# ---------------------------------------------------------------------------- A
@st.composite
def lattice_cases(draw, tier):
    n = draw(st.sampled_from([1, 2, 17, 60]) | st.integers(1, 250))
    org = draw(st.sampled_from([32768, 40000, 65536 - n, 24100]))
    case = {'kind': '48', 'n': n, 'content': draw(c12.CONTENT), 'seed': draw(st.integers(0, 2 ** 31)), 'ext': draw(st.sampled_from(['tap', 'pzx'])),
            'screen': None, 'clear': draw(st.sampled_from([None, 24000])), 'stack': None, 'org': org, 'start': org}
    if case['clear'] is not None and org <= case['clear']:
        case['clear'] = None
    if case['clear'] is None and draw(st.sampled_from([0, 1])):
        # the classic load-over-the-stack layout: the data covers (some of) the loader's stack bytes
        case['stack'] = min(65535, org + draw(st.integers(1, min(n, 6))))
        case['start'] = min(65535, case['stack'] + 1)
    variants = []
    for fast, cmio in ((1, 0), (0, 0), (0, 1)):
        k = draw(st.integers(2, 4))
        for _ in range(k):
            v = {'fast-load': fast, 'cmio': cmio, 'accelerator': draw(st.sampled_from(['auto', 'none', 'rom', 'rom,speedlock'])),
                 'accelerate-dec-a': draw(st.integers(0, 3)), 'pause': draw(st.sampled_from([1, 1, 0])), 'python': 0}
            variants.append(v)
        if n <= 40 or fast:
            v = dict(variants[-1], python=1)
            variants.append(v)
    case['variants'] = variants
    case['polarity'] = draw(st.sampled_from([0, 0, 1]))
    case['first_edge'] = draw(st.sampled_from([0, 0, 1000]))
    return case


def lattice_oracle(case, rec=None):
    with cli.Scratch('c13-') as s:
        tape, exp = c12.build_tape(s, case)
        results = {}
        for i, v in enumerate(case['variants']):
            load = dict(v)
            load['accelerator'] = v['accelerator']
            if case['polarity']:
                load['polarity'] = 1
            if case['first_edge']:
                load['first-edge'] = case['first_edge']
            load['accelerator'] = 'list' if False else v['accelerator']
            c12.CAPTURE.clear()
            out, reason, stdout = c12.run_tap2sna(s, case, tape, load, 'o%d.szx' % i, capture=True)
            from skoolkit.snapshot import Snapshot
            sn = Snapshot.get(out)
            results[i] = (reason, list(c12.CAPTURE.get('regs') or ()), bytes(sn.ram(-1)), sn.pc, sn.sp)
            if rec is not None:
                rec.case((repr(sorted((k, x) for k, x in case.items() if k != 'variants')), i), v['fast-load'] == 0 and v['accelerator'] != 'none',
                         'lattice:fast=%d:cmio=%d:python=%d' % (v['fast-load'], v['cmio'], v['python']), {'tape': {k: x for k, x in case.items() if k != 'variants'}, 'config': v} if i == 0 else None)
        groups = {}
        for i, v in enumerate(case['variants']):
            groups.setdefault((v['fast-load'], v['cmio']), []).append(i)
        org, n = case['org'], case['n']
        loaded = {}
        for key, idxs in groups.items():
            ok = [i for i in idxs if results[i][0] == 'PC at start address']
            # C and Python must agree on whether the tape loads under the same options
            for i in idxs:
                for j in idxs:
                    vi, vj = case['variants'][i], case['variants'][j]
                    if i < j and {k: x for k, x in vi.items() if k != 'python'} == {k: x for k, x in vj.items() if k != 'python'} and (results[i][0] != results[j][0]):
                        raise Violation('lattice:python-vs-c:outcome', 'same options, C: %r, Python: %r (%r)' % (results[i][0], results[j][0], vi), dict(case, variants=[vi, vj]))
            if rec is not None and len(ok) < len(idxs):
                rec.note('lattice:did-not-load', len(idxs) - len(ok))
            for i in ok[1:]:
                a, b = results[ok[0]], results[i]
                va, vb = case['variants'][ok[0]], case['variants'][i]
                if a[1] != b[1]:
                    from vlib import simdrv
                    d = [(simdrv.REGNAMES.get(k, k), a[1][k], b[1][k]) for k in range(min(len(a[1]), len(b[1]))) if a[1][k] != b[1][k]]
                    which = [k for k in va if va[k] != vb[k]]
                    raise Violation('lattice:registers:' + '+'.join(which), 'final registers differ between %r and %r: %s' % (va, vb, d), dict(case, variants=[va, vb]))
                if a[2] != b[2]:
                    bad = [16384 + k for k in range(len(a[2])) if a[2][k] != b[2][k]][:5]
                    which = [k for k in va if va[k] != vb[k]]
                    raise Violation('lattice:ram:' + '+'.join(which), 'final RAM differs at %s between %r and %r' % (bad, va, vb), dict(case, variants=[va, vb]))
            if ok:
                loaded[key] = results[ok[0]]
        keys = list(loaded)
        for k in keys[1:]:
            a, b = loaded[keys[0]], loaded[k]
            da = bytearray(a[2][org - 16384:org - 16384 + n])
            db = bytearray(b[2][org - 16384:org - 16384 + n])
            if case['clear'] is None:
                # the 14 bytes below STACK are the ROM loader's working stack: a real-time load pushes return
                # addresses there while the block arrives, a fast load does not (bin2tap documents them as lost)
                stk = case['stack'] if case.get('stack') is not None else org
                for x in range(max(org, stk - 14), min(org + n, stk)):
                    da[x - org] = db[x - org] = 0
            if da != db or a[3] != b[3] or (case['clear'] is None and a[4] != b[4]):
                raise Violation('lattice:across-fastload-cmio', 'loaded data/PC/SP differ between (fast-load, cmio)=%r and %r: PC %d/%d SP %d/%d' % (keys[0], k, a[3], b[3], a[4], b[4]), case)
        for key, r in loaded.items():
            if r[2][org - 16384:org - 16384 + n] != exp['data'] and case['clear'] is not None:
                raise Violation('lattice:data', 'loaded bytes differ from the binary under (fast-load, cmio)=%r' % (key,), case)


# ---------------------------------------------------------------------------- A2: ROM load over the stack
@st.composite
def overstack_cases(draw):
    """A bin2tap tape of a small program that calls LD-BYTES (0x0556) for a further headerless block whose bytes cover
    the routine's own return address (the auto-run trick of many commercial tapes): the block decides where LD-BYTES
    returns to. The outcome must not depend on fast-load / simulator / accelerator settings."""
    S = draw(st.sampled_from([0xC010, 0x9000, 0xFFF0, 0x8100]))
    post = draw(st.integers(0, min(40, 65536 - S)))
    body = draw(st.binary(min_size=post, max_size=post))
    return {'kind': 'overstack', 'S': S, 'post': body.hex(), 'ret2': draw(st.sampled_from([0xB000, 0xB003, 0x7000])),
            'pause': draw(st.sampled_from([1, 1, 0])), 'accelerator': draw(st.sampled_from(['auto', 'none', 'rom'])),
            'dec_a': draw(st.integers(0, 3)), 'python_slow': draw(st.sampled_from([0, 0, 1]))}


def overstack_oracle(case, rec=None):
    from skoolkit.snapshot import Snapshot
    S, FINAL = case['S'], 0xA000
    dest = S - 4
    block = bytes([FINAL & 255, FINAL >> 8, case['ret2'] & 255, case['ret2'] >> 8]) + bytes.fromhex(case['post'])
    L = len(block)
    prog = bytes([0x31, S & 255, S >> 8, 0xDD, 0x21, dest & 255, dest >> 8, 0x11, L & 255, L >> 8, 0x3E, 0xFF, 0x37,
                  0xCD, 0x56, 0x05, 0x18, 0xFE])
    with cli.Scratch('c13o-') as s:
        binf = s.write('p.bin', prog)
        tape = s.path('p.tap')
        r = cli.run('bin2tap', ['-o', 32768, '-s', 32768, '-c', 32767, binf, tape])
        if not r.ok:
            raise Violation('bin2tap-exit', 'bin2tap failed: %r %s' % (r.exc, r.err[-200:]), case)
        tb = bytes([0xFF]) + block
        par = 0
        for b in tb:
            par ^= b
        tb += bytes([par])
        with open(tape, 'ab') as f:
            f.write(bytes([len(tb) & 255, len(tb) >> 8]) + tb)
        variants = [{'fast-load': 1, 'python': 0}, {'fast-load': 0, 'python': 0}, {'fast-load': 1, 'python': 1}, {'fast-load': 0, 'python': 0, 'cmio': 1}]
        if case['python_slow']:
            variants.append({'fast-load': 0, 'python': 1})
        results = []
        tcase = {'kind': '48', 'n': 1, 'start': FINAL}
        for i, v in enumerate(variants):
            load = dict(v, accelerator=case['accelerator'], pause=case['pause'])
            load['accelerate-dec-a'] = case['dec_a']
            out, reason, stdout = c12.run_tap2sna(s, tcase, tape, load, 'o%d.szx' % i)
            sn = Snapshot.get(out)
            ram = bytes(sn.ram(-1))
            results.append((reason, sn.pc, sn.sp, ram[dest - 16384:dest - 16384 + L]))
        for v, r in zip(variants, results):
            if r != results[0] or r[0] != 'PC at start address' or r[3] != block:
                a = results[0]
                raise Violation('overstack:%s' % ('outcome' if r[:3] != a[:3] else 'data'),
                                'block loaded over the LD-BYTES return address: %r gives (%s, PC=%d, SP=%d, data ok=%s), %r gives (%s, PC=%d, SP=%d, data ok=%s); expected PC=%d SP=%d' % (
                                    variants[0], a[0], a[1], a[2], a[3] == block, v, r[0], r[1], r[2], r[3] == block, FINAL, S - 2), case)
        if rec is not None:
            rec.case(repr(sorted(case.items())), True, 'overstack', case)


# ---------------------------------------------------------------------------- B
def build_body(code, start):
    from skoolkit.loadsample import BYTE
    body = []
    for i, c in enumerate(code):
        if c is BYTE or not isinstance(c, int):
            body.append(0x7F if i > 0 and code[i - 1] == 0x3E else 0x00)
        else:
            body.append(c)
    if body[-1] in (0xCA, 0xC2, 0xF2, 0xFA, 0xD2, 0xDA):
        body += [start & 255, start >> 8]
    return body


def table_oracle(name, rec=None):
    from skoolkit.loadsample import ACCELERATORS
    from skoolkit.simulator import Simulator
    _, code, off, ctr, inc, lt, lr, ear, mask, pol = ACCELERATORS[name]
    start = 0x8000

    class Tr:
        def __init__(self, v):
            self.v = v

        def read_port(self, registers, port):
            return self.v
    found = None
    for portv in (0xFF, 0xBF, 0x7F, 0x3F, 0xFE, 0xBE, 0x00, 0x40, 0x20):
        for earv in (0, 0x20, 0x40, 0xFF, 0x60, 0x80, 0xBF):
            mem = [0] * 65536
            body = build_body(code, start)
            mem[start:start + len(body)] = body
            mem[start + len(body)] = 0x76
            sim = Simulator(mem, {'PC': start, 'SP': 0xFF00}, {'iff': 0})
            sim.set_tracer(Tr(portv))
            r = sim.registers
            r[ctr] = 0x10
            if ear is not None and ear >= 0:
                r[ear] = earv
            else:
                for c in code:
                    if isinstance(c, int) and 0xA0 <= c <= 0xA5 and c - 0xA0 + 2 != ctr:
                        r[c - 0xA0 + 2] = 0x40
            marks = []
            steps = 0
            snap0 = None
            while steps < 300 and len(marks) < 4:
                if r[24] == start:
                    marks.append((r[25], r[15], r[ctr], [int(x) for x in r[2:12]]))
                if not (start <= r[24] < start + len(body)):
                    break
                sim.run(r[24])
                steps += 1
            if len(marks) >= 4:
                found = (marks, portv, earv)
                break
        if found:
            break
    if not found:
        if rec is not None:
            rec.note('table:unmeasured:' + name)
        return False
    marks = found[0]
    dt = marks[2][0] - marks[1][0]
    dr = (marks[2][1] - marks[1][1]) % 128
    dc = (marks[2][2] - marks[1][2]) % 256
    case = {'kind': 'table', 'name': name}
    if dt != lt:
        raise Violation('table:loop_time', 'accelerator %s: one loop iteration takes %d T-states on the simulator, table says %d' % (name, dt, lt), case)
    if dr != lr % 128:
        raise Violation('table:loop_r_inc', 'accelerator %s: one loop iteration adds %d to R, table says %d' % (name, dr, lr), case)
    if dc != (1 if inc > 0 else 255):
        raise Violation('table:counter', 'accelerator %s: counter register changes by %d per iteration, table says %s' % (name, dc if dc < 128 else dc - 256, '+1' if inc > 0 else '-1'), case)
    others = [k for k in range(10) if marks[1][3][k] != marks[2][3][k] and k + 2 != ctr]
    if others:
        raise Violation('table:other-register', 'accelerator %s: registers other than the counter change during an iteration: slots %s' % (name, [k + 2 for k in others]), case)
    return True


# ---------------------------------------------------------------------------- C
def harness_memory(name):
    from skoolkit.loadsample import ACCELERATORS
    from skoolkit import read_bin_file, ROM48
    _, code, off, ctr, inc, lt, lr, ear, mask, pol = ACCELERATORS[name]
    mem = [0] * 65536
    mem[:16384] = read_bin_file(ROM48)
    sub_addr = 0x8040
    # main (uses only A and IX, so that it cannot clash with the loop's counter / EAR registers):
    #   DI: LD IX,9000: loop: LD ctr,n: CALL sub: LD (IX+0),ctr: INC IX: LD A,IXl: CP 40: JR NZ,loop: JP A000
    if not 2 <= ctr <= 7:
        return None
    z = ctr - 2
    prog = [0xF3, 0xDD, 0x21, 0x00, 0x90,
            0x06 + 8 * z, 0x01 if inc > 0 else 0xFE, 0xCD, sub_addr & 255, sub_addr >> 8, 0xDD, 0x70 + z, 0x00, 0xDD, 0x23, 0xDD, 0x7D, 0xFE, 40, 0x20, 0xF0,
            0xC3, 0x00, 0xA0]
    mem[0x8000:0x8000 + len(prog)] = prog
    body = build_body(code, sub_addr)
    mem[sub_addr:sub_addr + len(body)] = body
    # like a real loader, flip the stored EAR state after each edge so that the next call waits for the opposite level
    tail = []
    if ear is not None and 2 <= ear <= 7 and ear != ctr:
        z = ear - 2
        tail += [0x78 + z, 0xEE, mask or 0xFF, 0x47 + 8 * z]        # LD A,r: XOR mask: LD r,A (only the EAR bit flips, as in a real loader)
    tail.append(0xC9)
    mem[sub_addr + len(body):sub_addr + len(body) + len(tail)] = tail
    mem[0xA000] = 0x76
    return mem


def run_harness(name, impl, accel, pulses, dec_a=0, mem=None, stop=0xA000):
    from skoolkit.loadtracer import LoadTracer
    from skoolkit.loadsample import ACCELERATORS, Accelerator
    from skoolkit.tape import TapeBlock, TapeBlockTimings
    from skoolkit.simutils import from_memory
    from vlib import simdrv
    if mem is None:
        mem = harness_memory(name)
        if mem is None:
            return None
    in_r_c = bool(name) and any(ACCELERATORS[name][1][i:i + 2] == [0xED, 0x78] for i in range(len(ACCELERATORS[name][1]) - 1))
    sim = from_memory(simdrv.sim_class(impl), list(mem), {'PC': 0x8000, 'SP': 0xFF00, 'BC': 0x00FE if in_r_c else 0}, {'iff': 0}, {'fast_djnz': False, 'fast_ldir': False})
    if name and ACCELERATORS[name][7] < 0:
        # polarity-only loops test the EAR bit with AND r: that register holds the mask 0x40 in a real loader
        for c in ACCELERATORS[name][1]:
            if isinstance(c, int) and 0xA0 <= c <= 0xA5 and c - 0xA0 + 2 != ACCELERATORS[name][3]:
                sim.registers[c - 0xA0 + 2] = 0x40
    blocks = [TapeBlock(1, [], TapeBlockTimings(pulses=[tuple(p) for p in pulses]), None)]
    for b in blocks:
        b.keys = None
    accs = {Accelerator(*ACCELERATORS[name])} if accel and name else set()
    cfg = {'accelerate_dec_a': dec_a, 'accelerators': accs, 'byte_fmt': None, 'fast_load': False, 'finish_tape': False, 'first_edge': 0, 'in_min_addr': 0x8000,
           'list_accelerators': 1, 'pause': 1, 'polarity': 0, 'prefix': None, 'stop': stop, 'timeout': 20 * 3500000, 'tracefile': None, 'trace_line': None, 'word_fmt': None}
    tr = LoadTracer(sim, blocks, cfg, None)
    # IN r,(C) only reaches the tracer when asked to (tap2sna: in-flags=4), which loaders of that shape need
    sim.set_tracer(tr, in_r_c, False)
    out = io.StringIO()
    with contextlib.redirect_stdout(out):
        tr.run(7, 0, 0, [0] * 16, 0)
    hits = sum(a.hits for a in accs)
    dhits = getattr(tr, 'dec_a_jr_hits', 0) + getattr(tr, 'dec_a_jp_hits', 0)
    return [int(x) for x in sim.registers[:29]], bytes(sim.memory[0x9000:0x9040]), hits, dhits, None


PULSES = st.lists(st.tuples(st.integers(1, 60), st.sampled_from([300, 667, 735, 855, 1710, 2168, 3000]) | st.integers(200, 4000)), min_size=1, max_size=4)


@st.composite
def harness_cases(draw, names):
    return {'kind': 'harness', 'name': draw(st.sampled_from(names)), 'pulses': [list(p) for p in draw(PULSES)]}


def harness_oracle(case, rec=None):
    name = case['name']
    ref = None
    hits = 0
    for impl in ('py', 'c'):
        for accel in (0, 1):
            try:
                r = run_harness(name, impl, accel, case['pulses'])
            except Exception as x:
                raise Violation(crash_sig(x, 'loadtracer'), 'LoadTracer harness (%s, %s, accel=%d) raised %r' % (name, impl, accel, x), case)
            if r is None:
                if rec is not None:
                    rec.note('harness:unsupported:' + name)
                return
            regs, res, h, dh, msg = r
            if accel:
                hits = max(hits, h)
            if ref is None:
                ref = (regs, res, impl, accel)
            elif (regs, res) != ref[:2]:
                from vlib import simdrv
                d = [(simdrv.REGNAMES.get(k, k), ref[0][k], regs[k]) for k in range(29) if ref[0][k] != regs[k]]
                raise Violation('harness:%s' % ('accel' if impl == ref[2] else 'python-vs-c'),
                                'loader built from accelerator %s: final state differs between (%s, accel=%d) and (%s, accel=%d): %s; counters %s vs %s' % (
                                    name, ref[2], ref[3], impl, accel, d, ref[1][:12].hex(), res[:12].hex()), case)
    if rec is not None:
        rec.case(repr(case), hits > 0, 'harness:' + ('hit' if hits else 'no-hit'), dict(case, hits=hits))
        if hits:
            rec.note('harness:hit:' + name)


def dec_a_oracle(a0, kind, rec=None):
    # LD A,n: DEC A: JR NZ,$-1 (or JP NZ): LD (9000),A ... stop
    loop = [0x3D, 0x20, 0xFD] if kind == 'jr' else [0x3D, 0xC2, 0x02, 0x80]
    prog = [0x3E, a0] + loop + [0x32, 0x00, 0x90, 0xC3, 0x00, 0xA0]
    from skoolkit import read_bin_file, ROM48
    mem = [0] * 65536
    mem[:16384] = read_bin_file(ROM48)
    mem[0x8000:0x8000 + len(prog)] = prog
    mem[0xA000] = 0x76
    ref = None
    case = {'kind': 'dec_a', 'a': a0, 'loop': kind}
    for impl in ('py', 'c'):
        for dec_a in (0, 1, 2, 3):
            r = run_harness(None, impl, 0, [[20, 2168]], dec_a, mem)
            regs, res = r[0], r[1]
            if ref is None:
                ref = (regs, res, impl, dec_a)
            elif (regs, res) != ref[:2]:
                from vlib import simdrv
                d = [(simdrv.REGNAMES.get(k, k), ref[0][k], regs[k]) for k in range(29) if ref[0][k] != regs[k]]
                raise Violation('dec-a:%s' % kind, 'DEC A: %s NZ loop with A=%d: state differs between (%s, dec-a=%d) and (%s, dec-a=%d): %s' % (
                    kind.upper(), a0, ref[2], ref[3], impl, dec_a, d), case)


# ---------------------------------------------------------------------------- plan
def plan(tier, seed):
    from skoolkit.loadsample import ACCELERATORS
    names = sorted(ACCELERATORS)
    shards = [{'kind': 'table', 'names': names[i::4]} for i in range(4)]
    shards += [{'kind': 'dec_a', 'range': [i * 64, i * 64 + 64]} for i in range(4)]
    nh = 1600 if tier == "quick" else 60000
    for i in range(8):
        shards.append({'kind': 'harness', 'names': names, 'n': nh // 8, 'seed': shard_seed(seed, PROPERTY, 'h%d' % i)})
    nl = 64 if tier == "quick" else 2400
    for i in range(16):
        shards.append({'kind': 'lattice', 'tier': tier, 'n': max(1, nl // 16), 'seed': shard_seed(seed, PROPERTY, 'l%d' % i)})
    no = 32 if tier == "quick" else 800
    for i in range(8):
        shards.append({'kind': 'overstack', 'n': no // 8, 'seed': shard_seed(seed, PROPERTY, 'o%d' % i)})
    return shards


def run_shard(shard, rec):
    k = shard['kind']
    if k == 'table':
        n = 0
        for name in shard['names']:
            try:
                if table_oracle(name, rec):
                    n += 1
                    rec.sample('table', {'accelerator': name})
            except Violation as v:
                rec.violation(v)
        rec.bulk(n, n, 'table')
        rec.exhaustive = True
    elif k == 'dec_a':
        n = 0
        for a in range(*shard['range']):
            for kind in ('jr', 'jp'):
                try:
                    dec_a_oracle(a, kind, rec)
                except Violation as v:
                    rec.violation(v)
                n += 1
        rec.bulk(n, n, 'dec_a')
        rec.sample('dec_a', {'A': '%d..%d' % tuple(shard['range']), 'loops': ['DEC A: JR NZ,$-1', 'DEC A: JP NZ,$-1'], 'dec-a': [0, 1, 2, 3], 'impl': ['py', 'c']})
        rec.exhaustive = True
    elif k == 'harness':
        hyp_run(rec, harness_cases(shard['names']), lambda c: harness_oracle(c, rec), shard['n'], shard['seed'])
    elif k == 'overstack':
        hyp_run(rec, overstack_cases(), lambda c: overstack_oracle(c, rec), shard['n'], shard['seed'], shrink_budget_s=30.0)
    else:
        hyp_run(rec, lattice_cases(shard['tier']), lambda c: lattice_oracle(c, rec), shard['n'], shard['seed'], shrink_budget_s=30.0)


def replay(case):
    k = case.get('kind')
    if k == 'table':
        table_oracle(case['name'])
    elif k == 'harness':
        harness_oracle(case)
    elif k == 'dec_a':
        dec_a_oracle(case['a'], case['loop'])
    elif k == 'overstack':
        overstack_oracle(case)
    else:
        lattice_oracle(case)


def known_class(sig, case):
    return None


MANIFEST_ENTRY = {
    'technique': 'metamorphic/differential testing over the simulated-LOAD configuration lattice through tap2sna.main, plus enumeration of the accelerator table against the simulator and generated sampling-loop harnesses on C and Python simulators',
    'level_text': 'bin2tap tapes are loaded under sets of configurations drawn from the lattice accelerator x accelerate-dec-a x pause x python with fast-load/cmio fixed and the complete final state (30 register slots incl. R and T, all RAM) compared; across fast-load/cmio the loaded bytes, PC and SP are compared. Every ACCELERATORS entry is measured on the simulator (loop_time, loop_r_inc, counter direction, no other register changed) and exercised by a loader built from its own signature over drawn pulse trains with/without acceleration on both simulators; DEC A loops are enumerated for all 256 A values x dec-a 0..3 x {C, Python}.',
    'level_note': 'Commercial turbo loaders are not available offline: custom loaders are synthesised from the recognised loop shapes. Lattice tapes are small (<= 250 bytes) because the unaccelerated Python simulator needs seconds per tape.',
}
