"""C08 - simulated code cannot corrupt ROM, break register ranges or mis-page 128K RAM.

(1) Generated programs (C06's generator) on each of the four implementations:
    after every instruction all register slots are in range and T does not
    decrease; ROM is byte-identical to the start; every memory cell is an int
    in 0..255; on 128K the mapping equals the paging reference model
    (ref/ula.Paging128) driven by the port writes the tracer saw.
(2) Histories (Hypothesis RuleBasedStateMachine): rules executed *by the
    simulated CPU* from small stubs: OUT to ports that do / do not decode as
    0x7FFD, stores through every store form into every 16K region (incl.
    straddling a region boundary), reads back through the CPU, random code.
    Model: shadow copies of the 8 banks + mapping; compared after every rule.
(3) Exhaustive: every value and every pair of values written to port 0x7FFD,
    every value to 16 ports that do / do not match the decode, on all four
    implementations.
"""
import hypothesis
from hypothesis import strategies as st, settings, HealthCheck
from hypothesis.stateful import RuleBasedStateMachine, rule, invariant, initialize, run_state_machine_as_test, precondition

from vlib.runner import Violation, hyp_run, shard_seed, crash_sig, digest
from vlib import gen_prog, simdrv
from ref import ula
from checks import c06

PROPERTY = 'C08'
RULE = ('(1) programs from C06\'s generator run on each implementation with per-step invariants; (2) Hypothesis stateful '
        'histories of CPU-executed OUT/store/read/random-code rules against a paging + shadow-bank model; (3) complete '
        'enumeration of 1- and 2-element value sequences to port 0x7FFD and of 256 values x 16 ports. Non-trivial: the '
        'program/history stores into 0x0000-0x3FFF or across a 16K boundary, or writes a paging port after the lock bit, '
        'or has >= 2 accepted paging writes; enumerated sequences are all non-trivial (distinct by construction).')
ASSUMPTIONS = [
    'the 0x7FFD decode is A15=0 and A1=0 (128K); bit 5 locks paging until reset',
    'after a run of unmodelled random code the shadow banks are re-synchronised from the simulator (mapping and ROM are still checked exactly)',
]

R8 = [0, 1, 2, 3, 4, 5, 6, 7, 8, 9, 10, 11, 14, 15, 16, 17, 18, 19, 20, 21, 22, 23]
R16 = [12, 24, 29]


def check_registers(regs, prev_t, case, where):
    for k in R8:
        v = regs[k]
        if not 0 <= v <= 255:
            raise Violation('range:%s' % simdrv.REGNAMES.get(k, k), '%s: register %s = %r out of 0..255' % (where, simdrv.REGNAMES.get(k, k), v), case)
    for k in R16:
        v = regs[k]
        if not 0 <= v <= 65535:
            raise Violation('range:%s' % simdrv.REGNAMES.get(k, k), '%s: register %s = %r out of 0..65535' % (where, simdrv.REGNAMES.get(k, k), v), case)
    if regs[13] != 0:
        raise Violation('range:sp2', '%s: SP high dummy slot = %r' % (where, regs[13]), case)
    if regs[26] not in (0, 1) or regs[27] not in (0, 1, 2) or regs[28] not in (0, 1):
        raise Violation('range:iff-im-halt', '%s: IFF=%r IM=%r HALT=%r' % (where, regs[26], regs[27], regs[28]), case)
    if regs[25] < prev_t:
        raise Violation('t-decreased', '%s: T went from %d to %d' % (where, prev_t, regs[25]), case)
    return int(regs[25])


def mem_bytes(part, case, where):
    """bytes() of a memory part; a cell that is not an int in 0..255 is a violation."""
    if isinstance(part, (bytes, bytearray)):
        return bytes(part)
    try:
        return bytes(part)
    except (ValueError, TypeError) as x:
        bad = [(i, v) for i, v in enumerate(part) if not (type(v) is int and 0 <= v <= 255)][:3]
        raise Violation('cell-range', '%s: memory cell(s) not in 0..255: %r' % (where, bad), case)


# --- (1) programs --------------------------------------------------------------
def run_program(case, impl, stats):
    sim, tracer, cfg = c06.build(case, impl)
    stepper = c06.Stepper(sim, cfg, case['interrupts'])
    regs = sim.registers
    mem = sim.memory
    is128 = case['model'] == '128'
    if is128:
        roms0 = [mem_bytes(r, case, 'init') for r in mem.roms]
        model = ula.Paging128([bytes(16384)] * 8, roms0, case['o7ffd'])
        if case['o7ffd'] & 0x20:
            model.locked = True
        nlog = 0
    else:
        rom0 = mem_bytes(mem[:0x4000], case, 'init')
    prev_t = int(regs[25])
    accepted = 0
    after_lock = 0
    for i in range(case['steps']):
        where = '%s step %d pc=%d' % (impl, i, regs[24])
        try:
            stepper.step()
        except Exception as x:
            raise Violation(crash_sig(x, 'sim-' + impl), '%s raised %r' % (where, x), case)
        prev_t = check_registers(regs, prev_t, case, where)
        if is128:
            log = tracer.log
            while nlog < len(log):
                e = log[nlog]
                nlog += 1
                if e[0] == 'w':
                    if model.locked and model.decodes(e[1]):
                        after_lock += 1
                    if model.out(e[1], e[2]):
                        accepted += 1
            check_mapping(sim, model, case, where)
        if i % 32 == 31 or i == case['steps'] - 1:
            if is128:
                for k, r in enumerate(mem.roms):
                    if mem_bytes(r, case, where) != roms0[k]:
                        raise Violation('rom-modified', '%s: 128K ROM %d was modified' % (where, k), case)
                for k, b in enumerate(mem.banks):
                    mem_bytes(b, case, where)
            else:
                if mem_bytes(mem[:0x4000], case, where) != rom0:
                    raise Violation('rom-modified', '%s: ROM area 0x0000-0x3FFF was modified' % where, case)
                mem_bytes(mem[0x4000:], case, where)
    stats['accepted'] = max(stats.get('accepted', 0), accepted)
    stats['after_lock'] = max(stats.get('after_lock', 0), after_lock)


def check_mapping(sim, model, case, where):
    mem = sim.memory
    if mem.o7ffd != model.last:
        raise Violation('paging:o7ffd', '%s: memory.o7ffd=%d, last accepted write %d' % (where, mem.o7ffd, model.last), case)
    view = mem.memory
    want = (mem.roms[(model.last >> 4) & 1], mem.banks[5], mem.banks[2], mem.banks[model.last & 7])
    for q in range(4):
        if view[q] is not want[q]:
            raise Violation('paging:view%d' % q, '%s: wrong memory mapped at 0x%04X (last accepted 0x7FFD value %d)' % (where, q * 0x4000, model.last), case)
    tr = sim.tracer
    if tr is not None and hasattr(tr, 'out7ffd') and tr.out7ffd != model.last:
        raise Violation('paging:tracer', '%s: tracer.out7ffd=%d, last accepted write %d' % (where, tr.out7ffd, model.last), case)


def program_oracle(case, rec=None):
    stats = {}
    for impl in simdrv.IMPLS:
        run_program(case, impl, stats)
    if rec is not None:
        nt = stats.get('accepted', 0) >= 2 or stats.get('after_lock', 0) > 0 or _stores_low(case)
        rec.case(c06._key(case), nt, ['prog:' + case['model']] + (['prog:after-lock'] if stats.get('after_lock') else []), c06._sample(case))


def _stores_low(case):
    r = case['regs']
    return r['SP'] <= 0x4002 or r['HL'] < 0x4000 or r['DE'] < 0x4000 or r['IX'] < 0x4080 or r['IY'] < 0x4080


# --- (2) stateful histories ----------------------------------------------------
SCRATCH = 0xBE00       # in bank 2 (fixed at 0x8000)
PORTS = [0x7FFD, 0x7FFD, 0x7FFD, 0x0000, 0x00FD, 0x3FFD, 0x7FFC, 0x5FF9, 0xFFFD, 0xBFFD, 0x7FFF, 0x7FFE, 0x80FD, 0x00FE, 0x1234]
ADDRS = st.one_of(st.sampled_from([0x0000, 0x0001, 0x3FFE, 0x3FFF, 0x4000, 0x4001, 0x7FFE, 0x7FFF, 0x8000, 0x8001, 0xBDFE, 0xBFFF, 0xC000, 0xC001, 0xFFFE, 0xFFFF]),
                  st.integers(0, 65535))
STORE_FORMS = ['ld_nn_a', 'ld_hl_n', 'ld_ix_n', 'push', 'ld_nn_hl', 'ld_nn_sp', 'ldir2', 'ex_sp_hl', 'rld', 'ini', 'set_ix_b', 'inc_hl', 'ld_de_a', 'call']


class Machine128(RuleBasedStateMachine):
    rec = None
    excluded = frozenset()

    def __init__(self):
        super().__init__()
        self.sim = None
        self.dead = False

    def _guard(self, fn, *args):
        if self.sim is None or self.dead:
            return
        try:
            fn(self, *args)
        except Violation as v:
            if v.sig in self.excluded or (self.rec is not None and self.rec.is_known(v)):
                self.dead = True     # already reported / known class: stop this history quietly
                return
            raise

    @initialize(impl=st.sampled_from(simdrv.IMPLS), o7ffd=st.one_of(st.sampled_from([0, 0x10, 7, 0x17]), st.integers(0, 31)),
                seed=st.integers(0, 2 ** 16))
    def init(self, impl, o7ffd, seed):
        self.impl = impl
        self.hist = [['init', impl, o7ffd, seed]]
        self.sim, self.tracer, self.model, self.roms0 = new_machine(impl, o7ffd, seed)
        self.prev_t = 0
        self.stats = {'accepted': 0, 'after_lock': 0, 'low_store': 0, 'straddle': 0}

    def _where(self):
        return '%s after %d rules' % (self.impl, len(self.hist))

    @rule(port=st.sampled_from(PORTS), value=st.one_of(st.sampled_from([0, 1, 7, 0x10, 0x17, 0x20, 0x27, 0x3F, 0xFF]), st.integers(0, 255)),
          form=st.sampled_from(['out_c_a', 'out_n_a', 'outi', 'out_c_0']))
    def out(self, port, value, form):
        self.hist.append(['out', port, value, form])
        self._guard(do_out, port, value, form)

    @rule(addr=ADDRS, value=st.integers(0, 255), form=st.sampled_from(STORE_FORMS))
    def poke(self, addr, value, form):
        self.hist.append(['poke', addr, value, form])
        self._guard(do_poke, addr, value, form)

    @rule(addr=ADDRS)
    def peek(self, addr):
        self.hist.append(['peek', addr])
        self._guard(do_peek, addr)

    @rule(code=gen_prog.program(SCRATCH, 8), k=st.integers(1, 12))
    def run_random(self, code, k):
        self.hist.append(['run', code, k])
        self._guard(do_run, code, k)

    @invariant()
    def holds(self):
        self._guard(check_state)

    def teardown(self):
        if self.sim is not None and self.rec is not None:
            st_ = self.stats
            nt = st_['accepted'] >= 2 or st_['after_lock'] > 0 or st_['low_store'] > 0 or st_['straddle'] > 0
            klass = ['hist:' + self.impl]
            for k in ('after_lock', 'low_store', 'straddle'):
                if st_[k]:
                    klass.append('hist:' + k)
            self.rec.case(repr(self.hist), nt, klass, {'history': self.hist[:10], 'rules': len(self.hist) - 1})


def new_machine(impl, o7ffd, seed):
    from skoolkit.pagingtracer import Memory
    raw = gen_prog.fill_bytes(seed, 0x20000, 2)
    banks = [list(raw[i * 0x4000:(i + 1) * 0x4000]) for i in range(8)]
    for k in range(8):
        banks[k][0] = 0xB0 + k          # distinguishable through CPU reads
        banks[k][0x3FFF] = 0xC0 + k
    mem = Memory(banks, o7ffd)
    sim = simdrv.sim_class(impl)(mem, {'SP': 0xBDF0}, {'iff': 0, 'im': 1, 'tstates': 0}, {'frame_duration': 70908, 'int_active': 36})
    c06._Tr = c06._Tr or c06._make_tracer_class()
    tracer = c06._Tr(sim, o7ffd, 0)
    sim.set_tracer(tracer)
    roms0 = [bytes(r) for r in sim.memory.roms]
    model = ula.Paging128([bytes(b) for b in banks], roms0, o7ffd)
    return sim, tracer, model, roms0


def _plant(m, code, regs):
    """Write a stub at SCRATCH (directly, not through the CPU) and set registers."""
    sim = m.sim
    for k, b in enumerate(code):
        sim.memory[SCRATCH + k] = b
        m.model.banks[2][SCRATCH - 0x8000 + k] = b
    r = sim.registers
    for name, v in regs.items():
        simdrv.set_regs(r, {name: v})
    r[24] = SCRATCH


def _steps(m, n):
    sim = m.sim
    for _ in range(n):
        pc = int(sim.registers[24])
        try:
            sim.run(pc)
        except Exception as x:
            raise Violation(crash_sig(x, 'sim-' + m.impl), '%s: simulator raised %r' % (m._where(), x), m.hist)
        m.prev_t = check_registers(sim.registers, m.prev_t, m.hist, m._where())


def _sync_ports(m):
    log = m.tracer.log
    n = getattr(m, 'nlog', 0)
    while n < len(log):
        e = log[n]
        n += 1
        if e[0] == 'w':
            if m.model.locked and m.model.decodes(e[1]):
                m.stats['after_lock'] += 1
            if m.model.out(e[1], e[2]):
                m.stats['accepted'] += 1
    m.nlog = n


def do_out(m, port, value, form):
    hi, lo = port >> 8, port & 255
    if form == 'out_n_a':
        value = hi                       # OUT (n),A puts A on the high address byte
        _plant(m, [0xD3, lo], {'a': hi})
        _steps(m, 1)
    elif form == 'outi':
        # OUTI: B is decremented before the port address is formed
        src = 0x9000
        m.sim.memory[src] = value
        m.model.banks[2][src - 0x8000] = value
        _plant(m, [0xED, 0xA3], {'b': (hi + 1) & 255, 'c': lo, 'h': src >> 8, 'l': src & 255})
        _steps(m, 1)
    elif form == 'out_c_0':
        value = 0
        _plant(m, [0xED, 0x71], {'b': hi, 'c': lo})
        _steps(m, 1)
    else:
        _plant(m, [0xED, 0x79], {'b': hi, 'c': lo, 'a': value})
        _steps(m, 1)
    # the model is driven independently of the tracer log here
    if m.model.locked and m.model.decodes(port):
        m.stats['after_lock'] += 1
    if m.model.out(port, value):
        m.stats['accepted'] += 1
    m.nlog = len(m.tracer.log)


def do_poke(m, addr, value, form):
    model = m.model
    a1 = (addr + 1) & 0xFFFF
    if addr < 0x4000 or a1 < 0x4000:
        m.stats['low_store'] += 1
    two = form in ('push', 'ld_nn_hl', 'ld_nn_sp', 'ldir2', 'ex_sp_hl', 'call')
    if two and (addr >> 14) != (a1 >> 14):
        m.stats['straddle'] += 1
    v2 = value ^ 0xA5
    writes = []
    if form == 'ld_nn_a':
        _plant(m, [0x32, addr & 255, addr >> 8], {'a': value}); n = 1
        writes = [(addr, value)]
    elif form == 'ld_hl_n':
        _plant(m, [0x36, value], {'h': addr >> 8, 'l': addr & 255}); n = 1
        writes = [(addr, value)]
    elif form == 'ld_ix_n':
        ix = (addr - 0x7F) & 0xFFFF
        _plant(m, [0xDD, 0x36, 0x7F, value], {'ixh': ix >> 8, 'ixl': ix & 255}); n = 1
        writes = [(addr, value)]
    elif form == 'push':
        sp = (addr + 2) & 0xFFFF
        _plant(m, [0xC5], {'sp': sp, 'b': v2, 'c': value}); n = 1
        writes = [(a1, v2), (addr, value)]
    elif form == 'call':
        sp = (addr + 2) & 0xFFFF
        _plant(m, [0xCD, 0x10, 0xBE], {'sp': sp}); n = 1
        ret = SCRATCH + 3
        writes = [(a1, ret >> 8), (addr, ret & 255)]
    elif form == 'ld_nn_hl':
        _plant(m, [0x22, addr & 255, addr >> 8], {'h': v2, 'l': value}); n = 1
        writes = [(addr, value), (a1, v2)]
    elif form == 'ld_nn_sp':
        _plant(m, [0xED, 0x73, addr & 255, addr >> 8], {'sp': value | (v2 << 8)}); n = 1
        writes = [(addr, value), (a1, v2)]
    elif form == 'ldir2':
        src = 0x9100
        for k, b in enumerate((value, v2)):
            m.sim.memory[src + k] = b
            model.banks[2][src - 0x8000 + k] = b
        _plant(m, [0xED, 0xB0], {'h': src >> 8, 'l': src & 255, 'd': addr >> 8, 'e': addr & 255, 'b': 0, 'c': 2}); n = 2
        writes = [(addr, value), (a1, v2)]
    elif form == 'ex_sp_hl':
        _plant(m, [0xE3], {'sp': addr, 'h': v2, 'l': value}); n = 1
        writes = [(a1, v2), (addr, value)]
    elif form == 'rld':
        old = model.read(addr)
        _plant(m, [0xED, 0x6F], {'h': addr >> 8, 'l': addr & 255, 'a': value}); n = 1
        writes = [(addr, ((old << 4) | (value & 15)) & 255)]
    elif form == 'ini':
        # the value comes from the tracer's deterministic read_port
        port = 0x12FE
        v = (port * 31 + (port >> 8) * 7 + len(m.tracer.log) * 13 + m.tracer.salt) & 255
        _plant(m, [0xED, 0xA2], {'h': addr >> 8, 'l': addr & 255, 'b': port >> 8, 'c': port & 255}); n = 1
        writes = [(addr, v)]
    elif form == 'set_ix_b':
        ix = (addr + 0x80) & 0xFFFF
        old = model.read(addr)
        _plant(m, [0xDD, 0xCB, 0x80, 0xC0], {'ixh': ix >> 8, 'ixl': ix & 255}); n = 1      # SET 0,(IX-128),B
        writes = [(addr, old | 1)]
    elif form == 'inc_hl':
        old = model.read(addr)
        _plant(m, [0x34], {'h': addr >> 8, 'l': addr & 255}); n = 1
        writes = [(addr, (old + 1) & 255)]
    elif form == 'ld_de_a':
        _plant(m, [0x12], {'d': addr >> 8, 'e': addr & 255, 'a': value}); n = 1
        writes = [(addr, value)]
    # a store that overwrites the stub itself before it is fetched would change the program: keep clear
    if any(SCRATCH - 2 <= a <= SCRATCH + 8 for a, _ in writes):
        return
    _steps(m, n)
    for a, v in writes:
        model.write(a, v)
    m.nlog = len(m.tracer.log)


def do_peek(m, addr):
    _plant(m, [0x3A, addr & 255, addr >> 8], {'a': 0})
    _steps(m, 1)
    got = int(m.sim.registers[0])
    want = m.model.read(addr)
    if got != want:
        raise Violation('paging:cpu-read', '%s: LD A,(0x%04X) read %d, paging model says %d (last accepted 0x7FFD value %d)' % (
            m._where(), addr, got, want, m.model.last), m.hist)


def do_run(m, code, k):
    code = list(code)[:48]
    _plant(m, code, {'sp': 0xBDF0})
    m.nlog = len(m.tracer.log)
    for _ in range(k):
        _steps(m, 1)
        _sync_ports(m)
        check_mapping(m.sim, m.model, m.hist, m._where())
    # unmodelled stores: re-synchronise the shadow banks
    m.model.banks = [bytearray(mem_bytes(b, m.hist, m._where())) for b in m.sim.memory.banks]


def check_state(m):
    sim, model = m.sim, m.model
    where = m._where()
    check_mapping(sim, model, m.hist, where)
    for k, r in enumerate(sim.memory.roms):
        if mem_bytes(r, m.hist, where) != m.roms0[k]:
            raise Violation('rom-modified', '%s: 128K ROM %d was modified' % (where, k), m.hist)
    for k, b in enumerate(sim.memory.banks):
        if mem_bytes(b, m.hist, where) != bytes(model.banks[k]):
            got = mem_bytes(b, m.hist, where)
            bad = [i for i in range(16384) if got[i] != model.banks[k][i]][:4]
            raise Violation('bank-content', '%s: bank %d differs from the model at offsets %r (a write reached the wrong bank or was lost)' % (where, k, bad), m.hist)


def replay_history(hist):
    class M:
        pass
    m = M()
    _, impl, o7ffd, seed = hist[0]
    m.impl = impl
    m.hist = [hist[0]]
    m.sim, m.tracer, m.model, m.roms0 = new_machine(impl, o7ffd, seed)
    m.prev_t = 0
    m.stats = {'accepted': 0, 'after_lock': 0, 'low_store': 0, 'straddle': 0}
    m._where = lambda: '%s after %d rules' % (impl, len(m.hist))
    check_state(m)
    for op in hist[1:]:
        m.hist.append(op)
        if op[0] == 'out':
            do_out(m, op[1], op[2], op[3])
        elif op[0] == 'poke':
            do_poke(m, op[1], op[2], op[3])
        elif op[0] == 'peek':
            do_peek(m, op[1])
        elif op[0] == 'run':
            do_run(m, op[1], op[2])
        check_state(m)
    return m


def ddmin_history(hist, sig, budget_s=40.0):
    """Delta-debug a failing history (list of ops after the init entry) keeping the same signature."""
    import time
    t0 = time.time()

    def fails(h):
        try:
            replay_history(h)
        except Violation as v:
            return v.sig == sig
        except Exception:
            return False
        return False
    head, ops = hist[:1], hist[1:]
    n = 2
    while len(ops) >= 2 and time.time() - t0 < budget_s:
        chunk = max(1, len(ops) // n)
        reduced = False
        for i in range(0, len(ops), chunk):
            cand = ops[:i] + ops[i + chunk:]
            if cand and fails(head + cand):
                ops = cand
                n = max(n - 1, 2)
                reduced = True
                break
        if not reduced:
            if chunk == 1:
                break
            n = min(len(ops), n * 2)
    return head + ops


def run_stateful(shard, rec):
    """Hypothesis stateful run; a failure is reported with its minimised JSON history
    (Hypothesis' own shrinker is not used: it has no time bound; ddmin over the history is)."""
    from hypothesis import Phase
    excluded = set()
    for _ in range(3):
        M = type('M', (Machine128,), {'rec': rec, 'excluded': frozenset(excluded)})
        settings_ = settings(max_examples=shard['n'], stateful_step_count=shard['steps'], deadline=None, database=None,
                             derandomize=False, report_multiple_bugs=False, verbosity=hypothesis.Verbosity.quiet,
                             phases=[Phase.generate], suppress_health_check=list(HealthCheck))
        try:
            run_state_machine_as_test(hypothesis.seed(shard['seed'])(M), settings=settings_)
        except Violation as v:
            if v.case is not None:
                v.case = ddmin_history([list(x) for x in v.case], v.sig)
            rec.violation(v)
            excluded.add(v.sig)
            continue
        break


# --- (3) exhaustive paging sequences -------------------------------------------
def run_exhaustive(shard, rec):
    impl = shard['impl']
    n = 0
    lo, hi = shard['v1']

    def fresh():
        sim, tracer, model, roms0 = new_machine(impl, 0, 12345)
        return sim, tracer, model

    def out(sim, port, value):
        r = sim.registers
        sim.memory[SCRATCH] = 0xED
        sim.memory[SCRATCH + 1] = 0x79
        r[2], r[3], r[0] = port >> 8, port & 255, value
        sim.run(SCRATCH)

    def probe(sim, model, seq):
        case = {'impl': impl, 'sequence': seq}
        check_mapping(sim, model, case, '%s after %r' % (impl, seq))
        r = sim.registers
        for addr in (0xC000, 0xFFFF, 0x0000 + 0x3FFF, 0x4000, 0x8000):
            sim.memory[SCRATCH + 2] = 0x3A
            sim.memory[SCRATCH + 3] = addr & 255
            sim.memory[SCRATCH + 4] = addr >> 8
            sim.run(SCRATCH + 2)
            model.banks[2][SCRATCH - 0x8000:SCRATCH - 0x8000 + 5] = bytes(sim.memory[SCRATCH + k] for k in range(5))
            if int(r[0]) != model.read(addr):
                raise Violation('paging:cpu-read', '%s after writes %r: LD A,(0x%04X) read %d, model %d' % (impl, seq, addr, int(r[0]), model.read(addr)), case)

    if shard['kind'] == 'ports':
        ports = [0x7FFD, 0x0000, 0x00FD, 0x3FFD, 0x7FFC, 0x5FF9, 0x7EFD, 0x0001, 0xFFFD, 0xBFFD, 0x7FFF, 0x7FFE, 0x80FD, 0x8000, 0x00FF, 0xFFFF]
        for port in ports:
            sim, tracer, model = fresh()
            for v in range(256):
                if model.locked:
                    sim, tracer, model = fresh()
                try:
                    out(sim, port, v)
                    model.out(port, v)
                    probe(sim, model, [[port, v]])
                except Violation as x:
                    rec.violation(x)
                    sim, tracer, model = fresh()
                n += 1
        rec.sample('exhaustive:ports', {'impl': impl, 'ports': ports, 'values': '0..255'})
    else:
        for v1 in range(lo, hi):
            sim, tracer, model = fresh()
            out(sim, 0x7FFD, v1)
            model.out(0x7FFD, v1)
            for v2 in range(256):
                try:
                    out(sim, 0x7FFD, v2)
                    model.out(0x7FFD, v2)
                    probe(sim, model, [[0x7FFD, v1], [0x7FFD, v2]])
                except Violation as x:
                    rec.violation(x)
                n += 1
                if v1 & 0x20:
                    continue            # locked: the state cannot change any more
                if v2 & 0x20:
                    sim, tracer, model = fresh()
                    out(sim, 0x7FFD, v1)
                    model.out(0x7FFD, v1)
                else:
                    out(sim, 0x7FFD, v1)
                    model.out(0x7FFD, v1)
        rec.sample('exhaustive:pairs', {'impl': impl, 'sequence': '[[0x7FFD, v1], [0x7FFD, v2]] for v1 in %d..%d, v2 in 0..255' % (lo, hi - 1)})
    rec.bulk(n, n, 'exhaustive:%s:%s' % (shard['kind'], impl))
    rec.exhaustive = True


@st.composite
def seq3(draw):
    impl = draw(st.sampled_from(simdrv.IMPLS))
    seq = draw(st.lists(st.tuples(st.sampled_from(PORTS), st.integers(0, 255)), min_size=3, max_size=3))
    return {'impl': impl, 'sequence': [list(x) for x in seq]}


def seq_oracle(case, rec=None):
    impl = case['impl']
    sim, tracer, model, roms0 = new_machine(impl, 0, 12345)
    accepted = after_lock = 0
    for port, v in case['sequence']:
        r = sim.registers
        sim.memory[SCRATCH] = 0xED
        sim.memory[SCRATCH + 1] = 0x79
        model.banks[2][SCRATCH - 0x8000:SCRATCH - 0x8000 + 2] = b'\xed\x79'
        r[2], r[3], r[0] = port >> 8, port & 255, v
        sim.run(SCRATCH)
        if model.locked and model.decodes(port):
            after_lock += 1
        accepted += model.out(port, v)
        check_mapping(sim, model, case, '%s after %r' % (impl, case['sequence']))
    for addr in (0xC000, 0x3FFF):
        sim.memory[SCRATCH + 2] = 0x3A
        sim.memory[SCRATCH + 3] = addr & 255
        sim.memory[SCRATCH + 4] = addr >> 8
        sim.run(SCRATCH + 2)
        if int(sim.registers[0]) != model.read(addr):
            raise Violation('paging:cpu-read', '%s after writes %r: LD A,(0x%04X) read %d, model %d' % (impl, case['sequence'], addr, int(sim.registers[0]), model.read(addr)), case)
    if rec is not None:
        rec.case(repr(case), accepted >= 2 or after_lock > 0, 'seq3', case)


# --- plan ------------------------------------------------------------------------
def plan(tier, seed):
    shards = []
    for impl in simdrv.IMPLS:
        shards.append({'kind': 'ports', 'impl': impl, 'v1': [0, 0]})
        for q in range(4):
            shards.append({'kind': 'pairs', 'impl': impl, 'v1': [q * 64, q * 64 + 64]})
    nprog = 1600 if tier == 'quick' else 24000
    for i in range(16):
        shards.append({'kind': 'prog', 'tier': tier, 'n': nprog // 16, 'seed': shard_seed(seed, PROPERTY, 'p%d' % i)})
    nhist = 3000 if tier == 'quick' else 12000
    for i in range(16):
        shards.append({'kind': 'hist', 'n': nhist // 16, 'steps': 40 if tier == 'quick' else 80, 'seed': shard_seed(seed, PROPERTY, 'h%d' % i)})
    nsk = 3200 if tier == 'quick' else 80000
    for i in range(4):
        shards.append({'kind': 'skmem', 'n': nsk // 4, 'seed': shard_seed(seed, PROPERTY, 'k%d' % i)})
    nseq = 8000 if tier == 'quick' else 160000
    for i in range(8):
        shards.append({'kind': 'seq3', 'n': nseq // 8, 'seed': shard_seed(seed, PROPERTY, 's%d' % i)})
    return shards


# ---------------------------------------------------------------------------- skoolutils.Memory (the third paging implementation)
SKMEM_OP = st.one_of(
    st.tuples(st.just('load'), st.integers(0, 7), st.integers(1, 255)),
    st.tuples(st.just('page'), st.integers(0, 7)),
    st.tuples(st.just('out'), st.sampled_from([0x7FFD, 0x7FFD, 0x00FD, 0x7FFF, 0xFFFD]), st.integers(0, 255)),
    st.tuples(st.just('poke'), st.sampled_from([0x4000, 0x4100, 0x7FFF, 0x8000, 0xBFFF, 0xC000, 0xC100, 0xFFFF]) | st.integers(0x4000, 0xFFFF), st.integers(0, 255)),
    st.tuples(st.just('slice'), st.sampled_from([0x7FFE, 0xBFFE, 0xFFFC, 0x4000, 0xC000]), st.integers(1, 6), st.integers(0, 255)),
    st.tuples(st.just('copy')),
    st.tuples(st.just('convert')),
)
skmem_cases = st.builds(lambda ops: {'skmem': [list(o) for o in ops]}, st.lists(SKMEM_OP, min_size=2, max_size=14))


def skmem_oracle(case, rec=None):
    """skoolutils.Memory (memory of the skool parser, #SIM, #AUDIO, skool2bin) with skoolmacro.PagingTracer, against a
    model: 8 banks, banks 5/2 fixed at 0x4000/0x8000, the paged bank at 0xC000, ROM untouched, every write in one bank."""
    from skoolkit.skoolutils import Memory
    from skoolkit.skoolmacro import PagingTracer
    mem = Memory()
    mem.bank(0)                       # 128K from the start
    tracer = PagingTracer(mem, mem.o7ffd, 0, [0] * 16)
    model = ula.Paging128([bytes(16384)] * 8, [bytes(r) for r in mem.roms], 0)
    ops = case['skmem']
    paged = False
    for n, op in enumerate(ops):
        k = op[0]
        if k == 'load':
            data = [(op[2] + 7 * i) & 255 for i in range(16384)]
            mem.bank(op[1], data)
            model.banks[op[1]] = bytearray(data)
        elif k == 'page':
            mem.bank(op[1])
            model.last = (model.last & 0xF8) | op[1]
            paged = True
        elif k == 'out':
            tracer.write_port(None, op[1], op[2], 0)
            model.out(op[1], op[2])
        elif k == 'poke':
            mem[op[1]] = op[2]
            model.write(op[1], op[2])
        elif k == 'slice':
            a, cnt, v = op[1], op[2], op[3]
            vals = [(v + i) & 255 for i in range(cnt)]
            if a + cnt <= 0x10000:
                mem[a:a + cnt] = vals
                for i, x in enumerate(vals):
                    model.write(a + i, x)
        elif k == 'copy':
            mem = mem.copy()
            tracer = PagingTracer(mem, tracer.out7ffd, 0, [0] * 16)
        elif k == 'convert':
            mem.convert()
        where = 'after op %d %r' % (n + 1, op)
        page = model.last & 7
        for p in range(8):
            if bytes(mem.banks[p]) != bytes(model.banks[p]):
                i = next(i for i in range(16384) if mem.banks[p][i] != model.banks[p][i])
                raise Violation('skmem:bank', 'skoolutils.Memory %s: RAM bank %d offset %d holds %d, model %d' % (where, p, i, mem.banks[p][i], model.banks[p][i]), case)
        for base, p in ((0x4000, 5), (0x8000, 2), (0xC000, page)):
            for off in (0, 1, 0x100, 0x3FFF):
                if mem[base + off] != model.banks[p][off]:
                    raise Violation('skmem:mapping', 'skoolutils.Memory %s: address %d reads %d, bank %d holds %d there (mis-paged)' % (
                        where, base + off, mem[base + off], p, model.banks[p][off]), case)
        rom = (model.last >> 4) & 1
        if any(mem[a] != model.roms[rom][a] for a in (0, 1, 0x38, 0x1000, 0x3FFF)):
            raise Violation('skmem:rom', 'skoolutils.Memory %s: ROM %d is not what is read at 0x0000-0x3FFF' % (where, rom), case)
    if rec is not None:
        kinds = set(o[0] for o in ops)
        rec.case(repr(ops), 'load' in kinds and ('page' in kinds or 'out' in kinds), ['skmem'] + ['skmem:' + k for k in sorted(kinds)], case)


def run_shard(shard, rec):
    k = shard['kind']
    if k in ('ports', 'pairs'):
        run_exhaustive(shard, rec)
    elif k == 'prog':
        hyp_run(rec, c06.cases(shard['tier']), lambda c: program_oracle(c, rec), shard['n'], shard['seed'])
    elif k == 'hist':
        run_stateful(shard, rec)
    elif k == 'skmem':
        hyp_run(rec, skmem_cases, lambda c: skmem_oracle(c, rec), shard['n'], shard['seed'])
    else:
        hyp_run(rec, seq3(), lambda c: seq_oracle(c, rec), shard['n'], shard['seed'], shrink=False)


def replay(case):
    if isinstance(case, list):
        replay_history(case)
    elif 'skmem' in case:
        skmem_oracle(case)
    elif 'sequence' in case:
        seq_oracle(case)
    else:
        program_oracle(case)


MANIFEST_ENTRY = {
    'technique': 'stateful (rule-based) model testing against a paging/shadow-bank reference, per-step invariants over generated programs, and complete enumeration of short 0x7FFD write sequences',
    'level_text': 'Invariants (ROM identical, register ranges, cell ranges, T monotone, mapping = last accepted 0x7FFD write, lock bit, banks 5/2 fixed, a store reaches exactly the bank the model routes it to) are checked after every instruction of generated programs and after every rule of Hypothesis state-machine histories whose rules are executed by the simulated CPU (14 store forms, 4 OUT forms, CPU read-back, random code) on all four implementations; all 1- and 2-element value sequences to 0x7FFD and 256 values x 16 ports are enumerated completely. A third paging implementation, skoolutils.Memory with skoolmacro.PagingTracer (memory of the skool parser and the simulator macros), is driven through generated sequences of bank loads, paging calls, port writes, pokes, slice writes, copy() and convert() against the same model.',
    'level_note': 'Trusted: ref/ula.Paging128 (30 lines). After unmodelled random code the shadow banks are re-synchronised, so lost/misrouted stores are detected for modelled store forms only; mapping, ROM and ranges are always exact.',
}
