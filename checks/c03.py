"""C03 - skool -> control file -> skool round trip retains every annotation and directive.

S1 = sna2skool(mem, ctl0); ctl1 = skool2ctl -b (S1); S2 = sna2skool(mem, ctl1):
S2 must equal S1 byte for byte, and skool2ctl(S2) must equal ctl1 (fixed point).
ctl0 (generated: C01's structural plan + an annotation layer) is only the means
of obtaining "a skool file in the form sna2skool itself writes".
"""
import difflib

from hypothesis import strategies as st

from vlib.runner import Violation, hyp_run, shard_seed, crash_sig
from vlib import cli, gen_skool

PROPERTY = 'C03'
RULE = ('C01\'s generator (image, options, constructive control file) extended with an annotation layer: titles, D/R/N/E '
        'paragraphs, register prefixes and delimited names, instruction comments on sub-blocks (incl. blank and dots-only), M '
        'group comments, dot/colon continuation lines, @ directives (label, keep, nowarn, ignoreua[:x][=addrs], *sub/*fix, org, '
        'equ, assemble), > header/footer blocks, L loops; skool2ctl options -b always, -k, -h/-l; sna2skool -H, -l, -w, '
        'ListRefs=0. Non-trivial: S1 contains a multi-instruction comment, a non-default base or an @ directive; distinct = '
        'digest of (bytes, ctl0, options).')
ASSUMPTIONS = [
    'words consisting only of dots are not generated in title/D/N/E/R text (a lone "." line is the paragraph separator)',
    'braces in comments are generated balanced, properly nested and not as first or last character (the documented brace rules cannot represent other placements)',
    'a ctl0 that makes sna2skool print a warning is outside the precondition (counted, not judged)',
]

WORDS = ['foo', 'bar', 'baz', 'A', 'the', 'HL', 'of', 'x', '#R32768', 'x.', 'e.g.', 'qux;', 'a;b', '"q"', ':', ',', '(IX+2)', '$8000', '#N(5,,,1)(0x)',
         'loooooooooooooooooooooooooooooooooooooooooooooooooooooooooooooooooong', 'i.e', '-', '*', 'B', 'C', '1', '65535']
BRACED = ['a{b}c', 'x{y{z}}w', 'p{q}r{s}t']
WORD = st.sampled_from(WORDS)
TEXT = st.lists(WORD, min_size=1, max_size=14).map(' '.join)
TEXT_B = st.lists(st.one_of(WORD, WORD, st.sampled_from(BRACED)), min_size=2, max_size=14).map(
    lambda ws: ' '.join(ws) if not (ws[0] in BRACED or ws[-1] in BRACED) else ' '.join(['w'] + ws + ['z']))
REGS = ['A', 'HL', 'BC', 'DE', 'IX', '(HL)', 'I:A', 'O:DE', 'Input:B', '(IX+0)', '[HL]', "A'"]
P = lambda k: st.integers(0, 99).map(lambda v: v < k)


@st.composite
def annotate(draw, lines, level=3, keep=False):
    out = []
    stats = {'M': 0, 'at': 0, 'dots': 0, 'cont': 0, 'hdr': 0}
    last_block = None
    for line in lines:
        d = line[0]
        rest = line[2:]
        addr = rest.split(',')[0].split()[0]
        if d == '@':
            out.append(line)
            continue
        if d in 'bcgstuw':
            last_block = addr
            if draw(P(20)):
                out.append('> %s ; %s' % (addr, draw(TEXT)))
                if draw(P(30)):
                    out.append('> %s ; %s' % (addr, draw(TEXT)))
                stats['hdr'] += 1
            tmode = draw(st.integers(0, 9))
            has_title = tmode < 7
            has_d, has_r, has_n, has_e = draw(P(35)), draw(P(30)), draw(P(25)), draw(P(25))
            if draw(P(25)):
                pool = ['label=L%s' % addr.replace('$', 'h'), 'keep', 'nowarn', 'equ=FOO=1', 'assemble=2', 'org', 'isub=NOP', 'bfix=XOR A',
                        'rsub=INC A ; {x}', 'ignoreua', 'ignoreua=40000', 'keep=1,2', 'nowarn=3', 'ofix=LD A,1', 'ssub=DEFB 1']
                # an @ignoreua for a comment type is only meaningful when that comment exists
                if has_title:
                    pool += ['ignoreua:t', 'ignoreua:t=32768']
                if has_d:
                    pool += ['ignoreua:d', 'ignoreua:d=32768,32770']
                if has_r:
                    pool += ['ignoreua:r']
                if has_n:
                    pool += ['ignoreua:m', 'ignoreua:m=1,2']
                if has_e:
                    pool += ['ignoreua:e']
                out.append('@ %s %s' % (addr, draw(st.sampled_from(pool))))
                stats['at'] += 1
            if tmode < 5 or (tmode < 7 and not keep):
                out.append('%s %s' % (line, draw(TEXT)))
            elif tmode < 7:
                out.append(line)
                for t in draw(st.lists(TEXT, min_size=1, max_size=2)):
                    out.append('. ' + t)
                stats['cont'] += 1
            else:
                out.append(line)
            if has_d:
                for t in draw(st.lists(TEXT, min_size=1, max_size=3)):
                    out.append('D %s %s' % (addr, t))
            if has_r:
                for _ in range(draw(st.integers(1, 3))):
                    out.append('R %s %s %s' % (addr, draw(st.sampled_from(REGS)), draw(TEXT)))
            if has_n:
                for t in draw(st.lists(TEXT, min_size=1, max_size=2)):
                    out.append('N %s %s' % (addr, t))
            if has_e:
                for t in draw(st.lists(TEXT, min_size=1, max_size=2)):
                    out.append('E %s %s' % (addr, t))
        elif d == 'i' and ' ' not in rest and draw(P(40)):
            # an ignored block is an entry like any other: title, description, registers, start and end comments
            last_block = addr
            out.append('%s %s' % (line, draw(TEXT)))
            if draw(P(40)):
                out.append('D %s %s' % (addr, draw(TEXT)))
            if draw(P(30)):
                out.append('R %s %s %s' % (addr, draw(st.sampled_from(REGS)), draw(TEXT)))
            if draw(P(50)):
                out.append('N %s %s' % (addr, draw(TEXT)))
            if draw(P(30)):
                out.append('E %s %s' % (addr, draw(TEXT)))
            stats['i-annotated'] = stats.get('i-annotated', 0) + 1
        elif d in 'BCSTW':
            if level > 1 and draw(P(15)) and addr != last_block:
                out.append('N %s %s' % (addr, draw(TEXT)))
            mode = draw(st.integers(0, 11))
            if draw(P(10)):
                pool = ['label=X%s' % addr.replace('$', 'h'), 'keep', 'nowarn', 'isub=NOP', 'ofix=XOR A ; hi', 'bfix=DEFB 2']
                if mode < 5:
                    pool += ['ignoreua', 'ignoreua=1']     # only meaningful when the instruction has a comment
                out.append('@ %s %s' % (addr, draw(st.sampled_from(pool))))
                stats['at'] += 1
            if mode < 5:
                out.append('%s %s' % (line, draw(TEXT_B if level > 2 else TEXT)))
            elif mode == 5:
                out.append('%s %s' % (line, draw(st.sampled_from(['.', '..', '...', '....']))))
                stats['dots'] += 1
            elif mode == 6 and keep:
                # forced line breaks survive only with skool2ctl -k
                out.append(line)
                for t in draw(st.lists(TEXT, min_size=1, max_size=3)):
                    out.append(draw(st.sampled_from(['. ', '. ', ': '])) + t)
                stats['cont'] += 1
            else:
                out.append(line)
        elif d == 'M':
            stats['M'] += 1
            mode = draw(st.integers(0, 4))
            if mode < 3:
                out.append('%s %s' % (line, draw(TEXT_B)))
            elif mode == 3:
                out.append('%s %s' % (line, draw(st.sampled_from(['.', '..', '...']))))
                stats['dots'] += 1
            else:
                out.append(line)
        else:
            out.append(line)
    if last_block is not None and draw(P(15)):
        # the footer belongs to the last entry of the file (the terminating i entry if there is one)
        last = lines[-1][2:].split()[0] if lines[-1].startswith('i ') else last_block
        out.append('> %s,1 ; %s' % (last, draw(TEXT)))
        stats['hdr'] += 1
    return out, stats


@st.composite
def cases(draw, tier):
    start, data = draw(gen_skool.images(200 if tier == 'quick' else 1500))
    o = draw(gen_skool.options(rst=False))
    lines, info = draw(gen_skool.plans(start, data, o))
    copts = draw(st.sampled_from([[], ['-k'], ['-h'], ['-l'], ['-k', '-h'], ['-k', '-l']]))
    lines, stats = draw(annotate(lines, 3, '-k' in copts))
    return {'start': start, 'data': bytes(data).hex(), 'opts': o, 'ctl': '\n'.join(lines) + '\n',
            'copts': copts,
            '_stats': dict(stats, bases=info['bases'], L=info['L'])}


def oracle(case, rec=None):
    data = bytes.fromhex(case['data'])
    start = case['start']
    o = case['opts']
    with cli.Scratch('c03-') as s:
        binf = s.write('in.bin', data)
        argv = gen_skool.sna2skool_argv(o) + ['-o', start, '-I', 'ListRefs=0']

        def s2s(ctl, name):
            r = cli.run('sna2skool', argv + ['-c', s.write(name, ctl), binf])
            if r.exc is not None:
                raise Violation(crash_sig(r.exc, 'sna2skool'), 'sna2skool raised %r (%s)' % (r.exc, name), case)
            if not r.ok:
                raise Violation('sna2skool-exit', 'sna2skool exited %r: %s' % (r.code, r.err[-300:]), case)
            return r

        def s2c(skool, name):
            r = cli.run('skool2ctl', ['-b'] + case['copts'] + [s.write(name, skool)])
            if r.exc is not None:
                raise Violation(crash_sig(r.exc, 'skool2ctl'), 'skool2ctl raised %r' % r.exc, case)
            if not r.ok:
                raise Violation('skool2ctl-exit', 'skool2ctl exited %r: %s' % (r.code, r.err[-300:]), case)
            return r.out

        r1 = s2s(case['ctl'], 'c0.ctl')
        if r1.warnings():
            if rec is not None:
                rec.note('precondition:sna2skool-warning')
            return 'precondition'
        S1 = r1.out
        ctl1 = s2c(S1, 's1.skool')
        r2 = s2s(ctl1, 'c1.ctl')
        S2 = r2.out
        if S2 != S1:
            diff = [l for l in difflib.unified_diff(S1.splitlines(), S2.splitlines(), lineterm='', n=1)][2:14]
            sig = _classify(S1, S2, diff)
            brace_moved = any(l[:1] in '+-' and l.rstrip().endswith('}') for l in diff)
            if (sig == 'diff:comment-braces' or (sig == 'diff:line-count' and brace_moved)) and _m_end_off_directive(ctl1):
                # (line-count form: the closing brace sat on a continuation line of its own and moves onto the next instruction)
                sig = 'diff:comment-braces:M-end-not-on-directive'
            raise Violation(sig, 'skool -> ctl -> skool differs:\n' + '\n'.join(diff), case)
        if r2.warnings():
            raise Violation('warning-on-regenerated-ctl', 'sna2skool warns about the control file skool2ctl wrote: %s' % r2.warnings()[0], case)
        ctl2 = s2c(S2, 's2.skool')
        if ctl2 != ctl1:
            diff = [l for l in difflib.unified_diff(ctl1.splitlines(), ctl2.splitlines(), lineterm='', n=1)][2:12]
            raise Violation('ctl-not-fixed-point', 'second skool2ctl differs:\n' + '\n'.join(diff), case)
    if rec is not None:
        st_ = case.get('_stats') or {}
        multi = '; {' in S1
        nt = multi or bool(st_.get('bases')) or bool(st_.get('at'))
        klass = ['copts:' + ''.join(case['copts'])]
        for k in ('M', 'at', 'dots', 'cont', 'hdr', 'L'):
            if st_.get(k):
                klass.append('has:' + k)
        if multi:
            klass.append('multi-instruction-comment')
        rec.case((case['data'], case['ctl'], repr(sorted(o.items())), tuple(case['copts'])), nt, klass,
                 {'start': start, 'len': len(data), 'opts': o, 'copts': case['copts'], 'ctl': case['ctl'][:500]})
    return 'ok'


def _m_end_off_directive(ctl):
    """True if the control file skool2ctl wrote has an M directive with an explicit length whose end address is
    not the address of any other directive (its last sub-block was left implicit)."""
    starts = set()
    ms = []
    for line in ctl.split('\n'):
        if len(line) > 2 and line[0] in 'bcgistuwBCSTWMN ' and line[1] == ' ':
            f = line[2:].split(' ')[0].split(',')
            try:
                a = int(f[0][1:], 16) if f[0].startswith('$') else int(f[0])
            except ValueError:
                continue
            if line[0] == 'M':
                if len(f) > 1 and f[1].isdigit():
                    ms.append(a + int(f[1]))
            else:
                starts.add(a)
    return any(e not in starts for e in ms)


def _classify(S1, S2, diff):
    minus = [l[1:] for l in diff if l.startswith('-')]
    plus = [l[1:] for l in diff if l.startswith('+')]
    if minus and plus and len(minus) == len(plus):
        m, p = minus[0], plus[0]
        if m.rstrip().endswith('}') != p.rstrip().endswith('}') or ('; {' in m) != ('; {' in p):
            return 'diff:comment-braces'
        if m.split(';')[0] != p.split(';')[0]:
            return 'diff:instruction-text'
        return 'diff:comment-text'
    if len(minus) != len(plus):
        return 'diff:line-count'
    return 'diff:other'


def plan(tier, seed):
    n = 3200 if tier == 'quick' else 64000
    nsh = 16 if tier == 'quick' else 64
    return [{'kind': 'hyp', 'tier': tier, 'n': n // nsh, 'seed': shard_seed(seed, PROPERTY, i)} for i in range(nsh)]


def run_shard(shard, rec):
    hyp_run(rec, cases(shard['tier']), lambda c: oracle(c, rec), shard['n'], shard['seed'])


def replay(case):
    oracle(case)


def known_class(sig, case):
    # F4: skool2ctl leaves the last (default-base, comment-less) C sub-block of an M group implicit, so the M
    # directive's end address is no directive boundary and sna2skool extends the group comment to the end of that
    # implicit sub-block: only the closing brace moves.
    if sig == 'diff:comment-braces:M-end-not-on-directive':
        return 'F4'
    return None


MANIFEST_ENTRY = {
    'technique': 'round-trip + fixed-point property through sna2skool -> skool2ctl -> sna2skool -> skool2ctl on Hypothesis-generated annotated control files',
    'level_text': 'For each generated (image, annotated control file, options) the skool file sna2skool writes is converted with skool2ctl -b (with -k/-h/-l variants) and regenerated from the same memory; the two skool files must be byte-identical and the second control file must equal the first. The generator covers every directive kind the property lists (block/sub-block types, sublength lists and bases, M/L, D/R/N/E, dot/colon lines, @ directives incl. ignoreua variants, > header/footer).',
    'level_note': 'Sampled, not exhaustive. Text alphabet restricted by the documented limits of the skool/ctl formats (see assumptions). ctl0 is not compared with ctl1 (many control files describe one skool file).',
}
