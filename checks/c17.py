"""C17 - skool macros expand with their documented semantics, identically in every mode.

(a) units: Hypothesis draws an abstract expansion unit (nested lists); ref/macroref
    turns it into the macro text AND the documented expansion in one recursive
    pass; the text is expanded by AsmWriter.expand and HtmlWriter.expand in all
    nine base x case modes and both results must equal the reference (HTML after
    one html.unescape; #SPACE/&#160; and outer whitespace normalised).
(b) histories: a RuleBasedStateMachine appends state-changing macros (#LET incl.
    dictionaries, #POKES with length/step, #PUSHS/#POPS, #DEF) to ONE unit; after
    every rule a probe that reads every variable, every touched address and calls
    every defined macro is appended and the whole unit is compared.
(c) placements: a unit is put in a title / description / register / mid-block /
    instruction / end comment of a skool file and in a ref-file section and run
    through skool2asm.main and skool2html.main: the expansion must be the
    reference value wherever it appears; #PC is checked against its own rule.
"""
import html
import io
import os
import re
import time

import hypothesis
from hypothesis import strategies as st, settings, HealthCheck
from hypothesis.stateful import RuleBasedStateMachine, rule, invariant, initialize, precondition, run_state_machine_as_test

from vlib.runner import Violation, hyp_run, shard_seed, crash_sig, cpu_guarded
from vlib import cli
from ref import macroref
from ref.macroref import OutOfDomain

PROPERTY = 'C17'
RULE = ('An expansion unit is an abstract syntax tree drawn by Hypothesis (macros #EVAL #N #IF #MAP #FOR #FOREACH #WHILE #LET '
        '#FORMAT #DEF(+calls) #PEEK #POKES #PUSHS #POPS #CHR #STR #SPACE #PC, #() pre-expansion, expressions over all 19 '
        'operators, decimal/$hex literals, replacement fields, positional/blank/omitted/keyword integer parameters, every '
        'documented string delimiter form); ref/macroref renders text + documented value together. Units outside the documented '
        'domain are discarded and not counted. A unit is non-trivial if it nests macros at least two deep or performs at least '
        'one state change (#LET/#POKES/#PUSHS/#POPS/#DEF) that is followed by a read; distinct = distinct macro text. One '
        'evaluation = one unit expanded by both writers in all 9 base x case modes (3 modes covering every base and case once if '
        'the unit executes #POPS, which costs ~13 ms per call) (kind unit), one history step = whole unit so far + state probe in '
        'the history\'s mode (kind hist), or one unit in 7 placements x {skool2asm, skool2html} (kind cli).')
ASSUMPTIONS = [
    'HtmlWriter.expand receives text escaped the way SkoolParser(html=True) escapes comment text (html.escape(text, False))',
    'between units the harness restores the writers (memory cells touched, snapshot stack, #LET variables, #DEF macros)',
    'comparison: HTML output is unescaped once; U+00A0 is a space; leading/trailing whitespace is ignored; through the '
    'command line (wrapped comments) runs of whitespace are collapsed',
    '#FOR flag 4 substitutes in a separator the value of the element that precedes it; fsep is used verbatim',
    'comparison operators yield 1/0; only the truth of && and || is used; / and % only on non-negative operands',
    '#PC always renders as a decimal address',
    'a macro whose output is used inside an arithmetic expression yields a plain decimal number (no zero padding: "010" is accepted as a parameter on its own but not inside an expression, and the documentation is silent about leading zeros)',
]

MODES = [(b, c) for b in (0, 10, 16) for c in (0, 1, 2)]
FOO = 3          # --var foo=3 / variables=[('foo', 3)]

SKOOL_API = '''@start
@org
; Routine
c32768 LD A,1
 32770 RET

; Data
b40000 DEFB 1,2,3,4,5,6,7,8
 40008 DEFB 255,0,128,65,66,67,0,9
'''
MEM0 = {32768: 0x3E, 32769: 1, 32770: 0xC9}
MEM0.update({40000 + i: b for i, b in enumerate([1, 2, 3, 4, 5, 6, 7, 8, 255, 0, 128, 65, 66, 67, 0, 9])})


# ---------------------------------------------------------------------------
# strategies (module level)
# ---------------------------------------------------------------------------
I = st.integers
small = st.one_of(st.sampled_from([0, 1, 2, 3, 4, 5, 7, 8, 10, 15, 16, 31, 32, 64, 100, 127, 128, 255, 256, 1000, 4660, 65535]), I(0, 300))
tiny = I(0, 6)
pf = I(0, 63)
sf = I(0, 255)
style = st.sampled_from([0, 0, 0, 1, 2])
num = st.builds(lambda v, s: ['num', v, s], small, style)
addrnum = st.builds(lambda v, s: ['num', v, s], st.one_of(I(40000, 40017), I(50000, 50010), st.sampled_from([32768, 32769, 32770, 0, 16384, 65535])), style)
bytenum = st.builds(lambda v, s: ['num', v, s], st.one_of(I(0, 255), st.sampled_from([0, 1, 127, 128, 255])), style)
opname = st.sampled_from(macroref.OPS)
cmpname = st.sampled_from(['==', '!=', '<', '>', '<=', '>=', '&&', '||'])
leaf_expr = st.one_of(num, num, st.builds(lambda i: ['var', i], tiny), st.builds(lambda i, k: ['dvar', i, k], tiny, I(0, 5)),
                      st.builds(lambda i: ['lv', i], tiny), st.builds(lambda i: ['fld', i], tiny))


def _mk_op(op, a, b, lit, sp, pick):
    # keep the right operand of the partial operators inside their documented domain most of the time
    if op in ('/', '%') and pick < 8:
        b = ['num', 1 + lit % 9, 0]
    elif op == '**' and pick < 9:
        b = ['num', lit % 4, 0]
    elif op in ('<<', '>>') and pick < 9:
        b = ['num', lit % 9, 0]
    return ['op', op, a, b, sp]


def _expr_ext(ch):
    return st.one_of(
        st.builds(_mk_op, opname, ch, ch, I(0, 50), st.booleans(), I(0, 9)),
        st.builds(_mk_op, opname, ch, ch, I(0, 50), st.booleans(), I(0, 9)),
        st.builds(lambda a, o: ['peekx', ['op', '+', a, o, 0]], addrnum, ch),
        st.builds(lambda a: ['peekx', a], addrnum),
        st.builds(lambda e: ['evalx', e], ch),
        st.builds(lambda c, a, b: ['ifx', c, a, b], ch, small, small),
        st.builds(lambda e, d, ps: ['mapx', e, d, ps], ch, small, st.lists(st.tuples(I(0, 9), small).map(list), max_size=3)),
        st.builds(lambda a, n: ['sumx', a, n], I(0, 20), I(0, 4)),
        st.builds(lambda i, args: ['callx', i, args], tiny, st.lists(ch, max_size=2)),
    )


expr = st.recursive(leaf_expr, _expr_ext, max_leaves=5)
cond = st.one_of(expr, st.builds(lambda o, a, b, sp: ['op', o, a, b, sp], cmpname, expr, expr, st.booleans()))
plain_key = st.recursive(num, lambda ch: st.builds(lambda o, a, b: ['op', o, a, b, 0], st.sampled_from(['+', '-', '*', '|', '&']), ch, ch), max_leaves=3)
addrexpr = st.one_of(addrnum, addrnum, st.builds(lambda a, o: ['op', '+', a, o, 0], addrnum, expr))
negnum = st.builds(lambda v: ['neg', v], I(1, 5))

WORDS = ['yes', 'no', 'Y', '', ' ', 'a,b', '(x)', '(', ')', '[', ']', 'a(b', 'f(1,2)', '&lt;', '&amp;', '<b>', 'x y', ' and ', ', ',
         '{', '}', '{x}', '"', "'", 'it\'s', '1<2', 'A&B', '-', '/', '|', '//', ' | ', '0x', 'h', ';', ':', 'Score:', '100%', 'a=b', '!', '?', '*',
         'POKE', 'REF', 'ENTRY', 'abc', 'Hello', 'lives', '7', '42', '$FF'.replace('$', ''), ' x', 'x ', '.']
ALPH = 'abcdefghilmoprstuvwxyABCDEFGHILMOPRSTUVWXY0123456789   .,;:!?-+*/=_@%^|()[]<>&"\''
word = st.one_of(st.sampled_from(WORDS), st.text(alphabet=ALPH, max_size=6))
lit = st.builds(lambda s: ['lit', s], word)
safeword = st.text(alphabet='abcdefghilmoprstuvwxyABCDEFGH0123456789', max_size=4)
sepword = st.one_of(st.sampled_from(['', ' ', ', ', '-', ';', ' and ', ' | ', '/', '\x01', '-\x01-', ',', '+', ' or ', '.']), st.text(alphabet=ALPH, max_size=3))
optword = st.one_of(st.none(), word)

fieldpart = st.builds(lambda k, i, sp, key: ['f', k, i, sp, key], st.sampled_from(['i', 'i', 's', 'd', 'ds', 'm', 'lv']), tiny, I(0, 7), I(0, 5))
fieldnode = st.builds(lambda k, i, sp, key: ['fv', k, i, sp, key], st.sampled_from(['i', 's', 'd', 'ds', 'm']), tiny, I(0, 7), I(0, 5))

# leaves of the text grammar: literals, atoms and macros without string-parameter children
eval_node = st.builds(lambda e, b, w, p, h: ['eval', e, b, w, p, h], expr, st.sampled_from([None, None, 2, 10, 16, 16]),
                      st.sampled_from([None, None, 1, 2, 4, 8]), pf, st.sampled_from([0, 0, 0, 1]))
n_node = st.builds(lambda e, hw, dw, hx, af, p, s: ['n', e, hw, dw, hx, af, p, s], st.one_of(num, expr), st.sampled_from([None, None, 1, 2, 4, 6]),
                   st.sampled_from([None, None, 1, 3, 5]), st.sampled_from([None, 0, 1]),
                   st.one_of(st.none(), st.tuples(st.sampled_from(['0x', '$', '#', 'x', '']), st.sampled_from([None, 'h', 'H', ''])).map(list)), pf, sf)
peek_node = st.builds(lambda e, p: ['peek', e, p], addrexpr, pf)
chr_node = st.builds(lambda c, f, p: ['chr', c, f, p], I(0, 400), st.sampled_from([None, None, 0, 1, 2, 3]), pf)
space_node = st.builds(lambda e, p: ['space', e, p], st.one_of(st.none(), st.builds(lambda v: ['num', v, 0], I(0, 6)), expr), pf)
pokes_group = st.builds(lambda a, b, ln, stp, p: [a, b, ln, stp, p], addrexpr, st.one_of(bytenum, bytenum, expr),
                        st.one_of(st.none(), st.builds(lambda v: ['num', v, 0], I(1, 5))),
                        st.one_of(st.none(), st.none(), st.builds(lambda v: ['num', v, 0], I(1, 4))), pf)
pokes_node = st.builds(lambda gs, g: ['pokes', gs, g], st.lists(pokes_group, min_size=1, max_size=3), tiny)
str_node = st.builds(lambda a, d, k, f, p: ['str', a, d, k, f, p], I(0, 5000), st.lists(st.one_of(I(0, 90), st.just(0)), min_size=1, max_size=8), I(0, 3), I(0, 7), pf)
let_node = st.builds(lambda i, e, s: ['let', i, e, s], tiny, st.one_of(expr, negnum), I(0, 31))
letd_node = st.builds(lambda i, isstr, d, ps, s, s2: ['letd', i, isstr, d, ps, s, s2], tiny, st.booleans(), st.one_of(small, safeword),
                      st.lists(st.tuples(I(0, 5), st.one_of(st.none(), small, safeword)).map(list), max_size=3), sf, sf)
letk_int = st.builds(lambda i, k, v, s: ['letk', i, 0, k, v, s], tiny, st.one_of(st.builds(lambda v: ['num', v, 0], I(0, 5)), expr), expr, sf)
format_leaf = st.builds(lambda c, parts, s: ['format', c, parts, s], st.sampled_from([0, 0, 1, 2]),
                        st.lists(st.one_of(lit, fieldpart, fieldpart, st.builds(lambda b: ['brace', b], st.booleans())), min_size=1, max_size=4), sf)
lv_text = st.builds(lambda i: ['lv', i], tiny)
sv_text = st.builds(lambda i: ['sv', i], tiny)
leaf_text = st.one_of(lit, lit, lit, lv_text, sv_text, eval_node, eval_node, n_node, peek_node, chr_node, space_node, pokes_node, str_node,
                      let_node, let_node, letd_node, letk_int, format_leaf)


def _mk_for(a, delta, how, stepv, fl, body, sep, fsep, p, s):
    """#FOR ranges with a handful of elements: stop = start +/- delta (or a small literal)."""
    d = ['num', delta, 0]
    if how < 3 and a[0] == 'num' and a[1] < 10:
        b, step = ['num', a[1] + delta, 0], (None if stepv == 1 and how else ['num', stepv, 0])
    elif how < 7:
        b, step = ['op', '+', a, d, how & 1], (None if stepv == 1 else ['num', stepv, 0])
    elif how < 9:
        b, step = ['op', '-', a, d, 0], ['neg', stepv]
    else:
        b, step = ['num', delta, 0], None
    return ['for', a, b, step, fl, body, sep, fsep, p, s]


def _text_ext(ch):
    seq = st.builds(lambda xs: ['seq', xs], st.lists(ch, min_size=1, max_size=4))
    return st.one_of(
        seq, seq,
        st.builds(lambda e, a, b, p, s, h: ['if', e, a, b, p, s, h], cond, ch, st.one_of(st.none(), ch), pf, sf, st.sampled_from([0, 0, 0, 1])),
        st.builds(lambda e, d, ps, p, s, h: ['map', e, d, ps, p, s, h], expr, ch, st.lists(st.tuples(plain_key, ch).map(list), max_size=3), pf, sf,
                  st.sampled_from([0, 0, 0, 1])),
        st.builds(_mk_for, st.one_of(st.builds(lambda v: ['num', v, 0], I(0, 5)), addrnum, expr, negnum), I(0, 5), I(0, 9), I(1, 3),
                  st.one_of(st.none(), st.none(), I(0, 7)), ch, st.one_of(st.none(), sepword), st.one_of(st.none(), sepword), pf, sf),
        st.builds(lambda items, body, sep, fsep, s1, s2: ['foreach', items, body, sep, fsep, s1, s2],
                  st.lists(st.one_of(safeword, I(0, 99).map(str)), min_size=1, max_size=4), ch, st.one_of(st.none(), sepword), st.one_of(st.none(), sepword), sf, sf),
        st.builds(lambda c, body, sty, s: ['while', c, body, sty, s], I(0, 3), ch, I(0, 11), sf),
        st.builds(lambda name, body, g: ['snap', name, body, g], st.one_of(st.just(''), safeword), ch, I(0, 24)),
        st.builds(lambda i, v, s: ['lets', i, v, s], tiny, st.one_of(ch, st.builds(lambda xs: ['seq', xs], st.lists(st.one_of(lit, fieldnode), min_size=1, max_size=3))), sf),
        st.builds(lambda i, k, v, s: ['letk', i, 1, k, v, s], tiny, st.one_of(st.builds(lambda v: ['num', v, 0], I(0, 5)), expr), ch, sf),
        st.builds(lambda parts, s: ['format', 0, parts, s], st.lists(st.one_of(lit, fieldpart, ch), min_size=1, max_size=3), sf),
        st.builds(lambda i, args, nkw, sargs, p, s: ['call', i, args, nkw, sargs, p, s], tiny, st.lists(st.one_of(st.none(), expr, num), max_size=3), I(0, 2),
                  st.one_of(st.none(), st.lists(safeword, max_size=2)), pf, sf),
    )


text = st.recursive(leaf_text, _text_ext, max_leaves=8)
def_node = st.builds(lambda i, fl, ip, sp, body, s: ['def', i, fl, ip, sp, body, s], tiny, st.sampled_from([None, None, 0, 1, 2, 3]),
                     st.lists(st.one_of(st.none(), st.none(), I(0, 9)), max_size=3), st.lists(st.one_of(st.none(), safeword, I(0, 2)), max_size=2), text, sf)
call_node = st.builds(lambda i, args, nkw, sargs, p, s: ['call', i, args, nkw, sargs, p, s], tiny, st.lists(st.one_of(st.none(), expr, num), max_size=3), I(0, 2),
                      st.one_of(st.none(), st.lists(st.one_of(safeword, safeword, st.sampled_from(['$m', '$p', '$x', '$$'])), max_size=2)), pf, sf)
unit = st.builds(lambda xs: ['seq', xs], st.lists(st.one_of(text, text, text, text, text, def_node, call_node), min_size=1, max_size=5))
pc_node = st.builds(lambda g: ['pc', g], tiny)
cli_unit = st.builds(lambda xs: ['seq', xs], st.lists(st.one_of(text, text, def_node, call_node, pc_node), min_size=1, max_size=4))
mode_st = st.sampled_from(MODES)

# state-changing items for histories
lets_simple = st.builds(lambda i, v, s: ['lets', i, v, s], tiny, st.builds(lambda xs: ['seq', xs], st.lists(st.one_of(lit, fieldnode, eval_node), min_size=1, max_size=3)), sf)
letk_str = st.builds(lambda i, k, v, s: ['letk', i, 1, k, v, s], tiny, st.builds(lambda v: ['num', v, 0], I(0, 5)), lit, sf)


# ---------------------------------------------------------------------------
# the writers under test
# ---------------------------------------------------------------------------
class Writers:
    """AsmWriter + HtmlWriter for one (base, case) mode, built from a tiny skool file."""
    cache = {}

    @classmethod
    def get(cls, mode):
        mode = tuple(mode)
        w = cls.cache.get(mode)
        if w is None:
            w = cls.cache[mode] = cls(mode)
        return w

    @classmethod
    def drop(cls, mode):
        cls.cache.pop(tuple(mode), None)

    def __init__(self, mode):
        from skoolkit.skoolparser import SkoolParser
        from skoolkit.skoolasm import AsmWriter
        from skoolkit.skoolhtml import HtmlWriter, FileInfo
        from skoolkit.refparser import RefParser
        from skoolkit.config import get_config
        base, case = mode
        # the files are only needed while the writers are constructed (pool workers never run atexit handlers)
        with cli.Scratch('verif-c17-') as sc:
            f = sc.write('t.skool', SKOOL_API)
            ap = SkoolParser(f, asm_mode=1, base=base, case=case, variables=[('foo', FOO)])
            self.aw = AsmWriter(ap, {}, {}, get_config('skool2asm'))
            hp = SkoolParser(f, html=True, base=base, case=case, variables=[('foo', FOO)])
            rp = RefParser()
            rp.parse(io.StringIO(''))
            self.hw = HtmlWriter(hp, rp, FileInfo(sc.dir, 'game', False, False))
        self.init = {}
        for w in (self.aw, self.hw):
            self.init[id(w)] = (dict(w.fields), dict(w.macros))

    def reset(self, touched):
        for w in (self.aw, self.hw):
            fields0, macros0 = self.init[id(w)]
            snap = w.snapshot
            for a in touched:
                snap[a] = MEM0.get(a, 0)
            del w._snapshots[1:]
            w.pokes.clear()
            f = w.fields
            for k in list(f):
                if k not in fields0:
                    del f[k]
            f.update(fields0)
            w.macros = dict(macros0)


def norm(s):
    return macroref.plain(s).strip()


def collapse(s):
    return re.sub(r'\s+', ' ', macroref.plain(s)).strip()


def touched_addresses(state):
    t = set(state.mem)
    for m in state.stack:
        t.update(m)
    return t


def classify_diff(text, ignore=()):
    """Signature component (coarse root-cause bucket): the macro, if the unit uses only one kind of
    macro (shrinking usually gets there), else 'multi'."""
    ms = sorted(set(re.findall(r'#[A-Z]+', text)) - set(ignore))
    if not ms:
        return 'text'
    return ms[0][1:] if len(ms) == 1 else 'multi'


def expand_both(text, mode, touched, case):
    """Expand through both writers; returns (asm, html_unescaped). State is restored afterwards."""
    w = Writers.get(mode)
    res = []
    try:
        for name, fn in (('asm', lambda: w.aw.expand(text)), ('html', lambda: html.unescape(w.hw.expand(html.escape(text, False), 'asm')))):
            try:
                res.append(fn())
            except Exception as x:
                Writers.drop(mode)
                from skoolkit import SkoolKitError
                kind = 'error' if isinstance(x, SkoolKitError) else 'crash'
                sig = '%s:%s:%s' % (name, kind, type(x).__name__) if kind == 'error' else crash_sig(x, name + '-expand')
                raise Violation(sig, '%s writer, mode base=%d case=%d: %r raised %r' % (name, mode[0], mode[1], text, x), case)
        w.reset(touched)
    except Violation:
        raise
    except Exception:
        Writers.drop(mode)
        raise
    return res


def compare_unit(ast, modes, case, rec=None):
    """Build with the reference for every mode and compare with both writers."""
    builds = {}
    first = None
    for mode in modes:
        if first is None or first['stats']['mode_dependent']:
            try:
                b = macroref.build_unit(ast, {'base': mode[0], 'case': mode[1], 'vars': {'foo': FOO}, 'allow': case.get('allow', DEFAULT_ALLOW)}, MEM0)
            except OutOfDomain as x:
                if rec is not None:
                    rec.note('out-of-domain:' + str(x))
                    if 'leading/trailing whitespace' in str(x) and first is None:
                        rec.excluded[FINDING_CLASSES['let-edge-ws']] += 1
                return None
            if first is None:
                first = b
                if b['stats']['pops'] and len(modes) == 9:
                    # #POPS costs ~13 ms in each writer (Memory slice copy): three modes, each base and case once
                    k = len(b['text']) % 3
                    return compare_unit(ast, [(0, k), (10, (k + 1) % 3), (16, (k + 2) % 3)], case, rec)
            elif b['text'] != first['text']:
                # an operator left its documented domain in one mode only (e.g. x/{base})
                if rec is not None:
                    rec.note('out-of-domain:text depends on the mode')
                return None
        builds[tuple(mode)] = b
    for mode in modes:
        b = builds[tuple(mode)]
        text = b['text']
        exp = norm(b['expected'])
        touched = touched_addresses(b['state'])
        asm, htm = expand_both(text, mode, touched, case)
        for name, got in (('asm', asm), ('html', htm)):
            if norm(got) != exp:
                Writers.drop(mode)
                other = htm if name == 'asm' else asm
                agree = 'both writers agree with each other' if norm(asm) == norm(htm) else 'the other writer gives %r' % norm(other)
                raise Violation('%s:%s' % (name, classify_diff(text)),
                                'mode base=%d case=%d: %r expands to %r in %s mode, documented value %r (%s)' % (
                                    mode[0], mode[1], text, norm(got), name.upper(), exp, agree), case)
    return first


def record(rec, built, prefix, sample):
    stt = built['stats']
    nt = stt['maxdepth'] >= 2 or stt['reads_after_change'] >= 1
    klass = [prefix]
    klass += ['%s:%s' % (prefix, m) for m in stt['macros'] if m.startswith('#') and (m[1:] in KNOWN_MACROS or m == '#DEF-call')]
    klass += ['form:' + f for f in stt['forms']]
    klass += ['form:' + f for f in delimiter_forms(built['text'])]
    if stt['maxdepth'] >= 2:
        klass.append('nt:nested-%d' % min(stt['maxdepth'], 4))
    if stt['reads_after_change']:
        klass.append('nt:state-change-then-read')
    for x in stt['excluded']:
        rec.excluded[FINDING_CLASSES[x]] += 1      # the generator stepped around a known finding here
    rec.case(built['text'], nt, klass, sample)


KNOWN_MACROS = {'EVAL', 'N', 'IF', 'MAP', 'FOR', 'FOREACH', 'WHILE', 'LET', 'FORMAT', 'DEF', 'PEEK', 'POKES', 'PUSHS', 'POPS', 'CHR', 'STR', 'SPACE', 'PC'}
_RE_ALT = re.compile(r'#(?:IF|MAP|FOR|FOREACH|N)[^#]*?\)([^\w\s(\[{#])(.)')


def delimiter_forms(text):
    forms = set()
    if re.search(r'#[A-Z]+(?:\([^()]*\)|[\d,$A-Fa-f]*)\[', text):
        forms.add('delim-square')
    if re.search(r'#[A-Z]+(?:\([^()]*\)|[\d,$A-Fa-f]*)\{', text):
        forms.add('delim-brace')
    for m in _RE_ALT.finditer(text):
        d, s = m.group(1), m.group(2)
        forms.add('delim-alt-same' if d == s else ('delim-alt-space' if s == ' ' else 'delim-alt-other'))
    if re.search(r'#(?:LET|FORMAT\d|DEF\d?)[^\w\s(\[{#]', text):
        forms.add('delim-alt-single')
    return forms


# ---------------------------------------------------------------------------
# (a) units
# ---------------------------------------------------------------------------
def unit_oracle(case, rec=None):
    built = compare_unit(case['ast'], [tuple(m) for m in case.get('modes', MODES)], case, rec)
    if built is not None and rec is not None:
        record(rec, built, 'unit', {'text': built['text'], 'expected': norm(built['expected'])})


unit_cases = st.builds(lambda a: {'kind': 'unit', 'ast': a}, unit)


# ---------------------------------------------------------------------------
# (b) histories
# ---------------------------------------------------------------------------
def state_probe(items):
    """A probe that reads everything the history has defined (built from the reference's static scope)."""
    b = macroref.Builder({'base': 0, 'case': 0, 'vars': {'foo': FOO}}, MEM0)
    b.t(['seq', items], macroref.Cx())
    probe = []
    for i in range(len(b.scope.ints)):
        probe += [['lit', ' '], ['eval', ['var', i], None, None, 1, 0]]
    if b.scope.strs:
        probe += [['lit', ' '], ['format', 0, [x for i in range(len(b.scope.strs)) for x in (['lit', '|'], ['f', 's', i, 0, 0])], 0]]
    nd = [d for d in b.scope.dicts if not d.endswith('$')]
    for i in range(len(nd)):
        probe += [['lit', ' '], ['eval', ['op', '+', ['dvar', i, 1], ['op', '*', ['dvar', i, 2], ['num', 1000, 0], 0], 0], None, None, 1, 0],
                  ['format', 0, [['lit', '/'], ['f', 'd', i, 0, 0], ['lit', '/'], ['f', 'd', i, 0, 5]], 0]]
    sd = [d for d in b.scope.dicts if d.endswith('$')]
    if sd:
        probe += [['lit', ' '], ['format', 0, [x for i in range(len(sd)) for k in (0, 1, 3) for x in (['lit', '|'], ['f', 'ds', i, 0, k])], 0]]
    addrs = sorted(touched_addresses(b.state))[:10]
    for a in addrs:
        probe += [['lit', ' '], ['peek', ['num', a, 0], 1]]
    for i, name in enumerate(sorted(b.scope.macros)):
        probe += [['lit', ' '], ['call', i, [['num', 3, 0], ['num', 5, 0]], 0, ['ab'], 1, 0]]
    return probe, len(b.state.stack)


def hist_oracle(case, rec=None, final=False):
    items = case['items']
    try:
        probe, depth = state_probe(items)
    except OutOfDomain as x:
        if rec is not None:
            rec.note('out-of-domain:' + str(x))
        return None
    extra = case.get('probe') or []
    ast = ['seq', list(items) + list(extra) + probe]
    built = compare_unit(ast, [case['mode']], case, rec)
    return built


class History(RuleBasedStateMachine):
    rec = None
    excluded = frozenset()

    def __init__(self):
        super().__init__()
        self.items = []
        self.mode = None
        self.depth = 0
        self.dead = False

    @initialize(mode=mode_st)
    def init(self, mode):
        self.mode = list(mode)
        Writers.drop(mode)        # every history starts from newly constructed writers

    def _step(self, item, keep):
        """Judge the unit `items + [item] + state probe`; a state-changing item is kept for the rest of the history."""
        if self.dead or self.mode is None:
            return False
        case = {'kind': 'hist', 'mode': self.mode, 'items': self.items + ([item] if keep else []), 'probe': None if keep else [item]}
        try:
            built = cpu_guarded(lambda c: hist_oracle(c, self.rec), case, 120)
        except Violation as v:
            if v.sig in self.excluded or (self.rec is not None and self.rec.is_known(v)):
                self.dead = True
                return False
            raise
        if built is None:
            return False      # the item took the unit out of the documented domain: not appended
        if keep:
            self.items.append(item)
        if self.rec is not None:
            record(self.rec, built, 'hist', {'mode': self.mode, 'text': built['text'][:400], 'expected': norm(built['expected'])[:200], 'items': len(self.items)})
        return True

    def _add(self, item):
        return self._step(item, True)

    @rule(item=st.one_of(let_node, let_node, lets_simple, letd_node, letk_int, letk_str))
    def let(self, item):
        self._add(item)

    @rule(item=pokes_node)
    def pokes(self, item):
        self._add(item)

    @rule(name=st.one_of(st.just(''), safeword), g=tiny)
    def pushs(self, name, g):
        if self.depth < 3 and self._add(['pushs', name, g]):
            self.depth += 1

    @precondition(lambda self: self.depth > 0)
    @rule(g=tiny)
    def pops(self, g):
        if self._add(['pops', g]):
            self.depth -= 1

    @rule(item=def_node)
    def define(self, item):
        self._add(item)

    @rule(item=st.one_of(text, call_node))
    def probe(self, item):
        if macroref.is_pure(item):
            self._step(item, False)


def ddmin_items(case, sig, budget_s=30.0):
    t0 = time.time()

    def fails(items):
        c = dict(case, items=items)
        try:
            cpu_guarded(hist_oracle, c, 120)
        except Violation as v:
            return v.sig == sig
        return False
    items = list(case['items'])
    n = 2
    while len(items) >= 2 and time.time() - t0 < budget_s:
        chunk = max(1, len(items) // n)
        reduced = False
        for i in range(0, len(items), chunk):
            cand = items[:i] + items[i + chunk:]
            if fails(cand):
                items = cand
                n = max(n - 1, 2)
                reduced = True
                break
        if not reduced:
            if chunk == 1:
                break
            n = min(len(items), n * 2)
    return dict(case, items=items)


def run_stateful(shard, rec):
    from hypothesis import Phase
    excluded = set()
    for _ in range(3):
        M = type('M', (History,), {'rec': rec, 'excluded': frozenset(excluded)})
        settings_ = settings(max_examples=shard['n'], stateful_step_count=shard['steps'], deadline=None, database=None,
                             derandomize=False, report_multiple_bugs=False, verbosity=hypothesis.Verbosity.quiet,
                             phases=[Phase.generate], suppress_health_check=list(HealthCheck))
        try:
            run_state_machine_as_test(hypothesis.seed(shard['seed'])(M), settings=settings_)
        except Violation as v:
            if v.case is not None and v.case.get('kind') == 'hist':
                v.case = ddmin_items(v.case, v.sig)
            rec.violation(v)
            excluded.add(v.sig)
            continue
        except hypothesis.errors.Flaky as f:
            # the history failed, but not in the same way when Hypothesis replayed it: report what was seen
            vs = [x for x in getattr(f, 'exceptions', ()) if isinstance(x, Violation)]
            if not vs:
                raise
            v = vs[0]
            excluded.add(v.sig)
            v.sig = 'flaky:' + v.sig
            rec.violation(v)
            continue
        break


# ---------------------------------------------------------------------------
# (c) placements through skool2asm.main / skool2html.main
# ---------------------------------------------------------------------------
PLACEMENTS = ['title', 'desc', 'reg', 'mid', 'instr', 'end', 'ref']
PC_RULE = {'title': 32768, 'desc': 32768, 'reg': 32768, 'mid': 32770, 'instr': 32770, 'end': 32772, 'ref': None}
B, E = 'BEGIN:', ':END'


def make_skool(place, text, lead=False):
    slot = {p: 'plain %s text' % p for p in PLACEMENTS}
    if place != 'ref':
        slot[place] = B + text + E
    # with lead=True the probed entry is not the first one of the file (it has a previous and a next entry)
    slot['lead'] = '; Lead\n;\n; plain text\n;\n; A plain register text\nc32760 NOP         ; plain\n 32761 RET         ; plain\n\n' if lead else ''
    return '''@start
@org
%(lead)s; %(title)s
;
; %(desc)s
;
; HL %(reg)s
c32768 LD A,1      ; first instruction
; %(mid)s
 32770 LD B,2      ; %(instr)s
 32772 RET         ; last instruction
; %(end)s

; Data
b40000 DEFB 1,2,3,4,5,6,7,8
 40008 DEFB 255,0,128,65,66,67,0,9
''' % slot


MEM_CLI = dict(MEM0)
MEM_CLI.update({32768: 0x3E, 32769: 1, 32770: 0x06, 32771: 2, 32772: 0xC9, 32760: 0x00, 32761: 0xC9})
MODE_OPTS = {0: [], 10: ['-D'], 16: ['-H']}
CASE_OPTS = {0: [], 1: ['-l'], 2: ['-u']}


def extract(textblob):
    return [m for m in re.findall(re.escape(B) + '(.*?)' + re.escape(E), textblob, re.S)]


def cli_oracle(case, rec=None):
    mode = case['mode']
    # idempotent unit: wrapped in #PUSHS/#POPS (a title is expanded on several pages), explicit #DEF flags
    ast = ['snap', '', force_def_flags(case['ast']), 0]
    opts = MODE_OPTS[mode[0]] + CASE_OPTS[mode[1]] + ['--var', 'foo=%d' % FOO]
    built0 = None
    results = {}
    with cli.Scratch('verif-c17-') as sc:
        for place in case.get('places', PLACEMENTS):
            try:
                b = macroref.build_unit(ast, {'base': mode[0], 'case': mode[1], 'vars': {'foo': FOO}, 'pc': PC_RULE[place],
                                              'allow': case.get('allow', DEFAULT_ALLOW)}, MEM_CLI)
            except OutOfDomain as x:
                if rec is not None:
                    rec.note('out-of-domain:' + str(x))
                return
            text = b['text']
            if '\n' in text or '\r' in text:
                return
            exp = collapse(b['expected'])
            built0 = built0 or b
            sc.write('t.skool', make_skool(place, text, case.get('lead', False)).encode('utf-8'))
            tools = []
            if place != 'ref':
                tools.append(('skool2asm', opts + ['t.skool'], None))
                if os.path.exists(sc.path('t.ref')):
                    os.remove(sc.path('t.ref'))
            else:
                # a ref file section is HTML: the author writes & < > as entities (what SkoolParser does for skool comments)
                sc.write('t.ref', ('[Fact:probe:Probe]\n%s%s%s\n' % (B, html.escape(text, False), E)).encode('utf-8'))
            page = 'out/t/reference/facts.html' if place == 'ref' else 'out/t/asm/32768.html'
            tools.append(('skool2html', opts + ['-d', sc.path('out'), 't.skool'], page))
            for tool, argv, page in tools:
                if page is not None and os.path.exists(sc.path(page)):
                    os.remove(sc.path(page))       # the output directory is reused between placements
                cli.reset_config()
                r = cli.run(tool, argv)
                if not r.ok:
                    x = r.exc
                    sig = crash_sig(x, tool) if x is not None else '%s:exit' % tool
                    raise Violation(sig, '%s failed with the unit in the %s: %r: %s' % (tool, place, text, (repr(x) if x else r.err[-300:])), case)
                if page is None:
                    lines = [l.split(';', 1)[1] if ';' in l else '' for l in r.out.split('\n')]
                    found = extract(' '.join(lines))
                    got = [collapse(x) for x in found]
                else:
                    found = extract(sc.read(page))
                    got = [collapse(html.unescape(re.sub(r'<[^>]*>', '', x))) for x in found]
                if not got:
                    raise Violation('%s:lost' % tool, '%s: no expansion found for the unit placed in the %s: %r' % (tool, place, text), case)
                for g in got:
                    if g != exp:
                        raise Violation('%s:%s' % (tool, classify_diff(text, ('#PUSHS', '#POPS'))),
                                        '%s, unit in the %s, mode base=%d case=%d: %r expands to %r, documented value %r' % (
                                            tool, place, mode[0], mode[1], text, g, exp), case)
                results[(tool, place)] = got[0]
    if rec is not None and built0 is not None:
        record(rec, built0, 'cli', {'mode': mode, 'text': built0['text'], 'expected': collapse(built0['expected']), 'placements': len(results)})


def force_def_flags(node):
    if isinstance(node, list):
        if len(node) > 3 and node[0] == 'def' and node[2] is None:      # (a word list such as ['def', 'x'] is not a #DEF node)
            node = node[:2] + [0] + node[3:]
        return [force_def_flags(x) for x in node]
    return node


cli_cases = st.builds(lambda l, a, m: {'kind': 'cli', 'ast': a, 'mode': list(m), 'lead': l}, st.booleans(), cli_unit, mode_st)


# ---------------------------------------------------------------------------
# plan / shards / replay
# ---------------------------------------------------------------------------
def plan(tier, seed):
    shards = []
    nunit = 20000 if tier == 'quick' else 600000
    nsh = 16 if tier == 'quick' else 64
    for i in range(nsh):
        shards.append({'kind': 'unit', 'n': nunit // nsh, 'seed': shard_seed(seed, PROPERTY, 'u%d' % i)})
    nhist = 256 if tier == 'quick' else 8000
    for i in range(16):
        shards.append({'kind': 'hist', 'n': nhist // 16, 'steps': 12 if tier == 'quick' else 30, 'seed': shard_seed(seed, PROPERTY, 'h%d' % i)})
    ncli = 128 if tier == 'quick' else 4000
    for i in range(16):
        shards.append({'kind': 'cli', 'n': ncli // 16, 'seed': shard_seed(seed, PROPERTY, 'c%d' % i)})
    return shards


def run_shard(shard, rec):
    k = shard['kind']
    if k == 'unit':
        hyp_run(rec, unit_cases, lambda c: unit_oracle(c, rec), shard['n'], shard['seed'], shrink_budget_s=40.0)
    elif k == 'hist':
        run_stateful(shard, rec)
    else:
        hyp_run(rec, cli_cases, lambda c: cli_oracle(c, rec), shard['n'], shard['seed'], shrink_budget_s=40.0)


def replay(case):
    k = case.get('kind')
    if k == 'hist':
        hist_oracle(case)
    elif k == 'cli':
        cli_oracle(case)
    else:
        unit_oracle(case)


# Findings of this check. The generator avoids each class by construction (ref/macroref.py,
# Builder.allow); a replay case switches ONE exclusion off with case['allow'] to reproduce it.
# classes that were findings and have been fixed in /repo are searched again
DEFAULT_ALLOW = ('sep-html-chars', 'quote-delims', 'let-edge-ws', 'str-html-chars')

FINDING_CLASSES = {
    'sep-html-chars': 'F34',          # & < > " ' in sep/fsep of #FOR, in items/sep/fsep of #FOREACH: double-escaped in HTML mode
    'quote-delims': 'F35',          # " or ' as delimiter of a macro inside a #FOR/#FOREACH body: broken in HTML mode
    'let-edge-ws': 'F36',           # #LET(s$= x ): value stripped in ASM mode only
    'def-redefine-noflags': 'F38',  # #DEF(#NAME ...) of an already defined macro expands the old macro
    'str-html-chars': 'F37',          # #STR output is not HTML-escaped
}


def known_class(sig, case):
    allow = (case or {}).get('allow') if isinstance(case, dict) else None
    if allow and len(allow) == 1 and allow[0] in FINDING_CLASSES:
        return FINDING_CLASSES[allow[0]]
    return None


MANIFEST_ENTRY = {
    'technique': 'reference-model testing (text and documented value generated together from a macro grammar), ASM/HTML differential through the public expand() API, stateful rule-based histories, and placement invariance through skool2asm.main / skool2html.main',
    'level_text': 'Hypothesis draws abstract expansion units (nesting <= 4, all 19 operators, decimal/$hex literals, fields, positional/blank/omitted/keyword integer parameters, every documented bracket/delimiter form, #() pre-expansion, 18 macros + #DEF-defined macros); ref/macroref (written from skool-macros.rst, no skoolkit import) renders the text and its documented expansion in one pass over a variables/memory/snapshot-stack model; both writers must produce that value in all nine base x case modes; rule-based histories of state-changing macros are probed after every step; a sample is placed in seven places of a skool/ref file and run through the command-line entry points, #PC against its own rule.',
    'level_note': 'Sampled, not exhaustive. Only forms the documentation makes unambiguous are generated (see ref/macroref.py docstring); units whose value the documentation does not define (negative operands of / % & | ^ << >>, #N of negatives, #SPACE at a stripped edge, etc.) are discarded, not judged. One input class is avoided by construction because it is known finding F38 (#DEF without flags of an already defined name; reproducer in corpus/C17); the four classes of the repaired F34-F37 (& < > and quotes in #FOR/#FOREACH separators/items, quote delimiters inside loop bodies, #LET string values with outer whitespace, & < > in #STR data) are searched again (DEFAULT_ALLOW). #FOREACH special variables (ENTRY/EREF/REF/POKEname) and the cfg dictionary are not generated.',
}
