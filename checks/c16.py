"""C16 - every internal link and asset reference in the HTML written by skool2html resolves.

A case is a small project (main skool file, 0-2 secondary skool files declared in
[OtherCode:*] sections and by @remote directives, a ref file, CSS/JS/resource files)
plus a skool2html command line. skool2html.main is run in a scratch directory and the
directory tree it writes is scanned with ref/htmlscan (html.parser only):

* every href/src that is not absolute names a file of the tree, and its fragment (if
  any) names an id (or <a name>) of that file;
* ids are unique per file;
* every entry and every instruction (so every `*` entry point) of every non-ignored
  entry has its anchor in the page on which the documentation says it is listed
  (CodePath/CodeFiles, or the single disassembly page);
* "Writing X" is printed at most once per path, every such X exists, and every HTML
  file of the tree was announced (or is an entry page of an announced directory);
* links whose intended target is known land on it: an operand hyperlink must lead to
  the anchor of the instruction the operand addresses (in the disassembly that owns or
  @remote-declares it), and generated #R/#LINK macros carry their target in the link
  text ("T:main:32770", "L:Bugs:bug1"), so a link that silently loses or changes its
  #fragment or file is a violation even though it still "resolves".

With `-w <subset>` the subset run is made in a fresh directory and its links may also
resolve against the tree of the full run (a page kind that was not requested). The
thorough tier also builds the shipped Hungry Horace example (control file applied to
a blank image, ref file unchanged) with several command lines.
"""
import os
import posixpath
import re

from hypothesis import strategies as st

from vlib.runner import Violation, hyp_run, shard_seed, crash_sig
from vlib import cli
from ref import htmlscan

PROPERTY = 'C16'
RULE = ('Hypothesis draws a project: main skool file + 0-2 secondary disassemblies ([OtherCode:*], own skool files, @remote in '
        'every direction), 1-6 entries each of types b c g i s t u w (decimal or hex addresses, upper/lower case), instructions '
        'CALL/JP/JR/DJNZ/RST/LD/DEFW whose operands address entries, * entry points, mid-entry instructions, the same entry, '
        'remote entries, ignored entries, the inside of an instruction or nothing; @label, @keep; comments in every position '
        '(title, description, registers, start/mid-block/end, instruction) carrying #R (own/@code, #anchor, link text, '
        'arithmetic/hex address), #LINK (index, memory maps + entry anchors, box pages + entry anchors, custom pages + ids, '
        'other-code indexes, single disassembly page), #UDG/#UDGARRAY/#SCR/#FONT (named, default-named, sub-directory, '
        'root-relative, path-id file names), #AUDIO, #LIST/#TABLE; a ref file with [Config] GameDir, [Game] '
        'AddressAnchor/LinkOperands/LinkInternalOperands(+MinDistance)/AsmSinglePage/StyleSheet/JavaScript/Logo/LogoImage, '
        '[Paths] for code, maps, index, images, audio, CSS, JS, other-code pages, CodeFiles, [Page:*] (content, box pages of the '
        'three section types, existing-file pages), box entries for Bugs/Facts/Pokes/Glossary/Changelog, [MemoryMap:*] (custom, '
        'Includes, Write=0, EntryDescriptions), [Index*], [Resources]; options -1 -a -C -D/-H -l/-u -o -j -T -c, -w subsets, and a '
        'second run into the same directory. 70% of the #R/#LINK macros carry link text that names the anchor they must land on. Non-trivial: the tree lists >= 2 entries and contains >= 1 hyperlinked operand or '
        '>= 1 macro-made link with a fragment; distinct = digest of (files, command line, scenario).')
ASSUMPTIONS = [
    '#R addresses are instruction addresses of non-ignored entries; for another disassembly either an entry address or an address '
    'listed in an @remote directive of the referring skool file (anything else is the documented "Address not found"/user error)',
    '#R #name anchors either evaluate to the address of the target entry or are spelled exactly as an id that the AddressAnchor '
    'format gives an instruction of the target entry; free-text anchors are user error',
    '#LINK targets are pages that the same project writes; anchors are box-entry anchors, ids present in the custom page content, or '
    'decimal entry addresses listed on the memory map linked to',
    'classes on which skool2html is known to fail (F41, F45, see AVOID) are excluded by construction; their reproducers are in corpus/C16 (F42-F44 and F46 are repaired in /repo and generated again)',
    'with -w <subset> a link from a written page to a page kind that was not requested may resolve against the tree of the full run',
    'page/file paths configured in [Paths] are distinct (two pages configured to the same path is user error)',
    'a user-supplied #name on #R is honoured on entry pages and ignored on the single disassembly page (undocumented): landing on either the '
    '#R address or the named instruction is accepted',
    'an operand link with a fragment-less href is accepted only when the operand is the address of the entry that owns the target page',
    'literal anchors that start with an upper-case letter (e.g. #C000 with AddressAnchor={address:04X}) are not used in #R/#LINK: the '
    'expansion is rescanned and "#C" would be read as a macro (macro-system behaviour, outside C16)',
]

# Classes of input that are avoided by construction because skool2html is known to fail on them (see the final
# report / known_findings.json). Set a flag to False once the defect is repaired to let the search cover the class.
AVOID = {
    'F41': True,    # #LINK(map#address) with a non-default AddressAnchor where the address is not converted
    'F42': False,   # (repaired in /repo) single-page mode: operand that addresses an @remote entry is linked to the current page
    'F43': False,   # (repaired in /repo) -j NAME with a StyleSheetPath directory that does not exist yet: FileNotFoundError
    'F44': False,   # (repaired in /repo) #LINK(ListItems/BulletPoints box page#anchor)() with blank link text: ValueError
    'F45': True,    # #LINK(custom memory map) from a secondary disassembly whose entries would not appear on that map
    'F46': False,   # (repaired in /repo) #R addr@id used inside disassembly id itself (e.g. #R32768@main in the main skool file): "Address not found"
}

for _k in os.environ.get('VERIF_C16_COVER', '').split(','):
    if _k in AVOID:
        AVOID[_k] = False        # e.g. VERIF_C16_COVER=F42 to try a repaired tree before editing the table above

# ---------------------------------------------------------------------------
# Drawing helpers (every choice is a Hypothesis draw; strategies are cached)
# ---------------------------------------------------------------------------
_INTS = {}


def _ints(a, b):
    s = _INTS.get((a, b))
    if s is None:
        s = _INTS[(a, b)] = st.integers(a, b)
    return s


class D:
    def __init__(self, draw):
        self._draw = draw

    def int(self, a, b):
        return self._draw(_ints(a, b))

    def chance(self, pct):
        """True with probability pct/100; shrinks towards False."""
        return self._draw(_ints(0, 99)) >= 100 - pct

    def choice(self, seq):
        return seq[self._draw(_ints(0, len(seq) - 1))]

    def sample(self, seq, k):
        seq = list(seq)
        out = []
        while seq and len(out) < k:
            out.append(seq.pop(self.int(0, len(seq) - 1)))
        return out


# ---------------------------------------------------------------------------
# Documented formats
# ---------------------------------------------------------------------------
ANCHOR_FMTS = {
    'dec': '{address}',
    'hex4l': '{address:04x}',
    'hex4u': '{address:04X}',
    'ifhex': '{address#IF({mode[base]}==16)(:04X)}',
}
CODEFILES = {
    'dec': '{address}.html',
    'hex4u': '{address:04X}.html',
    'pad': 'e{address:05}.htm',
    'ifhex': '{address#IF({mode[base]}==16)(:04X)}.html',
}


def fmt_addr(kind, address, hexmode):
    if kind == 'dec' or (kind == 'ifhex' and not hexmode):
        return '%d' % address
    if kind == 'hex4l':
        return '%04x' % address
    if kind in ('hex4u', 'ifhex'):
        return '%04X' % address
    if kind == 'pad':
        return 'e%05d' % address
    raise ValueError(kind)


def codefile(kind, address, hexmode):
    if kind == 'pad':
        return 'e%05d.htm' % address
    return fmt_addr(kind, address, hexmode) + '.html'


def pjoin(*parts):
    return posixpath.normpath('/'.join(p for p in parts if p))


# ---------------------------------------------------------------------------
# Generator: structure
# ---------------------------------------------------------------------------
CTLS = 'ccccbbtwsugi'
# (template, size, takes an address operand)
C_KINDS = [('LD A,{n}', 2, 0), ('XOR A', 1, 0), ('RET', 1, 0), ('INC HL', 1, 0), ('LD B,{n}', 2, 0),
           ('CALL {t}', 3, 1), ('CALL NZ,{t}', 3, 1), ('JP {t}', 3, 1), ('JP Z,{t}', 3, 1), ('JR {t}', 2, 1),
           ('JR NC,{t}', 2, 1), ('DJNZ {t}', 2, 1), ('RST {r}', 1, 0), ('LD HL,{t}', 3, 1), ('LD ({t}),A', 3, 1),
           ('LD BC,({t})', 4, 1), ('LD A,({t})', 3, 1), ('LD ({t}),HL', 3, 1), ('DEFW {t}', 2, 1), ('DEFB {n}', 1, 0),
           ('CALL {t}', 3, 1), ('JP {t}', 3, 1), ('JR {t}', 2, 1), ('DJNZ {t}', 2, 1), ('RST {r}', 1, 0)]
DATA_KINDS = {
    'b': [('DEFB {n},{n}', 2, 0), ('DEFB {n}', 1, 0), ('DEFW {t}', 2, 1), ('DEFM "ab"', 2, 0), ('DEFS 3', 3, 0)],
    'w': [('DEFW {t}', 2, 1), ('DEFW {t}', 2, 1), ('DEFW {n},{n}', 4, 0)],
    't': [('DEFM "Hello"', 5, 0), ('DEFM "a",{n}', 2, 0), ('DEFB {n}', 1, 0)],
    's': [('DEFS 8', 8, 0), ('DEFS 2,{n}', 2, 0)],
    'u': [('DEFS 4', 4, 0), ('DEFB 0', 1, 0), ('DEFW {t}', 2, 1)],
    'g': [('DEFB {n}', 1, 0), ('DEFW {t}', 2, 1), ('DEFW {n}', 2, 0)],
    'i': [('DEFB 0', 1, 0), ('DEFW {t}', 2, 1), ('', 1, 0)],
}
OTHER_IDS = ['load', 'Start', 'x2', 'sec$1', 'rom', 'loader', 'x']      # incl. ids (= default directories) that are prefixes of one another
BASES = [24576, 32768, 40000, 49152, 60000, 65400, 16384]
WORDS = ['the', 'routine', 'data', 'used', 'by', 'value', 'table', 'of', 'sprites', 'A', 'HL', 'counter', 'see', 'also',
         'loop', 'entry', '(unused)', 'flag', 'copy', 'screen']


def gen_code(d, cid, base, is_main):
    hexstyle = d.chance(25)
    lower = d.chance(20)
    n = d.int(1, 6 if is_main else 4)
    addr = base
    entries = []
    for k in range(n):
        ctl = d.choice(CTLS)
        if k == n - 1 and all(e['ctl'] == 'i' for e in entries):
            ctl = d.choice('cccbwg')
        ni = d.int(1, 5)
        instrs = []
        for j in range(ni):
            tmpl, size, has_t = d.choice(C_KINDS if ctl == 'c' else DATA_KINDS[ctl])
            if not tmpl and (j or ni > 1):
                tmpl, size, has_t = 'DEFB 0', 1, 0
            if addr + size > 65536:
                break
            instrs.append({'addr': addr, 'tmpl': tmpl, 'size': size, 'has_t': has_t,
                           'ep': ctl == 'c' and j > 0 and d.chance(30)})
            addr += size
        if not instrs:
            break
        entries.append({'ctl': ctl, 'addr': instrs[0]['addr'], 'instrs': instrs})
        addr += d.choice([0, 0, 0, 1, 7])
        if addr >= 65536:
            break
    if all(e['ctl'] == 'i' for e in entries):
        entries[-1]['ctl'] = 'c'
    return {'id': cid, 'main': is_main, 'hex': hexstyle, 'lower': lower, 'entries': entries, 'remote': []}


def live_entries(code):
    return [e for e in code['entries'] if e['ctl'] != 'i']


def gen_world(d):
    w = {}
    n_other = d.choice([0, 0, 1, 1, 1, 2])
    ids = d.sample(OTHER_IDS, n_other)
    bases = d.sample(BASES, n_other + 1)
    if d.chance(10):
        bases[0] = 0
    codes = [gen_code(d, 'main', bases[0], True)]
    for i, cid in enumerate(ids):
        b = 0 if cid == 'rom' else bases[i + 1]
        if d.chance(12):
            b = bases[0]            # overlapping address ranges
        codes.append(gen_code(d, cid, b, False))
    w['codes'] = codes
    # @remote declarations, in every direction
    for x in codes:
        for y in codes:
            if x is y or not d.chance(60):
                continue
            for e in d.sample(live_entries(y), d.int(1, 2)):
                rest = [i['addr'] for i in e['instrs'][1:]]
                eps = [i['addr'] for i in e['instrs'][1:] if i['ep']]
                extra = d.sample(eps or rest, d.int(0, 2)) if rest else []
                x['remote'].append({'code': y['id'], 'entry': e['addr'], 'addrs': [e['addr']] + sorted(extra)})

    # ---- options / [Game]
    o = w['opt'] = {}
    o['base'] = d.choice(['', '', '', '-D', '-H', '-H'])
    o['case'] = d.choice(['', '', '', '-l', '-u'])
    o['single'] = d.choice(['', '', '', '', '', '-1', 'ref', 'c'])
    o['asm_labels'] = d.chance(40)
    o['create_labels'] = d.chance(25)
    o['anchor'] = d.choice(['dec', 'dec', 'dec', 'hex4l', 'hex4u', 'ifhex'])
    o['link_operands'] = d.choice([None, None, 'CALL,DEFW,DJNZ,JP,JR,LD', 'CALL,JP', 'call,defw,djnz,jp,jr,ld,rst',
                                   'CALL,DEFW,DJNZ,JP,JR,LD,RST'])
    o['lio'] = d.chance(40)
    o['lio_min'] = d.choice([None, None, 0, 3, 200])
    o['rebuild'] = d.chance(25)
    o['midblock'] = d.chance(35)      # start and mid-block comments (every one of them shows F28)
    o['theme'] = d.choice([None, None, None, None, 'dark', 'wide'])
    o['join_css'] = d.choice([None, None, None, None, None, 'all.css'])
    o['css_path'] = d.choice(['css', 'static/css']) if d.chance(20) else None
    if o['join_css'] and o['css_path'] and AVOID['F43']:
        o['css_path'] = None
    o['css'] = d.choice([None, None, None, 'skoolkit.css;game.css', 'game.css'])
    o['js'] = d.choice([None, None, None, 'game.js', 'game.js;extra.js'])
    o['logo'] = d.choice([None, None, None, None, 'macro', 'image', 'image-missing'])
    o['gamedir'] = d.choice([None, None, None, None, 'game', 'deep/er'])
    o['skooldir'] = d.choice(['', '', 'src'])
    o['dash_c'] = d.chance(20)        # pass some [Game] parameters with -c instead of the ref file
    hexmode = o['base'] == '-H'
    o['hexmode'] = hexmode

    # ---- [Paths]
    p = w['paths'] = {}
    if d.chance(30):
        p['CodePath'] = d.choice(['code', 'a/b', 'asm/main', '.'])
    o['codefiles'] = d.choice(['dec', 'dec', 'dec', 'hex4u', 'pad', 'ifhex'])
    if o['codefiles'] != 'dec':
        p['CodeFiles'] = CODEFILES[o['codefiles']]
    if d.chance(20):
        p['MemoryMap'] = d.choice(['maps/everything.html', 'all.html', 'm/n/o/all.html'])
    if d.chance(15):
        p['RoutinesMap'] = d.choice(['routines.html', 'maps/sub/r.html'])
    if d.chance(15):
        p['GameStatusBuffer'] = d.choice(['gsb.html', 'maps/gsb.html'])
    if d.chance(20):
        p['GameIndex'] = d.choice(['home.html', 'top/index.html'])
    if o['css_path']:
        p['StyleSheetPath'] = o['css_path']
    if d.chance(20):
        p['JavaScriptPath'] = d.choice(['js', 'static/js'])
    if d.chance(20):
        p['ImagePath'] = d.choice(['img', 'static/images', '.'])
    if d.chance(15):
        p['UDGImagePath'] = d.choice(['{ImagePath}/u', 'udgs'])
    if d.chance(10):
        p['ScreenshotImagePath'] = d.choice(['{ImagePath}', 'shots/s'])
    if d.chance(15):
        p['AudioPath'] = d.choice(['snd', 'static/audio'])
    if d.chance(20):
        p['AsmSinglePage'] = d.choice(['dis.html', 'asm/all.html'])
    if d.chance(15):
        p['Bugs'] = d.choice(['bugs.html', 'reference/sub/bugs.html'])
    for c in codes[1:]:
        cid = c['id']
        if d.chance(25):
            p[cid + '-CodePath'] = d.choice([cid + 'code', 'other/' + cid, 'asm/' + cid, 'asm' + cid, 'a',
                                             '#IF({base}==16)(%s-hex,%s-dec)' % (cid, cid)])      # [Paths] values may contain skool macros
        if d.chance(20):
            p[cid + '-Index'] = d.choice([cid + '.html', 'other/' + cid + '/index.html'])
        if d.chance(20):
            p[cid + '-AsmSinglePage'] = d.choice([cid + '-asm.html', 'other/' + cid + '/dis.html'])
        c['source'] = d.choice([None, None, cid + '.skool', 'sub/' + cid + '-src.skool'])

    # ---- pages
    single = bool(o['single'])
    pages = w['pages'] = {}        # page id -> {'path', 'anchors': [...], 'kind'}
    main_live = live_entries(codes[0])
    types = {e['ctl'] for e in main_live}
    idx = p.get('GameIndex', 'index.html')
    pages['GameIndex'] = {'path': idx, 'anchors': [], 'kind': 'index'}
    maps = w['maps'] = {}          # map id -> list of entry addresses listed (main maps and other-code indexes)
    defmaps = [('MemoryMap', 'bcgstuw', 'maps/all.html'), ('RoutinesMap', 'c', 'maps/routines.html'),
               ('DataMap', 'bw', 'maps/data.html'), ('MessagesMap', 't', 'maps/messages.html'),
               ('UnusedMap', 'su', 'maps/unused.html'), ('GameStatusBuffer', 'g', 'buffers/gbuffer.html')]
    w['mapcfg'] = mapcfg = {}
    for mid, et, path in defmaps:
        listed = [e['addr'] for e in main_live if e['ctl'] in et]
        cfg = {}
        if mid != 'MemoryMap' and d.chance(10):
            cfg['Write'] = '0'
        if d.chance(15):
            cfg['EntryDescriptions'] = '1'
        if d.chance(15):
            cfg['LabelColumn'] = '1'
        if cfg:
            mapcfg[mid] = cfg
        if listed and cfg.get('Write') != '0':
            maps[mid] = listed
            pages[mid] = {'path': p.get(mid, path), 'anchors': listed, 'kind': 'map'}
    if d.chance(30):
        et = d.choice(['c', 'bw', '', 'gt', 'cbw'])
        inc = [e['addr'] for e in d.sample(main_live, d.int(0, 2))]
        cfg = {'EntryTypes': et}
        if inc:
            cfg['Includes'] = ','.join(str(a) for a in inc)
        if d.chance(40):
            cfg['EntryDescriptions'] = '1'
        cfg['Intro'] = None          # text filled in later
        mapcfg['Custom'] = cfg
        listed = [e['addr'] for e in main_live if e['ctl'] in et or e['addr'] in inc]
        if listed:
            if d.chance(30):
                p['Custom'] = d.choice(['custom-map.html', 'maps/x/custom.html'])
            maps['Custom'] = listed
            pages['Custom'] = {'path': p.get('Custom', 'maps/Custom.html'), 'anchors': listed, 'kind': 'map'}
    for c in codes[1:]:
        cid = c['id']
        mid = cid + '-Index'
        listed = [e['addr'] for e in live_entries(c)]
        maps[mid] = listed
        pages[mid] = {'path': p.get(mid, '%s/%s.html' % (cid, cid)), 'anchors': listed, 'kind': 'omap', 'code': cid}
        if d.chance(20):
            # a [MemoryMap:*] section for an other-code index replaces the built-in one: EntryTypes must be restated
            mapcfg[mid] = {'EntryTypes': 'bcgstuw', 'EntryDescriptions': '1'}
            if d.chance(50):
                mapcfg[mid]['Intro'] = None
    # box pages
    boxes = w['boxes'] = []
    box_defs = [('Bugs', 'Bug', 'reference/bugs.html', None), ('Facts', 'Fact', 'reference/facts.html', None),
                ('Pokes', 'Poke', 'reference/pokes.html', None), ('Glossary', 'Glossary', 'reference/glossary.html', None),
                ('Changelog', 'Changelog', 'reference/changelog.html', 'ListItems'),
                ('Notes', 'Note', 'Notes.html', None), ('News', 'NewsItem', 'News.html', 'BulletPoints')]
    for pid, prefix, path, stype in d.sample(box_defs, d.choice([0, 1, 1, 2, 3])):
        ents = []
        for k in range(d.int(1, 3)):
            title = '%s %s %d' % (d.choice(['Odd', 'Big', 'Late (really)', 'v1.0', 'Hidden']), d.choice(['thing', 'one', 'bit']), k)
            if d.chance(50):
                anchor = '%s%d' % (prefix.lower()[:3], k)
                ents.append({'anchor': anchor, 'title': title, 'explicit': True})
            else:
                ents.append({'anchor': re.sub(r'[\s()]', '_', title.lower()), 'title': title, 'explicit': False})
        if pid in ('Notes', 'News') and d.chance(40):
            p[pid] = d.choice(['pages/%s.html' % pid.lower(), 'reference/%s.html' % pid.lower()])
        boxes.append({'id': pid, 'prefix': prefix, 'stype': stype, 'custom': pid in ('Notes', 'News'), 'entries': ents,
                      'js': d.chance(15)})
        pages[pid] = {'path': p.get(pid, path), 'anchors': [e['anchor'] for e in ents], 'kind': 'box', 'listbox': bool(stype)}
    # custom content pages
    cpages = w['cpages'] = []
    for k in range(d.choice([0, 0, 1, 1, 2])):
        pid = ['Custom1', 'Custom2'][k]
        if d.chance(40):
            p[pid] = d.choice(['pages/%s.html' % pid.lower(), 'reference/deep/%s.html' % pid.lower(), '%s-page.html' % pid.lower()])
        ids = ['sec%d' % j for j in range(d.int(0, 2))]
        cpages.append({'id': pid, 'ids': ids, 'js': d.chance(25)})
        pages[pid] = {'path': p.get(pid, pid + '.html'), 'anchors': ids, 'kind': 'page'}
    w['existing_page'] = d.chance(12)
    if w['existing_page']:
        pages['Manual'] = {'path': 'docs/manual.html', 'anchors': ['intro'], 'kind': 'existing'}
    # single disassembly pages
    if single:
        pages['AsmSinglePage'] = {'path': p.get('AsmSinglePage', 'asm.html'), 'kind': 'single', 'code': 'main',
                                  'anchors': [fmt_addr(o['anchor'], i['addr'], hexmode) for e in main_live for i in e['instrs']]}
        for c in codes[1:]:
            cid = c['id']
            pages[cid + '-AsmSinglePage'] = {
                'path': p.get(cid + '-AsmSinglePage', cid + '/asm.html'), 'kind': 'single', 'code': cid,
                'anchors': [fmt_addr(o['anchor'], i['addr'], hexmode) for e in live_entries(c) for i in e['instrs']]}
    w['index_extra'] = d.chance(30)
    w['mp3'] = d.chance(10)
    return w


# ---------------------------------------------------------------------------
# Generator: annotation text with macros
# ---------------------------------------------------------------------------
IMG_NAMES = ['pic', 'pic.png', 'sub/tile', '/top/abs', '{ImagePath}/x/byid', '{UDGImagePath}/u2', 'pic|some alt text', 'sprite']
AUDIO_NAMES = ['blip.wav', 'sub/beep.wav', '/sounds/zap.wav', 'tune.wav', 'LOUD.WAV', 'sub/Mixed.Wav']      # incl. upper- and mixed-case extensions


class TextGen:
    def __init__(self, d, w):
        self.d = d
        self.w = w
        self.codes = {c['id']: c for c in w['codes']}
        o = w['opt']
        self.afmt = lambda a: fmt_addr(o['anchor'], a, o['hexmode'])
        self.eff_dec = o['anchor'] == 'dec' or (o['anchor'] == 'ifhex' and not o['hexmode'])
        self.stats = {}

    def _count(self, k):
        self.stats[k] = self.stats.get(k, 0) + 1

    def num(self, a):
        d = self.d
        k = d.int(0, 9)
        if k < 6:
            return str(a)
        if k < 8:
            return '$%04X' % a
        if k == 8 and a >= 2:
            return '(%d+%d)' % (a - 2, 2)
        return '(%d)' % a

    def words(self, n=None):
        d = self.d
        return ' '.join(d.choice(WORDS) for _ in range(n or d.int(1, 4)))

    # -- #R ---------------------------------------------------------------------
    def macro_r(self, here):
        d = self.d
        code = self.codes[here]
        targets = []        # (code id or '', entry dict or None, address)
        others = [c for c in self.w['codes'] if c['id'] != here]
        use_other = others and d.chance(40)
        if use_other:
            y = d.choice(others)
            decl = [r for r in code['remote'] if r['code'] == y['id']]
            if decl and d.chance(60):
                r = d.choice(decl)
                entry = next(e for e in y['entries'] if e['addr'] == r['entry'] and e['ctl'] != 'i')
                addr = d.choice(r['addrs'])
                self._count('R:remote-declared')
            else:
                entry = d.choice(live_entries(y))
                addr = entry['addr']
                self._count('R:other-entry')
            suffix = '@' + y['id']
        else:
            entry = d.choice(live_entries(code))
            addr = d.choice(entry['instrs'])['addr']
            suffix = ''
            if not AVOID['F46'] and d.chance(15):
                suffix = '@' + here
            self._count('R:own')
        anchor = ''
        land = {addr}            # addresses whose anchor the link may land on
        k = d.int(0, 9)
        if k == 0:
            anchor = '#%d' % entry['addr']                      # evaluates to the entry address
            land.add(entry['addr'])
        elif k == 1:
            anchor = '#$%04X' % entry['addr']
            land.add(entry['addr'])
        elif k == 2:
            x = d.choice(entry['instrs'])['addr']
            anchor = '#' + self.afmt(x)     # literal id of an instruction of the entry
            if anchor[1].isupper():
                anchor = ''          # '#C000' in the expansion would be read as a macro named #C
            else:
                land.add(x)
                lit = anchor[1:]
                if (lit.isdigit() and int(lit) == entry['addr']) or (re.match(r'^\d+e\d+$', lit) and int(float(lit)) == entry['addr']):
                    land.add(entry['addr'])     # the spelled id happens to evaluate to the entry address: it is converted
        if anchor:
            self._count('R:anchor')
        text = ''
        if d.chance(70):
            # explicit link text that tells the oracle where the link has to land: T:<disassembly>:<address>[x<address>]
            # (a user-supplied #name is honoured on entry pages and ignored on the single disassembly page: either is accepted)
            text = '(T:%s:%s)' % (y['id'] if use_other else here, 'x'.join(str(a) for a in sorted(land)))
            self._count('R:landing-checked')
        return '#R%s%s%s%s' % (self.num(addr), suffix, anchor, text)

    # -- #LINK ------------------------------------------------------------------
    def macro_link(self, here, main_writer):
        d = self.d
        pages = self.w['pages']
        pid = d.choice(sorted(pages))
        if pid == 'Custom' and not main_writer and AVOID['F45']:
            # a secondary writer registers a custom memory map (path, title, link text) only if its own entries fit the map
            pid = 'MemoryMap'
        pg = pages[pid]
        anchor = ''
        if pg['anchors'] and d.chance(55):
            a = d.choice(pg['anchors'])
            if pg['kind'] == 'map':
                # converted to the AddressAnchor format by the main writer (F41: not by a secondary writer)
                if self.eff_dec or main_writer or not AVOID['F41']:
                    anchor = '#%d' % a
            elif pg['kind'] == 'omap':
                if self.eff_dec or not AVOID['F41']:         # F41: never converted for other-code index pages
                    anchor = '#%d' % a
            elif not str(a)[0].isupper():    # '#C000' in the expansion would be read as a macro named #C
                anchor = '#%s' % a
        self._count('LINK:' + pg['kind'] + ('#' if anchor else ''))
        text = ''
        if d.chance(70) or (anchor and pg.get('listbox') and AVOID['F44']):
            # explicit link text that tells the oracle where the link has to land: L:<page id>:<expected fragment>
            frag = anchor[1:]
            if frag and pg['kind'] in ('map', 'omap'):
                frag = self.afmt(int(frag))
            text = 'L:%s:%s' % (pid, frag)
        return '#LINK(%s%s)(%s)' % (pid, anchor, text)

    # -- images / audio -----------------------------------------------------------------
    def macro_img(self):
        d = self.d
        k = d.int(0, 9)
        name = d.choice(IMG_NAMES)
        a = d.choice([0, 15360, 16384, 32768, 40000, 65528])
        attr = d.choice([7, 56, 6, 199])
        self._count('img')
        if k < 4:
            if d.chance(25):
                return '#UDG%s,%d,%d' % (self.num(a), attr, d.int(1, 2))      # default file name
            return '#UDG%s,%d,1(%s)' % (self.num(a), attr, name)
        if k < 6:
            return '#SCR1,%d,%d,%d,1(%s)' % (d.int(0, 30), d.int(0, 23), d.int(1, 2), name)
        if k < 8:
            return '#FONT15360,0,%d,1(%s)(%s)' % (attr, d.choice(['hi', 'A', 'ok!']), name)
        if k == 8:
            a = min(a, 65520)
            return '#UDGARRAY2,%d,1(%d-%d-8)(%s)' % (attr, a, a + 8, name)
        n = a % 7
        return '#UDG%d,%d,1(*fr%d)#UDG%d,%d,1(*gr%d)#FRAMES(fr%d;gr%d,10)(%s)' % (a, attr, n, a, attr ^ 1, n, n, n, name.split('|')[0] + '_f')

    def macro_audio(self):
        d = self.d
        self._count('audio')
        name = d.choice(AUDIO_NAMES)
        if name == 'tune.wav' and not self.w['mp3']:
            name = 'blip.wav'
        return '#AUDIO0(%s)(%s)' % (name, d.choice(['500,600,700', '[100]*20', '1000,[300,400]*3']))

    def macro(self, here, main_writer=True, block=True):
        d = self.d
        k = d.int(0, 19)
        if k < 8:
            return self.macro_r(here)
        if k < 12:
            return self.macro_link(here, main_writer)
        if k < 15:
            return self.macro_img()
        if k == 15:
            return self.macro_audio()
        if k == 16:
            return '<a href="https://example.com/%s">ext</a>' % d.choice(['x', 'a/b#c'])
        if k == 17:
            return '<b>%s</b> <a href="mailto:a@example.com">mail</a>' % self.words(1)
        if not block:
            return self.macro_r(here)
        if k == 18:
            self._count('LIST')
            return '#LIST { %s } { %s %s } LIST#' % (self.macro_r(here), self.words(2), self.macro(here, main_writer, False))
        self._count('TABLE')
        return '#TABLE(default,centre) { =h %s | =h %s } { %s | %s } TABLE#' % (
            self.words(1), self.words(1), self.macro_r(here), self.macro(here, main_writer, False))

    def text(self, here, main_writer=True, pct=45, block=True):
        d = self.d
        parts = [self.words()]
        n = 0
        while n < 3 and d.chance(pct):
            parts.append(self.macro(here, main_writer, block))
            parts.append(self.words(d.int(1, 2)))
            n += 1
        return ' '.join(parts)


# ---------------------------------------------------------------------------
# Generator: rendering
# ---------------------------------------------------------------------------
def render_skool(d, w, tg, code):
    cid = code['id']
    mw = code['main']
    o = w['opt']
    lines = []
    remote_lines = []
    for r in code['remote']:
        if len(r['addrs']) > 1 and d.chance(25):
            # the same remote entry declared twice, the later directive naming further entry points
            remote_lines.append('@remote=%s:%s' % (r['code'], ','.join(str(a) for a in r['addrs'][:-1])))
        remote_lines.append('@remote=%s:%s' % (r['code'], ','.join(('$%04X' % a if code['hex'] and d.chance(50) else str(a)) for a in r['addrs'])))
    # operand target pools
    own_entries = [e['addr'] for e in code['entries'] if e['ctl'] != 'i']
    own_c = [e['addr'] for e in code['entries'] if e['ctl'] == 'c']
    own_eps = [i['addr'] for e in code['entries'] for i in e['instrs'] if i['ep']]
    own_mid = [i['addr'] for e in code['entries'] if e['ctl'] != 'i' for i in e['instrs'][1:] if not i['ep']]
    own_i = [i['addr'] for e in code['entries'] if e['ctl'] == 'i' for i in e['instrs']]
    inside = [i['addr'] + 1 for e in code['entries'] for i in e['instrs'] if i['size'] > 1]
    remote = [a for r in code['remote'] for a in r['addrs']]
    own_all = {i['addr'] for e in code['entries'] for i in e['instrs']}
    op_remote = remote
    if o['single'] and AVOID['F42']:
        op_remote = [a for a in remote if a in own_all]
    undeclared = [e['addr'] for c in w['codes'] if c is not code for e in c['entries'] if e['addr'] not in remote]
    label_n = [0]

    def fmt(a):
        return '$%04X' % a if code['hex'] else str(a)

    def target(entry, ins):
        pools = [own_c, own_c, own_entries, own_eps, own_eps, own_mid, op_remote, op_remote, undeclared, inside, own_i,
                 [i['addr'] for i in entry['instrs']], [ins['addr']], [23296, 65535, 0]]
        pools = [p for p in pools if p]
        t = d.choice(d.choice(pools))
        if t in remote and t not in own_all and t not in op_remote:
            t = entry['addr']            # F42 avoided
        return t

    if remote_lines and d.chance(50):
        lines += remote_lines
        remote_lines = []
    for ei, e in enumerate(code['entries']):
        if ei:
            lines.append('')
        if remote_lines and (ei == len(code['entries']) - 1 or d.chance(50)):
            lines += remote_lines
            remote_lines = []
        ctl = e['ctl']
        live = ctl != 'i'
        if live or d.chance(50):
            title = tg.words(3)
            if live and d.chance(8):
                title += ' ' + tg.macro_img()
            lines.append('; ' + title)
            hdr = d.int(0, 9) if live else 0
            if hdr >= 5:
                lines.append(';')
                lines.append('; ' + tg.text(cid, mw, 60))
                if d.chance(25):
                    lines.append('; .')
                    lines.append('; ' + tg.text(cid, mw, 60))
            if hdr >= 8:
                lines.append(';')
                lines.append('; %s %s' % (d.choice(['A', 'HL', 'O:BC', 'I:DE']), tg.text(cid, mw, 40, False)))
                if o['midblock'] and d.chance(50):
                    lines.append(';')
                    lines.append('; ' + tg.text(cid, mw, 50))      # start comment
        for j, ins in enumerate(e['instrs']):
            if live and j and o['midblock'] and d.chance(15):
                lines.append('; ' + tg.text(cid, mw, 50))          # mid-block comment
                tg._count('mid-block-comment')
            if live and d.chance(20):
                label_n[0] += 1
                label = '%s%s%d' % (d.choice(['L', 'loop', 'DATA_']), cid.replace('$', ''), label_n[0])
                lines.append('@label=' + label)
                code.setdefault('labels', {})[label] = ins['addr']
            if ins['has_t'] and d.chance(6):
                lines.append('@keep')
            op = ins['tmpl']
            if '{t}' in op:
                op = op.replace('{t}', fmt(target(e, ins)))
            if '{r}' in op:
                r = d.choice([x for x in (0, 8, 16, 24, 32, 40, 48, 56) if x in op_remote or x not in remote])
                op = op.replace('{r}', ('$%02X' % r) if code['hex'] else str(r))
            while '{n}' in op:
                n = d.int(0, 255)
                while n in remote and n not in own_all and n not in op_remote:
                    n += 1           # F42 avoided: a DEFW/LD value that happens to be a remote address
                op = op.replace('{n}', str(n), 1)
            if code['lower']:
                op = op.lower()
            c0 = ctl if j == 0 else ('*' if ins['ep'] else ' ')
            line = '%s%s %s' % (c0, ('$%04X' % ins['addr']) if code['hex'] else '%05d' % ins['addr'], op)
            if live and d.chance(35):
                line += ' ; ' + tg.text(cid, mw, 45, False)
            lines.append(line.rstrip())
        if live and d.chance(15):
            lines.append('; ' + tg.text(cid, mw, 50))              # end comment
    return '\n'.join(lines) + '\n'


def render_ref(d, w, tg):
    o = w['opt']
    codes = w['codes']
    out = []
    dash_c = []

    def sec(name, kv):
        out.append('[%s]' % name)
        for k, v in kv:
            out.append('%s=%s' % (k, v) if k is not None else v)
        out.append('')

    if o['gamedir']:
        sec('Config', [('GameDir', o['gamedir'])])
    game = []
    if o['anchor'] != 'dec':
        game.append(('AddressAnchor', ANCHOR_FMTS[o['anchor']]))
    if o['single'] == 'ref':
        game.append(('AsmSinglePage', '1'))
    elif o['single'] == 'c':
        dash_c.append('Game/AsmSinglePage=1')
    if o['link_operands']:
        game.append(('LinkOperands', o['link_operands']))
    if o['lio']:
        game.append(('LinkInternalOperands', '1'))
    if o['lio_min'] is not None:
        game.append(('LinkInternalOperandsMinDistance', str(o['lio_min'])))
    if o['css']:
        game.append(('StyleSheet', o['css']))
    if o['js']:
        game.append(('JavaScript', o['js']))
    if o['logo'] == 'macro':
        game.append(('Logo', '#UDG15616,6,1(logo)'))
    elif o['logo']:
        game.append(('LogoImage', 'images/logo.png'))
    if d.chance(20):
        game.append(('Game', 'The Game'))
    if d.chance(10):
        game.append(('Copyright', '&copy; 2026 <a href="https://example.com/">Someone</a>'))
    if o['dash_c']:
        keep = []
        for k, v in game:
            if k in ('AddressAnchor', 'LinkOperands', 'LinkInternalOperands', 'StyleSheet') and d.chance(60):
                dash_c.append('Game/%s=%s' % (k, v))
            else:
                keep.append((k, v))
        game = keep
    if game:
        sec('Game', game)
    if w['paths']:
        sec('Paths', sorted(w['paths'].items()))
    for c in codes[1:]:
        sec('OtherCode:' + c['id'], [('Source', c['source'])] if c['source'] else [])
    for mid, cfg in sorted(w['mapcfg'].items()):
        kv = []
        for k, v in cfg.items():
            if k == 'Intro':
                code_here = w['pages'][mid].get('code', 'main') if mid in w['pages'] else 'main'
                v = tg.text(code_here, code_here == 'main', 70, False)
            kv.append((k, v))
        sec('MemoryMap:' + mid, kv)
    for b in w['boxes']:
        if b['custom']:
            kv = [('SectionPrefix', b['prefix'])]
            if b['stype']:
                kv.append(('SectionType', b['stype']))
            if b['js']:
                kv.append(('JavaScript', 'page.js'))
            sec('Page:' + b['id'], kv)
        elif b['js']:
            sec('Page:' + b['id'], [('JavaScript', 'page.js')])
        for e in b['entries']:
            name = '%s:%s:%s' % (b['prefix'], e['anchor'], e['title']) if e['explicit'] else '%s:%s' % (b['prefix'], e['title'])
            body = []
            if b['stype'] == 'ListItems':
                body.append((None, d.choice(['-', tg.text('main', True, 40, False)])))
                body.append((None, ''))
                body.append((None, tg.text('main', True, 50, False)))
                body.append((None, '  ' + tg.text('main', True, 50, False)))
                body.append((None, tg.words()))
            elif b['stype'] == 'BulletPoints':
                body.append((None, tg.text('main', True, 40, False)))
                body.append((None, ''))
                body.append((None, '- ' + tg.text('main', True, 50, False)))
                body.append((None, '  ' + tg.words()))
                body.append((None, '  - ' + tg.text('main', True, 50, False)))
                body.append((None, '- ' + tg.words()))
            else:
                body.append((None, tg.text('main', True, 60)))
                if d.chance(40):
                    body.append((None, ''))
                    body.append((None, tg.text('main', True, 60)))
            sec(name, body)
    for cp in w['cpages']:
        content = '<p>%s</p>' % tg.text('main', True, 70)
        for i in cp['ids']:
            content += '<h2 id="%s">%s</h2><p>%s</p>' % (i, tg.words(2), tg.text('main', True, 50))
        kv = [('PageContent', content)]
        if cp['js']:
            kv.append(('JavaScript', d.choice(['page.js', 'page.js;extra.js'])))
        sec('Page:' + cp['id'], kv)
    resources = []
    if w['existing_page']:
        sec('Page:Manual', [('Content', 'docs/manual.html')])
        resources.append(('manual.html', 'docs'))
    if o['logo'] == 'image':
        resources.append(('logo.png', 'images'))
    if w['mp3']:
        resources.append(('tune.mp3', w['paths'].get('AudioPath', 'audio')))
    if resources:
        sec('Resources', resources)
    if w['index_extra']:
        sec('Index', [(None, 'MemoryMaps'), (None, 'Extra'), (None, 'OtherCode'), (None, 'Reference'), (None, 'DataTables')])
        sec('Index:Extra:Extra stuff', [(None, pid) for pid in ['Custom1', 'Custom2', 'Notes', 'News', 'Manual', 'Custom']])
    return '\n'.join(out) + '\n', dash_c


def _eff_path(path, hexmode):
    """The value of a [Paths] parameter after macro expansion (only the one macro form the generator writes)."""
    m = re.fullmatch(r'#IF\(\{base\}==16\)\(([^,]*),([^)]*)\)', path)
    return (m.group(1) if hexmode else m.group(2)) if m else path


def build_model(w):
    """Where the documentation says each entry is listed, and with which ids."""
    o = w['opt']
    p = w['paths']
    single = bool(o['single'])
    hexmode = o['hexmode']
    model = {'single': single, 'pages': [], 'maps': sorted(pg['path'] for pg in w['pages'].values() if pg['kind'] in ('map', 'omap'))}
    for c in w['codes']:
        cid = c['id']
        kind = 'd' if c['main'] else 'o'
        if single:
            path = p.get('AsmSinglePage', 'asm.html') if c['main'] else p.get(cid + '-AsmSinglePage', cid + '/asm.html')
            model['pages'].append({'kind': kind, 'code': cid, 'file': pjoin(path), 'single': True,
                                   'entries': [fmt_addr(o['anchor'], e['addr'], hexmode) for e in live_entries(c)],
                                   'ids': [fmt_addr(o['anchor'], i['addr'], hexmode) for e in live_entries(c) for i in e['instrs']],
                                   'entry_addrs': [e['addr'] for e in live_entries(c)],
                                   'addrs': [i['addr'] for e in live_entries(c) for i in e['instrs']]})
        else:
            cdir = p.get('CodePath', 'asm') if c['main'] else _eff_path(p.get(cid + '-CodePath', cid), hexmode)
            for e in live_entries(c):
                model['pages'].append({'kind': kind, 'code': cid, 'single': False,
                                       'file': pjoin(cdir, codefile(o['codefiles'], e['addr'], hexmode)),
                                       'entries': [fmt_addr(o['anchor'], e['addr'], hexmode)],
                                       'ids': [fmt_addr(o['anchor'], i['addr'], hexmode) for i in e['instrs']],
                                       'entry_addrs': [e['addr']], 'addrs': [i['addr'] for i in e['instrs']]})
    # what the landing checks need: @remote declarations and @label names per disassembly, page paths by id
    model['remote'] = {c['id']: [[r['code'], r['addrs']] for r in c['remote']] for c in w['codes']}
    model['labels'] = {c['id']: c.get('labels', {}) for c in w['codes']}
    model['linkpages'] = {pid: pjoin(pg['path']) for pid, pg in w['pages'].items()}
    return model


@st.composite
def cases(draw):
    d = D(draw)
    w = gen_world(d)
    o = w['opt']
    tg = TextGen(d, w)
    files = {}
    sdir = o['skooldir']
    main_name = pjoin(sdir, 'game.skool')
    files[main_name] = render_skool(d, w, tg, w['codes'][0])
    for c in w['codes'][1:]:
        files[pjoin(sdir, c['source'] or c['id'] + '.skool')] = render_skool(d, w, tg, c)
    ref, dash_c = render_ref(d, w, tg)
    files[pjoin(sdir, 'game.ref')] = ref
    # assets, found in the directory of the skool file
    for name in ('game.css', 'game.js', 'extra.js', 'page.js'):
        files[pjoin(sdir, name)] = '/* %s */\n' % name
    files[pjoin(sdir, 'logo.png')] = 'not really a PNG\n'
    files[pjoin(sdir, 'tune.mp3')] = 'not really an MP3\n'
    files[pjoin(sdir, 'manual.html')] = '<html><body><h1 id="intro">Manual</h1><a href="../index.html">home</a></body></html>\n'
    argv = []
    for flag in (o['base'], o['case']):
        if flag:
            argv.append(flag)
    if o['single'] == '-1':
        argv.append('-1')
    if o['asm_labels']:
        argv.append('-a')
    if o['create_labels']:
        argv.append('-C')
    if o['rebuild']:
        argv.append('-o')
    if o['theme']:
        argv += ['-T', o['theme']]
    if o['join_css']:
        argv += ['-j', o['join_css']]
    for spec in dash_c:
        argv += ['-c', spec]
    scenario = d.choice(['full', 'full', 'full', 'full', 'subset', 'subset', 'rerun'])
    case = {'files': files, 'skool': main_name, 'argv': argv, 'scenario': scenario, 'model': build_model(w)}
    if w['existing_page'] and w['paths'].get('GameIndex', 'index.html') != 'index.html':
        # the hand-written page links to ../index.html
        case['files'][pjoin(sdir, 'manual.html')] = '<html><body><h1 id="intro">Manual</h1></body></html>\n'
    if scenario == 'subset':
        letters = d.sample('dimoP', d.int(1, 4))
        case['write'] = ''.join(letters)
    elif scenario == 'rerun':
        case['rerun_argv'] = d.choice([[], ['-o'], ['-o', '-O']])
    elif d.chance(30):
        case['argv'] = argv + ['-w', ''.join(d.sample('dimoP', 5))]
    case['stats'] = dict(sorted(tg.stats.items()))
    return case


CASES = cases()

# ---------------------------------------------------------------------------
# Oracle
# ---------------------------------------------------------------------------
USER_ERRORS = ('SkoolKitError', 'SkoolParsingError')
F15_SIG = 'dup-id:single-page-entry-header+first-instruction'
F28_SIG = 'dup-id:mid-block-comment+instruction'
F29_SIG = 'fragment:link-map-anchor-not-converted'
F30_SIG = 'fragment:single-page-operand-link-to-remote-entry'
KNOWN_SIGS = {F15_SIG: 'F15', F28_SIG: 'F28', F29_SIG: 'F41', F30_SIG: 'F42'}


def _run(case, argv, tag):
    r = cli.run('skool2html', argv)
    if r.exc is not None:
        if type(r.exc).__name__ in USER_ERRORS:
            raise Violation('skool2html-error:' + re.sub(r'[\d$]+', 'N', str(r.exc))[:60],
                            '%s run: skool2html %s rejected the project: %s' % (tag, ' '.join(argv), r.exc), case)
        raise Violation(crash_sig(r.exc, 'skool2html'), '%s run: skool2html %s raised %r' % (tag, ' '.join(argv), r.exc), case)
    if not r.ok:
        raise Violation('skool2html-exit', '%s run: skool2html %s exited %r: %s' % (tag, ' '.join(argv), r.code, r.err[-300:]), case)
    return r


def _announced(stdout):
    """-> (odir, list of 'Writing X' paths, list of directories, list of copied/created files), relative to odir."""
    odir = None
    files, dirs, copied = [], [], []
    for line in stdout.split('\n'):
        if line.startswith('Output directory: '):
            odir = line[18:].strip()
        elif line.startswith('Writing disassembly files in '):
            dirs.append(posixpath.normpath(line[29:].strip()))
        elif line.startswith('Writing '):
            files.append(posixpath.normpath(line[8:].strip()))
        elif line.startswith('Copying ') and ' to ' in line:
            copied.append(posixpath.normpath(line.rsplit(' to ', 1)[1].strip()))
    return odir, files, dirs, copied


def _ctx_label(ref):
    for c in reversed(ref.ctx):
        if '.' in c:
            return c
    return ref.ctx[-1] if ref.ctx else ref.tag


def _classify_dups(fname, page, mpage):
    """Problems for duplicate ids of one file. mpage: model page for this file or None."""
    probs = []
    for id_, group in sorted(page.duplicates().items()):
        others = []
        n_addr = 0
        for a in group:
            parent = a.ctx[-1] if a.ctx else ''
            if a.tag == 'span' and parent.startswith('td.address-'):
                n_addr += 1
                if n_addr > 1:
                    others.append(('instruction', a))
            elif a.tag == 'span' and parent == 'td.routine-comment':
                others.append(('block-comment', a))
            elif a.tag == 'div' and a.cls == 'description' and mpage is not None and mpage['single'] and id_ in mpage['entries']:
                others.append(('entry-header', a))
            else:
                others.append(('other', a))
        if n_addr == 0:
            others = [('other', a) for a in group[1:]]
        kinds = {}
        for k, a in others:
            kinds[k] = kinds.get(k, 0) + 1
        for k, n in sorted(kinds.items()):
            detail = '%s: id="%s" is carried by %d elements: %s' % (fname, id_, len(group), ', '.join(repr(a) for a in group))
            if k == 'entry-header' and n == 1 and n_addr == 1:
                probs.append((F15_SIG, detail))
            elif k == 'block-comment' and n == 1 and n_addr == 1:
                probs.append((F28_SIG, detail))
            else:
                probs.append(('dup-id:' + k, detail))
    return probs


T_RE = re.compile(r'^T:([^:]+):(\d+(?:x\d+)*)$')
L_RE = re.compile(r'^L:([^:]+):(.*)$')


def _expected(model, prefix, code, addr):
    """(file, id, fragment optional) for the place where instruction `addr` of disassembly `code` is listed, or None."""
    for mp in model['pages']:
        if mp['code'] == code and addr in mp.get('addrs', ()):
            return (pjoin(prefix, mp['file']), mp['ids'][mp['addrs'].index(addr)],
                    not mp['single'] and addr in mp['entry_addrs'])
    return None


def _lands_on(fname, ref, exp):
    kind, path, frag = htmlscan.split_url(ref.url)
    if kind != 'relative' or htmlscan.resolve(fname, path) != exp[0]:
        return False
    if frag:
        return frag == exp[1]
    return exp[2]


def _landing_problems(tree, prefix, model, mpages):
    """Links whose intended target is known (operand links: the operand; generated #R/#LINK: encoded in the link text)
    must land on the anchor of that target, not merely on something that exists."""
    probs = []
    for fname in sorted(tree):
        page = tree[fname]
        if page is None:
            continue
        mp = mpages.get(fname)
        for ref in page.refs:
            if ref.tag != 'a' or ref.attr != 'href':
                continue
            text = ref.text.strip()
            m = T_RE.match(text)
            if m:
                exps = [_expected(model, prefix, m.group(1), int(a)) for a in m.group(2).split('x')]
                exps = [e for e in exps if e]
                if not exps:
                    raise RuntimeError('generator/model inconsistency: no page for %s' % text)
                if not any(_lands_on(fname, ref, e) for e in exps):
                    probs.append(('landing:R', '%s: #R link "%s" has href="%s", expected %s' % (
                        fname, text, ref.url, ' or '.join('%s#%s' % e[:2] for e in exps))))
                continue
            m = L_RE.match(text)
            if m and m.group(1) in model.get('linkpages', {}):
                kind, path, frag = htmlscan.split_url(ref.url)
                target = htmlscan.resolve(fname, path) if kind == 'relative' else None
                if target != pjoin(prefix, model['linkpages'][m.group(1)]) or (frag or '') != m.group(2):
                    probs.append(('landing:LINK', '%s: #LINK link "%s" has href="%s", expected %s#%s' % (
                        fname, text, ref.url, pjoin(prefix, model['linkpages'][m.group(1)]), m.group(2))))
                continue
            if mp is not None and 'td.instruction' in ref.ctx and 'addrs' in mp:
                code = mp['code']
                if text.startswith('$'):
                    try:
                        addr = int(text[1:], 16)
                    except ValueError:
                        continue
                elif text.isdigit():
                    addr = int(text)
                else:
                    addr = model.get('labels', {}).get(code, {}).get(text)
                    if addr is None:
                        continue
                exps = [_expected(model, prefix, code, addr)]
                if not exps[0]:
                    exps = [_expected(model, prefix, rc, addr) for rc, addrs in model.get('remote', {}).get(code, ()) if addr in addrs]
                exps = [e for e in exps if e]
                if exps and not any(_lands_on(fname, ref, e) for e in exps):
                    if mp['single'] and ref.url.startswith('#') and all(e[0] != fname for e in exps):
                        continue      # F42 class: reported by the link scan as a dangling fragment
                    probs.append(('landing:operand', '%s: operand link "%s" has href="%s", expected %s' % (
                        fname, text, ref.url, ' or '.join('%s#%s' % e[:2] for e in exps))))
    return probs


def check_tree(tree, prefix, announced, model, kinds, fallback=None):
    """All problems of one written tree. prefix: odir relative to the scanned root ('' or 'x/y').
    kinds: set of -w letters in effect. Returns list of (sig, msg)."""
    probs = []
    # ---- links ------------------------------------------------------------------------------------------
    html_fb = None
    if fallback is not None:
        html_fb = {k: v for k, v in fallback.items() if v is not None}
    map_files = {pjoin(prefix, m) for m in model['maps']}
    for kind, fname, ref, detail in htmlscan.check_links(tree, html_fb):
        sig = '%s:%s@%s' % (kind, ref.tag, _ctx_label(ref))
        if kind == 'fragment' and detail in map_files:
            frag = ref.url.partition('#')[2]
            tpage = tree.get(detail) or (fallback or {}).get(detail)
            if frag.isdigit() and tpage is not None and ref.tag == 'a' and not any(c.startswith('td.') and c[3:] in ('up', 'prev', 'next') for c in ref.ctx):
                conv = [f(int(frag)) for f in (lambda a: '%04x' % a, lambda a: '%04X' % a)]
                if any(c in tpage.ids for c in conv):
                    sig = F29_SIG
        if kind == 'fragment' and ref.url.startswith('#') and 'td.instruction' in ref.ctx:
            here = [mp for mp in model['pages'] if mp['single'] and pjoin(prefix, mp['file']) == fname]
            frag = ref.url[1:]
            if here and any(mp['single'] and mp['code'] != here[0]['code'] and frag in mp['ids'] for mp in model['pages']):
                sig = F30_SIG
        probs.append((sig, '%s: %s %s="%s" (in %s): %s %s' % (fname, ref.tag, ref.attr, ref.url, '>'.join(ref.ctx[-3:]), kind, detail)))
    # ---- ids ------------------------------------------------------------------------------------------------
    mpages = {pjoin(prefix, mp['file']): mp for mp in model['pages']}
    probs += _landing_problems(tree, prefix, model, mpages)
    for fname in sorted(tree):
        page = tree[fname]
        if page is not None:
            probs += _classify_dups(fname, page, mpages.get(fname))
    # ---- every entry / entry point has its anchor where the asm page lists it ------------------------
    for fname, mp in sorted(mpages.items()):
        if mp['kind'] not in kinds:
            continue
        page = tree.get(fname)
        if page is None:
            probs.append(('entry-page-missing', '%s (disassembly %s, entries %s) was not written' % (fname, mp['code'], mp['entries'][:3])))
            continue
        ids = page.ids
        for i in mp['ids']:
            if i not in ids:
                probs.append(('anchor-missing', '%s has no element with id "%s" (ids: %s)' % (fname, i, ids[:12])))
    # ---- written paths ------------------------------------------------------------------------------------------
    odir, files, dirs, copied = announced
    seen = set()
    for f in files:
        if f in seen:
            probs.append(('written-twice', '"Writing %s" was printed more than once' % f))
        seen.add(f)
        if pjoin(prefix, f) not in tree:
            probs.append(('announced-not-written', '"Writing %s" was printed but %s does not exist' % (f, pjoin(prefix, f))))
    expected_entry_files = {f for f, mp in mpages.items() if not mp['single']}
    ok_files = {pjoin(prefix, f) for f in files} | {pjoin(prefix, f) for f in copied}
    for fname in sorted(tree):
        if tree[fname] is None or fname in ok_files:
            continue
        if pjoin(posixpath.dirname(fname)) in {pjoin(prefix, x) for x in dirs} and (fname in expected_entry_files or not model.get('pages')):
            continue      # (a literal replay case carries no page model: "Writing disassembly files in <dir>" accounts for the directory)
        probs.append(('unannounced-html', '%s exists but no "Writing" line accounts for it' % fname))
    return probs


def _raise_first(probs, case):
    if not probs:
        return
    unknown = [p for p in probs if p[0] not in KNOWN_SIGS]
    order = unknown or sorted(probs, key=lambda p: (p[0] != F29_SIG, p[0] != F28_SIG))
    sig, msg = order[0]
    more = len({p[0] for p in probs}) - 1
    if more:
        msg += ' [+%d other problem class(es): %s]' % (more, ', '.join(sorted({p[0] for p in probs} - {sig}))[:300])
    raise Violation(sig, msg, case)


def oracle(case, rec=None):
    with cli.Scratch('c16-') as s:
        for name, text in case['files'].items():
            full = s.path(name)
            os.makedirs(os.path.dirname(full), exist_ok=True)
            with open(full, 'w') as f:
                f.write(text)
        argv = list(case['argv'])
        kinds = set('dimoP')
        if '-w' in argv:
            kinds = set(argv[argv.index('-w') + 1])
        r1 = _run(case, ['-d', 'out'] + argv + [case['skool']], 'full')
        ann1 = _announced(r1.out)
        if ann1[0] is None or not (ann1[0] == 'out' or ann1[0].startswith('out/')):
            raise Violation('no-output-directory', 'skool2html did not report an output directory under out: %r' % (ann1[0],), case)
        prefix = ann1[0][4:]
        tree1 = htmlscan.scan_tree(s.path('out'))
        probs = [(sig, 'full run: ' + m) for sig, m in check_tree(tree1, prefix, ann1, case['model'], kinds)]
        if case['scenario'] == 'rerun':
            r2 = _run(case, ['-d', 'out'] + argv + list(case['rerun_argv']) + [case['skool']], 'second')
            ann2 = _announced(r2.out)
            ann2 = (ann2[0], ann2[1], ann2[2], ann2[3] + ann1[3])
            tree2 = htmlscan.scan_tree(s.path('out'))
            lost = sorted(set(tree1) - set(tree2))
            if lost:
                probs.append(('rerun-lost-file', 'second run into the same directory removed %s' % lost[:4]))
            probs += [(sig, 'second run: ' + m) for sig, m in check_tree(tree2, prefix, ann2, case['model'], kinds)]
        elif case['scenario'] == 'subset':
            wr = case['write']
            r2 = _run(case, ['-d', 'out2'] + [a for a in argv] + ['-w', wr, case['skool']], 'subset')
            ann2 = _announced(r2.out)
            tree2 = htmlscan.scan_tree(s.path('out2'))
            probs += [(sig, 'run with -w %s: %s' % (wr, m)) for sig, m in check_tree(tree2, prefix, ann2, case['model'], set(wr), tree1)]
    if case.get('ignore'):
        # a reproducer of one finding may name other known classes that necessarily accompany it (e.g. F15 on every single-page tree)
        probs = [pr for pr in probs if KNOWN_SIGS.get(pr[0]) not in case['ignore']]
    if rec is not None and all(sig in (F15_SIG, F28_SIG) for sig, _ in probs):
        # the remaining predicates held: the case counts as evaluated even if it also shows a known duplicate-id class
        _record(rec, case, tree1, prefix, sorted({KNOWN_SIGS[sig] for sig, _ in probs}))
    _raise_first(probs, case)


def _record(rec, case, tree, prefix, known=()):
    model = case['model']
    n_entries = sum(len(mp['entries']) for mp in model['pages'])
    operand_links = frag_links = 0
    for fname, page in tree.items():
        if page is None:
            continue
        for ref in page.refs:
            if ref.tag != 'a':
                continue
            if 'td.instruction' in ref.ctx:
                operand_links += 1
            elif '#' in ref.url and not any(c in ('td.up', 'td.prev', 'td.next', 'ul.contents') for c in ref.ctx) \
                    and htmlscan.split_url(ref.url)[0] == 'relative':
                frag_links += 1
    nt = n_entries >= 2 and (operand_links >= 1 or frag_links >= 1)
    argv = case['argv']
    klass = ['scenario:' + case['scenario'], 'single-page' if model['single'] else 'multi-page',
             'codes:%d' % len({mp['code'] for mp in model['pages']})]
    for flag in ('-a', '-C', '-D', '-H', '-l', '-u', '-o', '-T', '-j', '-c', '-w'):
        if flag in argv:
            klass.append('opt:' + flag)
    if operand_links:
        klass.append('operand-links')
    if frag_links:
        klass.append('macro-fragment-links')
    for k in case.get('stats', {}):
        klass.append('text:' + k)
    for k in known:
        klass.append('shows-known:' + k)
    key = (sorted(case['files'].items()), argv, case['scenario'], case.get('write'), case.get('rerun_argv'))
    rec.case(repr(key), nt, klass, {'argv': argv, 'scenario': case['scenario'], 'write': case.get('write'),
                                   'files': sorted(case['files']), 'entries': n_entries, 'html_files': sum(1 for v in tree.values() if v),
                                   'operand_links': operand_links, 'macro_fragment_links': frag_links,
                                   'skool_head': case['files'][case['skool']][:300]})


SKOOL_LINE = re.compile(r'^([bcgistuw* ])(\$[0-9A-Fa-f]{4}|\d{5}) ')


def model_from_skool(skool, code='main', kind='d', single=False, cdir='asm', single_path='asm.html'):
    """Entries and instruction addresses read from skool file text (default paths and formats)."""
    entries = []
    for line in skool.split('\n'):
        m = SKOOL_LINE.match(line + ' ')
        if not m:
            continue
        a = int(m.group(2)[1:], 16) if m.group(2)[0] == '$' else int(m.group(2))
        if m.group(1) in 'bcgistuw':
            entries.append([m.group(1), a, [a]])
        elif entries:
            entries[-1][2].append(a)
    live = [e for e in entries if e[0] != 'i']
    if single:
        return [{'kind': kind, 'code': code, 'file': single_path, 'single': True, 'entries': [str(e[1]) for e in live],
                 'ids': [str(a) for e in live for a in e[2]], 'entry_addrs': [e[1] for e in live],
                 'addrs': [a for e in live for a in e[2]]}]
    return [{'kind': kind, 'code': code, 'file': pjoin(cdir, '%d.html' % e[1]), 'single': False, 'entries': [str(e[1])],
             'ids': [str(a) for a in e[2]], 'entry_addrs': [e[1]], 'addrs': list(e[2])} for e in live]


EXAMPLE_ARGV = [[], ['-1'], ['-H', '-a', '-C'], ['-l', '-D'], ['-a', '-1', '-u'], ['-w', 'dmi'], ['-w', 'P', '-o']]


def example_cases():
    """The shipped Hungry Horace example: its control file applied to a blank 48K image (the game itself is not
    available offline), its ref file unchanged; default paths, several command lines."""
    import skoolkit
    exdir = os.path.join(os.path.dirname(os.path.dirname(os.path.abspath(skoolkit.__file__))), 'examples')
    ctl = os.path.join(exdir, 'hungry_horace.ctl')
    reff = os.path.join(exdir, 'hungry_horace.ref')
    if not (os.path.isfile(ctl) and os.path.isfile(reff)):
        return []
    with cli.Scratch('c16x-') as s:
        s.write('blank.bin', bytes(49152))
        r = cli.run('sna2skool', ['-o', 16384, '-c', ctl, 'blank.bin'])
        if r.exc is not None or not r.ok:
            raise RuntimeError('sna2skool failed on the Hungry Horace control file: %r %s' % (r.exc, r.err[-300:]))
        skool = r.out
    with open(reff) as f:
        ref = f.read()
    out = []
    for argv in EXAMPLE_ARGV:
        single = '-1' in argv
        case = {'files': {'hungry_horace.skool': skool, 'hungry_horace.ref': ref}, 'skool': 'hungry_horace.skool',
                'argv': [a for a in argv if a not in ('-w', 'dmi', 'P')], 'scenario': 'full',
                'model': {'single': single, 'pages': model_from_skool(skool, single=single),
                          'maps': ['maps/all.html', 'maps/routines.html', 'maps/data.html', 'maps/messages.html', 'maps/unused.html']}}
        if '-w' in argv:
            case['scenario'] = 'subset'
            case['write'] = argv[argv.index('-w') + 1]
        out.append(case)
    return out


def plan(tier, seed):
    n = 4000 if tier == 'quick' else 48000
    nsh = 16 if tier == 'quick' else 64
    shards = [{'kind': 'hyp', 'tier': tier, 'n': n // nsh, 'seed': shard_seed(seed, PROPERTY, i)} for i in range(nsh)]
    if tier != 'quick':
        shards.insert(0, {'kind': 'example'})
    return shards


def run_shard(shard, rec):
    if shard['kind'] == 'example':
        cases_ = example_cases()
        if not cases_:
            rec.note('example-not-available')
        for case in cases_:
            try:
                oracle(case, rec)
            except Violation as v:
                rec.violation(v)
        return
    # a broken tree makes almost every case fail: bound the time spent shrinking and enumerating buckets per shard
    hyp_run(rec, CASES, lambda c: oracle(c, rec), shard['n'], shard['seed'], max_buckets=3, shrink_budget_s=25.0)


def replay(case):
    oracle(case)


def known_class(sig, case):
    # F15: single-page mode; the asm_single_page template gives the entry header <div id="ADDR" class="description"> and the
    #      entry's first instruction <span id="ADDR"> the same id. Only that pair, only in the single disassembly page.
    # F28: the asm templates give a mid-block (or start) comment row <span id="ADDR"> and the instruction below it
    #      <span id="ADDR"> the same id. Only that pair.
    # F41: #LINK(map#address): the address is converted to the AddressAnchor format only for main memory maps looked up in
    #      the current writer's own entries.
    # F42: single-page mode; an operand that addresses an @remote entry is linked to "#ADDR" of the current page although
    #      the entry is on the other disassembly's page.
    # F43-F46 abort the run (no tree to judge); see AVOID. All of F41-F46 are avoided by construction while AVOID[id] is set;
    # the signatures are recognised so that the reproducers in corpus/C16 replay as known findings.
    if sig in KNOWN_SIGS:
        return KNOWN_SIGS[sig]
    if not isinstance(case, dict) or 'files' not in case:
        return None
    texts = '\n'.join(case['files'].values())
    argv = case.get('argv', [])
    if sig == 'skool2html:FileNotFoundError@skool2html.py:copy_resources' and '-j' in argv and 'StyleSheetPath=' in texts:
        return 'F43'
    if sig == 'skool2html:ValueError@skoolhtml.py:expand_link' and re.search(r'#LINK\([^)]*#[^)]*\)\(\)', texts):
        return 'F44'
    if (sig.startswith('skool2html-error:Error while parsing #LINK macro: Unknown page ID') or sig == 'skool2html:KeyError@skoolhtml.py:expand_link') \
            and '[OtherCode:' in texts and '[MemoryMap:' in texts:
        return 'F45'
    if sig.startswith('skool2html-error:Error while parsing #R macro: Address not found') and re.search(r'#R[^@\s]*@main', case['files'].get(case.get('skool'), '')):
        return 'F46'
    return None


MANIFEST_ENTRY = {
    'technique': 'validity-predicate oracle (html.parser link/anchor scan of the written directory tree) over Hypothesis-generated skool+ref projects and skool2html command lines',
    'level_text': 'For each generated project the real skool2html.main is run in a scratch directory; every relative href/src of every written HTML file must name a written or copied file and an existing id, ids must be unique per file, every entry and instruction of every disassembly must have its anchor on the page where the documentation places it, operand links and target-tagged #R/#LINK links must land on the anchor of their target, and the "Writing" lines must match the tree without repeats; -w subsets and second runs into the same directory are checked as well.',
    'level_note': 'Sampled inputs: 1-3 disassemblies of 1-6 small entries (thorough: plus the shipped Hungry Horace example over a blank image). Generated #R/#LINK targets are restricted to what the documentation allows (existing instruction addresses, declared @remote addresses, anchors that evaluate to the entry address or spell an existing id). Known classes F15/F28 (duplicate ids produced by the stock templates) are counted and excluded; F41 and F45 are avoided by construction (flags in AVOID); F42-F44 and F46 are repaired in /repo and searched again.',
}
