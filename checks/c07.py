"""C07 - all instruction tables agree on length, mnemonic and timing of every opcode.

Complete enumeration of the opcode space: every first/second/fourth opcode byte
under every prefix, four operand fillings, every additional-opcode setting, at
0x8000, at the four addresses next to the 64K boundary (Wrap 0/1) and at 0x0000.
Observers: skool disassembler (disassembler.py), trace disassembler
(traceutils), sna2ctl decoder (opcodes.decode), z80.get_timing, the four
simulators, and the reference interpreter ref/z80ref as independent witness.
"""
import re

from vlib.runner import Violation, crash_sig
from vlib import simdrv
from ref import z80ref

PROPERTY = 'C07'
RULE = ('Exhaustive enumeration: (prefix group, opcode byte, operand filling, address) for all 7 prefix groups x 256 '
        'opcode bytes x 2 operand fillings x addresses {0x8000, 0xFFFC..0xFFFF}; each case is checked under all 10 '
        'additional-opcode settings and Wrap 0/1 and on all four simulators from three CPU states. Every case is '
        'non-trivial (each is a distinct table slot/config); distinct = number of (group, opcode, filling, address) tuples.')
ASSUMPTIONS = [
    'ref/z80ref.py (written from the Zilog manual) is used as tie-breaker for length and T-states',
    'a DD/FD prefix followed by an opcode it does not alter counts as a 1-byte instruction (the convention of both simulators and both disassemblers)',
]

OPCODE_CFGS = ('', 'ALL', 'ED63', 'ED6B', 'ED70', 'ED71', 'IM', 'NEG', 'RETN', 'XYCB')
GROUPS = ('main', 'CB', 'ED', 'DD', 'FD', 'DDCB', 'FDCB')
FILLS = ((0x12, 0x34, 0x56), (0xFB, 0x80, 0xC9), (0x80, 0x7F, 0xFF), (0x7F, 0x81, 0x00))      # incl. the extreme displacements -128 and +127
ADDRS = (0x8000, 0xFFFC, 0xFFFD, 0xFFFE, 0xFFFF, 0x0000)

# three CPU states that between them take both outcomes of every conditional /
# repeating instruction
STATES = (
    dict(f=0x00, b=2, c=2),
    dict(f=0xFF, b=0, c=1),
    dict(f=0xFF, b=1, c=0),
)
BASE = dict(a=1, d=0xA0, e=0x00, h=0x90, l=0x00, ixh=0xB0, ixl=0x00, iyh=0xC0, iyl=0x40, sp=0xF000,
            i=0x3F, r=0, iff=0, im=1, halted=0, t=0)


def seq_for(group, op, fill):
    f0, f1, f2 = fill
    if group == 'main':
        return (op, f0, f1, f2)
    if group in ('CB', 'ED'):
        return ({'CB': 0xCB, 'ED': 0xED}[group], op, f0, f1)
    if group in ('DD', 'FD'):
        return ({'DD': 0xDD, 'FD': 0xFD}[group], op, f0, f1)
    return ({'DDCB': 0xDD, 'FDCB': 0xFD}[group], 0xCB, f0, op)


def plan(tier, seed):
    shards = []
    for g in GROUPS:
        for half in (0, 1):
            shards.append({'group': g, 'ops': [half * 128, half * 128 + 128]})
    shards.append({'cli': True})
    return shards


class _Env:
    def __init__(self):
        from skoolkit.snaskool import DisassemblerConfig, Instruction
        from skoolkit.disassembler import Disassembler
        self.snap = [0] * 65536
        self.dis = {}
        for cfg in OPCODE_CFGS:
            for wrap in (0, 1):
                self.dis[cfg, wrap] = Disassembler(self.snap, DisassemblerConfig(True, False, 8, 65, 1, 0, Instruction, cfg, wrap))
        self.sims = {impl: simdrv.make48(impl) for impl in simdrv.IMPLS}


_env = None


def env():
    global _env
    if _env is None:
        _env = _Env()
    return _env


def _norm(op):
    return re.sub(r'\s+', ' ', op.strip().upper())


def check_case(case):
    """case: {'seq': [4 bytes], 'addr': int}. Raises Violation."""
    from skoolkit import traceutils, opcodes, z80
    e = env()
    seq = case['seq']
    a = case['addr']
    snap = e.snap
    addrs = [(a + k) & 0xFFFF for k in range(4)]
    for k, b in zip(addrs, seq):
        snap[k] = b
    try:
        _check(e, seq, a, snap, traceutils, opcodes, z80, case)
    finally:
        for k in addrs:
            snap[k] = 0


def _fail(sig, msg, case):
    import os
    if os.environ.get('VERIF_ALLSIGS'):
        sig += ':' + ' '.join('%02X' % b for b in case['seq']) + '@%04X' % case['addr']
    raise Violation(sig, msg, case)


def _check(e, seq, a, snap, traceutils, opcodes, z80, case):
    hx = ' '.join('%02X' % b for b in seq)
    # --- reference ---------------------------------------------------------
    refs = []
    mem = bytearray(65536)
    for k, b in enumerate(seq):
        mem[(a + k) & 0xFFFF] = b
    for st in STATES:
        m = bytearray(mem)
        z = simdrv.ref_from_state(dict(BASE, pc=a, **st), m)
        z.rom_limit = 0x4000
        s = z.step()
        refs.append((s, z))
    L = refs[0][0].length
    ref_ts = {s.t for s, _ in refs}

    # --- trace disassembler ------------------------------------------------
    try:
        top, tlen = traceutils.disassemble(snap, a, '$', '02X', '04X')
    except Exception as x:
        _fail(crash_sig(x, 'traceutils'), 'traceutils.disassemble raised %r for %s at %d' % (x, hx, a), case)
    if tlen != L:
        _fail('len:traceutils', '%s at $%04X: traceutils length %d (%s), reference %d' % (hx, a, tlen, top, L), case)

    # --- skool disassembler, every config ------------------------------------
    crossing = a + L > 65536
    # documented: a relative jump across the 64K boundary is disassembled as a DEFB statement
    rname = refs[0][0].name
    jr_cross = False
    if rname in ('JR', 'JR cc', 'DJNZ'):
        off = seq[1]
        target = a + 2 + off if off < 128 else a + off - 254
        jr_cross = not 0 <= target < 65536
    expect_def = jr_cross or rname in ('prefix', 'ED NOP')
    for (cfg, wrap), d in e.dis.items():
        try:
            ins = d.disassemble(a, a + 1, 'n')[0]
        except Exception as x:
            _fail(crash_sig(x, 'disassembler'), 'Disassembler(Opcodes=%r,Wrap=%d) raised %r for %s at %d' % (cfg, wrap, x, hx, a), case)
        dlen = len(ins.bytes)
        is_def = ins.operation.upper().startswith('DEF')
        if (crossing and not wrap) or is_def:  # a DEFB statement never wraps: it is clipped at 64K
            want = min(L, 65536 - a)
        else:
            want = L
        if dlen != want:
            _fail('len:disassembler', '%s at $%04X Opcodes=%r Wrap=%d: disassembler length %d (%s), expected %d' % (hx, a, cfg, wrap, dlen, ins.operation, want), case)
        if list(ins.bytes) != [snap[(a + k) & 0xFFFF] for k in range(dlen)]:
            _fail('bytes:disassembler', '%s at $%04X: instruction.bytes %r do not match memory' % (hx, a, ins.bytes), case)
        # timing table
        try:
            tm = z80.get_timing(ins)
        except Exception as x:
            _fail('timing-lookup:%s' % type(x).__name__, 'get_timing raised %r for %r (%s) Opcodes=%r' % (x, ins.operation, hx, cfg), case)
        if is_def:
            if tm is not None:
                _fail('timing:def', 'get_timing(%r) = %r for a DEFB statement' % (ins.operation, tm), case)
        else:
            if tm is None:
                _fail('timing:none', 'get_timing(%r) is None (%s)' % (ins.operation, hx), case)
            tms = set(tm) if isinstance(tm, tuple) else {tm}
            if not (crossing and not wrap) and tms != ref_ts:
                _fail('timing:value', '%s %r Opcodes=%r: timing table %r, reference/simulator T-states %r' % (hx, ins.operation, cfg, tm, sorted(ref_ts)), case)
        # mnemonic agreement with the trace disassembler
        if cfg == 'ALL' and wrap:
            if is_def != expect_def:
                _fail('mnemonic:defb', '%s at $%04X Opcodes=ALL: disassembler emits %r, reference decodes %s' % (hx, a, ins.operation, rname), case)
            if not jr_cross and not (is_def and crossing) and _norm(ins.operation) != _norm(top):
                _fail('mnemonic', '%s at $%04X: disassembler %r vs traceutils %r' % (hx, a, ins.operation, top), case)

    # --- control-file generator's decoder -----------------------------------
    try:
        dec = next(opcodes.decode(snap, a, a + 1))
    except Exception as x:
        _fail(crash_sig(x, 'opcodes'), 'opcodes.decode raised %r for %s at %d' % (x, hx, a), case)
    want = min(L, 65536 - a)
    if dec[1] != want:
        sig = 'len:opcodes.decode'
        if seq[0] in (0xDD, 0xFD) and L == 1 and dec[1] == 2:
            sig = 'len:opcodes.decode:lone-prefix'
        _fail(sig, '%s at $%04X: opcodes.decode size %d (%s), expected %d' % (hx, a, dec[1], dec[4], want), case)

    # --- simulators ----------------------------------------------------------
    for impl, (sim, regs, smem) in e.sims.items():
        for k, b in enumerate(seq):
            smem[(a + k) & 0xFFFF] = b
        try:
            for st, (s, z) in zip(STATES, refs):
                simdrv.set_regs(regs, dict(BASE, pc=(a + 0x1235) & 0xFFFF, **st))      # run(start) must set PC itself, also for start=0
                for r in range(16, 24):
                    regs[r] = 0
                regs[simdrv.MEMPTR] = 0
                # data cells the instruction may have written in a previous state
                for w, _ in s.writes:
                    smem[w] = 0 if w not in [(a + k) & 0xFFFF for k in range(4)] else seq[((w - a) & 0xFFFF)]
                try:
                    sim.run(a)
                except Exception as x:
                    _fail(crash_sig(x, 'sim-' + impl), '%s simulator raised %r for %s' % (impl, x, hx), case)
                pc, t = int(regs[simdrv.PC]), int(regs[simdrv.T])
                if pc != z.pc:
                    _fail('len:sim-' + impl, '%s at $%04X state %r: %s simulator PC=%d, reference PC=%d (length %d)' % (hx, a, st, impl, pc, z.pc, L), case)
                if t != s.t:
                    _fail('tstates:sim-' + impl, '%s at $%04X state %r: %s simulator took %d T-states, reference %d' % (hx, a, st, impl, t, s.t), case)
                for w, _ in s.writes:
                    smem[w] = 0
        finally:
            for k in range(4):
                smem[(a + k) & 0xFFFF] = 0


def run_shard(shard, rec):
    if shard.get('cli'):
        return run_cli(rec)
    g = shard['group']
    lo, hi = shard['ops']
    n = 0
    for op in range(lo, hi):
        if g == 'main' and op in (0xCB, 0xED, 0xDD, 0xFD):
            continue
        if g in ('DD', 'FD') and op == 0xCB:
            continue
        for fi, fill in enumerate(FILLS):
            seq = seq_for(g, op, fill)
            for a in ADDRS:
                case = {'seq': list(seq), 'addr': a}
                try:
                    check_case(case)
                except Violation as v:
                    rec.violation(v)
                n += 1
                if (op % 64 == 5 and a == 0x8000 and fi == 0) or (op % 128 == 33 and a == 0xFFFE and fi == 1):
                    rec.sample(g, {'group': g, 'seq': ' '.join('%02X' % b for b in seq), 'addr': a})
    rec.bulk(n, n, g)
    rec.exhaustive = True


def run_cli(rec):
    """sna2skool -I Opcodes=... -I Timings=1 and #TSTATES over every opcode sequence: no lookup may fail."""
    import os, tempfile, io, contextlib
    from skoolkit import sna2skool, skool2asm, components
    tmp = tempfile.mkdtemp(prefix='c07-')
    n = 0
    rec.exhaustive = True      # all 10 Opcodes settings over all 1784 opcode sequences
    try:
        data = bytearray()
        for g in GROUPS:
            for op in range(256):
                if g == 'main' and op in (0xCB, 0xED, 0xDD, 0xFD):
                    continue
                if g in ('DD', 'FD') and op == 0xCB:
                    continue
                data += bytes(seq_for(g, op, FILLS[0])) + bytes(4)
        binf = os.path.join(tmp, 'all.bin')
        with open(binf, 'wb') as f:
            f.write(data)
        org = 32768
        for cfg in OPCODE_CFGS:
            out, err = io.StringIO(), io.StringIO()
            argv = ['-o', str(org), '-I', 'Timings=1', '-I', 'Opcodes=' + cfg, binf]
            try:
                with contextlib.redirect_stdout(out), contextlib.redirect_stderr(err):
                    sna2skool.main(argv)
            except SystemExit as x:
                if x.code not in (0, None):
                    rec.violation(Violation('cli:sna2skool-exit', 'sna2skool %s exited %r: %s' % (argv, x.code, err.getvalue()[-300:]), {'cli': 'sna2skool', 'opcodes': cfg}))
                    continue
            except Exception as x:
                rec.violation(Violation('timing-lookup:%s' % type(x).__name__, 'sna2skool -I Timings=1 -I Opcodes=%s raised %r' % (cfg, x), {'cli': 'sna2skool', 'opcodes': cfg}))
                continue
            n += 1
            skool = out.getvalue()
            # #TSTATES over every instruction of that skool file
            addrs = [int(l[1:6]) for l in skool.split('\n') if l[:1] in ('c', '*', ' ') and l[1:6].isdigit() and not l[7:11].upper().startswith('DEF')]
            if len(addrs) < 1700:
                raise RuntimeError('C07 harness: only %d instruction lines found in the sna2skool output' % len(addrs))
            lines = skool.split('\n')
            probe = '; T\n;\n; ' + ' '.join('#TSTATES%d' % x for x in addrs) + '\n'
            # place the probe as the description of the first entry
            idx = next(i for i, l in enumerate(lines) if l[:1] in 'cb' and l[1:6].isdigit())
            # find start of that entry's header
            h = idx
            while h > 0 and lines[h - 1].startswith(';'):
                h -= 1
            lines[h:idx] = probe.rstrip('\n').split('\n')
            sk = os.path.join(tmp, 'x.skool')
            with open(sk, 'w') as f:
                f.write('\n'.join(lines))
            out2, err2 = io.StringIO(), io.StringIO()
            try:
                with contextlib.redirect_stdout(out2), contextlib.redirect_stderr(err2):
                    skool2asm.main([sk])
            except SystemExit as x:
                if x.code not in (0, None):
                    rec.violation(Violation('cli:tstates-exit', '#TSTATES over Opcodes=%s skool: %s' % (cfg, err2.getvalue()[-300:]), {'cli': 'skool2asm', 'opcodes': cfg}))
                    continue
            except Exception as x:
                rec.violation(Violation('timing-lookup:%s' % type(x).__name__, '#TSTATES (skool2asm) on Opcodes=%s skool raised %r' % (cfg, x), {'cli': 'skool2asm', 'opcodes': cfg}))
                continue
            n += 1
            rec.case(('cli', cfg), True, 'cli', {'cli': 'sna2skool -I Timings=1 -I Opcodes=%s | #TSTATES x %d' % (cfg, len(addrs))})
    finally:
        import shutil
        shutil.rmtree(tmp, True)


def replay(case):
    if 'cli' in case:
        from vlib.runner import Recorder
        rec = Recorder()
        run_cli(rec)
        for f in rec.failures.values():
            if f['case'].get('opcodes') == case.get('opcodes') and f['case'].get('cli') == case.get('cli'):
                raise Violation(f['sig'], f['msg'], f['case'])
        return
    check_case(case)


def known_class(sig, case):
    return None


MANIFEST_ENTRY = {
    'technique': 'exhaustive enumeration of the opcode space with pairwise differential oracles (3 decoders, timing table, 4 simulators) and an independent reference interpreter',
    'level_text': 'Complete enumeration of all 1792 opcode slots x 2 operand fillings x 5 addresses (incl. the 64K boundary) x 10 additional-opcode settings x Wrap 0/1: lengths, mnemonics, timing-table entries and simulator PC/T deltas are compared pairwise and against ref/z80ref; the space is finite and covered completely, so exploration is exhaustive for table contents.',
    'level_note': 'Trusted: ref/z80ref.py (self-tested against Zilog-manual values by setup.sh). Operand bytes are sampled with four fillings incl. the extreme displacements (operand values do not select table slots).',
}
