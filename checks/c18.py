"""C18 - annotations and instructions survive conversion intact; line width is respected.

Token-stream oracle: every word of every title, description, register
description, start/mid-block/end comment and instruction comment of a generated
skool file must appear, in order and exactly once, in the corresponding place of
(A) skool2asm's output, (B) the entry page skool2html writes; and the same for
(C) the skool file sna2skool writes from a generated control file. Every
instruction is listed exactly once with its operation (and address where shown),
attached to the same comment. Width: no emitted line exceeds the configured
width unless it contains an unbreakable word (or instruction) that cannot fit -
and then skool2asm must warn.
"""
import html as htmllib
import re
from html.parser import HTMLParser

from hypothesis import strategies as st

from vlib.runner import Violation, hyp_run, shard_seed, crash_sig
from vlib import cli, gen_skool

PROPERTY = 'C18'
RULE = ('Hypothesis draws skool files (1-3 entries; title, 0-3 description paragraphs, register lines with prefixes, start '
        'comment, instructions with single comments, continuation lines, brace groups of 2-5 instructions, mid-block and end '
        'comments; words of length 1-150 with punctuation, braces inside words) and writer settings (line-width 40-200, '
        'instruction-width, comment-width-min, indent, tab, crlf); annotated control files for sna2skool with -w 40-200; and '
        'entries whose description or mid-block comment holds a #TABLE block (1-4 columns, :w columns, header and colspan rows) '
        'and a #LIST block. Non-trivial: at least one comment was wrapped onto >= 2 output lines and there is a group of >= 2 '
        'instructions (tables: a cell was wrapped or the table exceeds the width); '
        'distinct = digest of (file, settings).')
ASSUMPTIONS = [
    'annotation text is macro-free (macro expansion is C17\'s subject) apart from the generated #TABLE/#LIST blocks; no word consists only of dots; braces are balanced and never the first or last character of a comment (except instruction comments in control files, where sna2skool is documented to pad them)',
    'tables: the width predicate is judged only when no word of a :w column is longer than wrap-column-width-min (the greedy width allocation of TableWriter is not required to find a fit otherwise); needless wrapping is not judged',
    'register names are written without delimiters (a delimited name is documented to lose its delimiters)',
    'HTML output is compared after unescaping entities; only white space may differ',
]

LETTERS = 'abcdefghijklmnopqrstuvwxyzABCDEFGHIJKLMNOPQRSTUVWXYZ0123456789'
PUNCT = ['.', ',', ';', ':', '!', '?', '-', '(', ')', "'", '"', '/', '+', '=', '*', '<', '>', '&', '%', '_', '|', '~']
WORD = st.one_of(
    st.sampled_from(['a', 'the', 'of', 'HL', 'A', 'x.', 'e.g.', 'i.e.', 'qux;', 'a;b', '"q"', '(IX+2)', '65535', 'a{b}c', 'x{y{z}}w', '<b>', 'R&D', '1<2', 'x>y', '-', ';',
                     '...and', '.5', '..x']),
    st.text(LETTERS, min_size=1, max_size=12),
    st.text(LETTERS, min_size=1, max_size=12),
    st.builds(lambda a, p, b: a + p + b, st.text(LETTERS, min_size=1, max_size=6), st.sampled_from(PUNCT), st.text(LETTERS, min_size=0, max_size=6)),
    st.integers(20, 150).map(lambda n: ('longword' * 20)[:n]),
)


def _ok_edge(w):
    return w[0] not in '{}#@.*' and w[-1] not in '{}' and not set(w) <= {'.'}


TEXT = st.lists(WORD, min_size=1, max_size=30).filter(lambda ws: _ok_edge(ws[0]) and _ok_edge(ws[-1]) and all(not set(w) <= {'.'} and '#' not in w for w in ws))
OPS = ['NOP', 'XOR A', 'LD A,1', 'LD HL,16384', 'INC HL', 'RET', 'LD (HL),A', 'DEFB 1,2,3', 'DEFM "hi"', 'JP 32768', 'LD (IX+2),255', 'DEFW 1,2', 'ADD A,(HL)', 'DEFS 8']
REGS = ['A', 'B', 'HL', 'DE', 'BC', 'IX']


def _lay(draw, words, maxw=70):
    """Lay words out on source lines of varying width."""
    lines = []
    cur = []
    w = draw(st.integers(20, maxw))
    for x in words:
        if cur and len(' '.join(cur + [x])) > w:
            lines.append(' '.join(cur))
            cur = []
            w = draw(st.integers(20, maxw))
        cur.append(x)
    if cur:
        lines.append(' '.join(cur))
    return lines


@st.composite
def skool_files(draw):
    nent = draw(st.integers(1, 3))
    lines = ['@start', '@org']
    model = []          # expected structure
    addr = 32768
    for e in range(nent):
        ent = {'addr': addr, 'title': draw(TEXT), 'desc': [], 'regs': [], 'start': [], 'items': [], 'end': []}
        for l in _lay(draw, ent['title']):
            lines.append('; ' + l)
        ent['desc'] = draw(st.lists(TEXT, max_size=3))
        has_regs = draw(st.booleans())
        has_start = draw(st.integers(0, 3)) == 0
        if ent['desc'] or has_regs or has_start:
            lines.append(';')
            if not ent['desc']:
                lines.append('; .')        # a blank description is written as a dot
            for k, para in enumerate(ent['desc']):
                if k:
                    lines.append('; .')
                for l in _lay(draw, para):
                    lines.append('; ' + l)
        if has_regs or has_start:
            lines.append(';')
            if not has_regs:
                lines.append('; .')        # a blank register section is written as a dot
            if has_regs:
                for _ in range(draw(st.integers(1, 3))):
                    pre = draw(st.sampled_from(['', '', 'I:', 'O:', 'Input:', 'Output:']))
                    name = draw(st.sampled_from(REGS))
                    text = draw(TEXT)
                    ent['regs'].append((pre, name, text))
                    lines_r = _lay(draw, text, 50)
                    lines.append('; %s%s %s' % (pre, name, lines_r[0]))
                    for l in lines_r[1:]:
                        lines.append('; . %s' % l)
        if has_start:
            lines.append(';')
            ent['start'] = [draw(TEXT)]
            for l in _lay(draw, ent['start'][0]):
                lines.append('; ' + l)
        ninst = draw(st.integers(1, 8))
        i = 0
        first = True
        while i < ninst:
            mid = None
            if not first and draw(st.integers(0, 5)) == 0:
                mid = draw(TEXT)
                for l in _lay(draw, mid):
                    lines.append('; ' + l)
            kind = draw(st.sampled_from(['single', 'single', 'single', 'group', 'none', 'cont']))
            ctl = 'c' if first else ' '
            first = False
            if kind == 'group' and ninst - i >= 2:
                g = draw(st.integers(2, min(5, ninst - i)))
                text = draw(TEXT)
                ops = [draw(st.sampled_from(OPS)) for _ in range(g)]
                cl = _lay(draw, text, 40)
                # distribute comment lines over the group's rows (extra lines after the last row)
                rows = []
                for k in range(g):
                    c = cl[k] if k < len(cl) else ''
                    if k == 0:
                        c = '{' + c
                    rows.append(c)
                extra = cl[g:]
                for k in range(g):
                    last = k == g - 1 and not extra
                    lines.append('%s%05d %-13s ; %s%s' % (ctl if k == 0 else ' ', addr, ops[k], rows[k], '}' if last else ''))
                    addr += _size(ops[k])
                for k, x in enumerate(extra):
                    lines.append('                    ; %s%s' % (x, '}' if k == len(extra) - 1 else ''))
                ent['items'].append({'mid': mid, 'ops': ops, 'comment': text})
                i += g
            else:
                op = draw(st.sampled_from(OPS))
                if kind == 'none':
                    text = []
                    lines.append('%s%05d %s' % (ctl, addr, op))
                else:
                    text = draw(TEXT)
                    cl = _lay(draw, text, 40) if kind == 'cont' else [' '.join(text)]
                    lines.append('%s%05d %-13s ; %s' % (ctl, addr, op, cl[0]))
                    for x in cl[1:]:
                        lines.append('                    ; %s' % x)
                addr += _size(op)
                ent['items'].append({'mid': mid, 'ops': [op], 'comment': text})
                i += 1
        if draw(st.integers(0, 3)) == 0:
            ent['end'] = [draw(TEXT)]
            for l in _lay(draw, ent['end'][0]):
                lines.append('; ' + l)
        lines.append('')
        model.append(ent)
    return '\n'.join(lines), model


def _size(op):
    return {'NOP': 1, 'XOR A': 1, 'LD A,1': 2, 'LD HL,16384': 3, 'INC HL': 1, 'RET': 1, 'LD (HL),A': 1, 'DEFB 1,2,3': 3, 'DEFM "hi"': 2, 'JP 32768': 3,
            'LD (IX+2),255': 4, 'DEFW 1,2': 4, 'ADD A,(HL)': 1, 'DEFS 8': 8}[op]


@st.composite
def asm_cases(draw):
    # drawn first: Hypothesis often completes a large example with minimal choices, which made a '== 0' gate drawn
    # after the file fire in half of the cases (and tab=1 switches the width oracle off)
    tab, crlf = draw(st.sampled_from([0, 0, 0, 0, 0, 1])), draw(st.sampled_from([0, 0, 0, 0, 0, 1]))
    kind = draw(st.sampled_from(['asm', 'asm', 'html']))
    skool, model = draw(skool_files())
    props = {'line-width': draw(st.sampled_from([79, 79, 40, 50, 120, 200]) | st.integers(40, 200))}
    if draw(st.integers(0, 3)) == 0:
        props['comment-width-min'] = draw(st.sampled_from([10, 5, 30]))
    if draw(st.integers(0, 3)) == 0:
        props['indent'] = draw(st.sampled_from([0, 2, 4, 8]))
    if draw(st.booleans()):
        # the fields must fit the line: indent + instruction-width + ' ; ' + comment-width-min <= line-width
        room = props['line-width'] - props.get('indent', 2) - 3 - props.get('comment-width-min', 10)
        ok = [w for w in (23, 10, 30, 40) if w <= room]
        if ok:
            props['instruction-width'] = draw(st.sampled_from(ok))
    if 'instruction-width' not in props and props['line-width'] - props.get('indent', 2) - 3 - props.get('comment-width-min', 10) < 23:
        # settings that cannot be honoured together are not generated
        props.pop('comment-width-min', None)
        props['instruction-width'] = max(8, props['line-width'] - props.get('indent', 2) - 3 - 10)
    if tab:
        props['tab'] = 1
    if crlf:
        props['crlf'] = 1
    return {'kind': kind, 'skool': skool, 'model': model, 'props': props}


def words(text):
    return text.split()


def expected_stream(model, with_regs=True):
    out = []
    for ent in model:
        out += ent['title']
        for p in ent['desc']:
            out += p
        if with_regs:
            for pre, name, text in ent['regs']:
                out += [pre + name] + list(text)
        for p in ent['start']:
            out += p
        for it in ent['items']:
            if it['mid']:
                out += it['mid']
            out += list(it['comment'])
        for p in ent['end']:
            out += p
    return out


# --------------------------------------------------------------------------- A: skool2asm
def asm_oracle(case, rec=None):
    model = case['model']
    props = case['props']
    with cli.Scratch('c18-') as s:
        argv = ['-q']
        for k, v in props.items():
            argv += ['-P', '%s=%s' % (k, v)]
        r = cli.run('skool2asm', argv + [s.write('in.skool', case['skool'])])
    if r.exc is not None:
        raise Violation(crash_sig(r.exc, 'skool2asm'), 'skool2asm raised %r' % r.exc, case)
    if not r.ok:
        raise Violation('skool2asm-exit', 'skool2asm exited %r: %s' % (r.code, r.err[-200:]), case)
    out = r.out
    if props.get('crlf'):
        if '\r\n' not in out or re.search(r'[^\r]\n', out):
            raise Violation('crlf', 'crlf=1 but lines are not all terminated by CR LF', case)
        out = out.replace('\r\n', '\n')
    lines = out.split('\n')
    width = props['line-width']
    indent = '\t' if props.get('tab') else ' ' * props.get('indent', 2)
    # --- parse -----------------------------------------------------------------
    stream = []         # comment words in order
    ops = []            # (operation, first comment word on that line or None)
    for l in lines:
        if not l.strip() or l.strip().upper().startswith('ORG '):
            continue
        if l.startswith(';'):
            stream += words(l[1:])
            continue
        body = l[len(indent):] if l.startswith(indent) else l.lstrip()
        if body.startswith(';'):
            stream += words(body[1:])
            continue
        m = re.match(r'^(.*?)\s+; ?(.*)$', body) if ' ;' in body else None
        if l[:1] not in ' \t' and not m and indent:
            continue    # label
        if m and not _in_quotes(body, m.start(2) - 1):
            op, ctext = m.group(1).strip(), m.group(2)
        else:
            op, ctext = body.strip(), ''
        if op:
            cw = words(ctext)
            ops.append((op, cw[0] if cw else None))
        stream += words(ctext)
    exp = expected_stream(model)
    # register lines: "; prefix reg text" may be re-spaced: compare after joining
    got = [w for w in stream]
    if _norm(got) != _norm(exp):
        d = _first_diff(_norm(got), _norm(exp))
        raise Violation('asm:words', 'comment words differ from the source: %s' % d, _slim(case))
    exp_ops = [op for ent in model for it in ent['items'] for op in it['ops']]
    if [o for o, _ in ops] != exp_ops:
        raise Violation('asm:instructions', 'instruction list differs: got %r, expected %r' % ([o for o, _ in ops][:12], exp_ops[:12]), _slim(case))
    # attachment: the first word of each instruction comment is on the line of the (first) instruction
    k = 0
    for ent in model:
        for it in ent['items']:
            if it['comment'] and ops[k][1] != it['comment'][0]:
                raise Violation('asm:attachment', 'comment %r is not attached to %r (line has %r)' % (' '.join(it['comment'])[:40], it['ops'][0], ops[k][1]), _slim(case))
            k += len(it['ops'])
    # --- width -------------------------------------------------------------------
    warned = len(re.findall(r'Line is \d+ characters long', r.err))
    over = []
    for l in lines:
        # with tab=1 the visual width of a line is not defined by the documentation: widths are judged without tabs only
        if not props.get('tab') and len(l) > width:
            over.append(l)
    unexplained = []
    nowarn = []
    for l in over:
        # an over-width line is explained when the wrapper had no choice: its text is a single unbreakable word
        # (after the register name on a register line), or the instruction itself does not fit
        if l.startswith(';'):
            toks = l[1:].split()
            if len(toks) > 2:
                unexplained.append(l)
        else:
            # the comment field is what is left of the line after the instruction field, but never narrower than
            # comment-width-min (documented to win over line-width); only a multi-word comment wider than that is wrong
            head, sep, ctext = l.partition(' ; ')
            allowed = max(width - len(head) - 3, props.get('comment-width-min', 10))
            if len(ctext) > allowed and len(ctext.split()) > 1:
                unexplained.append(l)
    if unexplained:
        raise Violation('asm:width', 'line of %d characters exceeds line-width=%d without an unbreakable word: %r' % (len(unexplained[0]), width, unexplained[0][:100]), _slim(case))
    over_i = [l for l in over if not l.startswith(';')]
    if len(over_i) > warned:
        raise Violation('asm:no-warning:instruction', '%d instruction line(s) exceed line-width=%d but skool2asm printed %d warning(s); e.g. %r' % (
            len(over_i), width, warned, over_i[0][:80]), _slim(case))
    if len(over) > warned:
        raise Violation('asm:no-warning:' + ('non-instruction' if any(l.startswith(';') for l in over) else 'instruction'),
                        '%d line(s) exceed line-width=%d but skool2asm printed %d warning(s); e.g. %r' % (len(over), width, warned, over[0][:80]), _slim(case))
    if rec is not None:
        wrapped = len(lines) > len(case['skool'].split('\n'))
        group = any(len(it['ops']) > 1 for ent in model for it in ent['items'])
        rec.case((case['skool'], repr(sorted(props.items()))), wrapped and group, ['asm'] + (['asm:over-width'] if over else []) + (['asm:tab'] if props.get('tab') else []),
                 {'props': props, 'skool': case['skool'][:500]})


def _in_quotes(s, pos):
    return s[:pos].count('"') % 2 == 1


def _norm(ws):
    return [w for w in ws if w]


def _first_diff(a, b):
    for i in range(min(len(a), len(b))):
        if a[i] != b[i]:
            return 'at word %d: got %r, expected %r (context %r)' % (i, a[i], b[i], ' '.join(b[max(0, i - 3):i + 3]))
    return 'lengths %d vs %d; extra %r' % (len(a), len(b), (a[len(b):] or b[len(a):])[:6])


def _slim(case):
    return case


# --------------------------------------------------------------------------- B: skool2html
class _Page(HTMLParser):
    def __init__(self):
        super().__init__(convert_charrefs=True)
        self.stack = []
        self.cells = []       # (class, text)
        self.cur = None

    def handle_starttag(self, tag, attrs):
        cls = dict(attrs).get('class', '')
        self.stack.append((tag, cls))
        if tag in ('td', 'div') and cls and (cls.startswith(('comment-', 'address-', 'instruction', 'register', 'routine-comment', 'paragraph', 'description', 'details', 'comments'))):
            if cls in ('paragraph',) or cls.startswith(('comment-', 'address-', 'instruction', 'register')) or cls == 'description':
                self.cur = [cls, '']
                self.cells.append(self.cur)

    def handle_endtag(self, tag):
        while self.stack:
            t, c = self.stack.pop()
            if t == tag:
                break
        if tag in ('td', 'div'):
            self.cur = None

    def handle_data(self, data):
        if self.cur is not None:
            self.cur[1] += data


def html_oracle(case, rec=None):
    model = case['model']
    with cli.Scratch('c18h-') as s:
        skf = s.write('game.skool', case['skool'])
        r = cli.run('skool2html', ['-q', '-d', s.path('out'), skf])
        if r.exc is not None:
            raise Violation(crash_sig(r.exc, 'skool2html'), 'skool2html raised %r' % r.exc, case)
        if not r.ok:
            raise Violation('skool2html-exit', 'skool2html exited %r: %s' % (r.code, r.err[-200:]), case)
        pages = {}
        for ent in model:
            try:
                pages[ent['addr']] = s.read('out/game/asm/%d.html' % ent['addr'])
            except OSError:
                raise Violation('html:missing-page', 'no entry page for %d' % ent['addr'], case)
    for ent in model:
        p = _Page()
        p.feed(pages[ent['addr']])
        cells = p.cells
        title = [t for c, t in cells if c == 'description']
        exp_title = '%d: %s' % (ent['addr'], ' '.join(ent['title']))
        if not title or words(title[0]) != words(exp_title):
            raise Violation('html:title', 'title %r, expected %r' % (title[:1], exp_title), case)
        got_ops = [t.strip() for c, t in cells if c == 'instruction']
        exp_ops = [op for it in ent['items'] for op in it['ops']]
        if got_ops != exp_ops:
            raise Violation('html:instructions', 'entry %d lists %r, expected %r' % (ent['addr'], got_ops, exp_ops), case)
        got_addrs = [t.strip() for c, t in cells if c.startswith('address-')]
        a = ent['addr']
        exp_addrs = []
        for op in exp_ops:
            exp_addrs.append(str(a))
            a += _size(op)
        if got_addrs != exp_addrs:
            raise Violation('html:addresses', 'entry %d address cells %r, expected %r' % (ent['addr'], got_addrs, exp_addrs), case)
        # paragraphs in document order: description, start comment, mid-block comments, end comment
        paras = [words(t) for c, t in cells if c == 'paragraph']
        exp_paras = [list(x) for x in ent['desc']] + [list(x) for x in ent['start']]
        for it in ent['items']:
            if it['mid']:
                exp_paras.append(list(it['mid']))
        exp_paras += [list(x) for x in ent['end']]
        if [x for x in paras if x] != exp_paras:
            raise Violation('html:paragraphs', 'entry %d paragraphs differ: %s' % (ent['addr'], _first_diff(sum(paras, []), sum(exp_paras, []))), case)
        comments = [words(t) for c, t in cells if c.startswith('comment-')]
        exp_comments = [list(it['comment']) for it in ent['items']]
        if comments != exp_comments:
            raise Violation('html:comments', 'entry %d instruction comments differ: %s' % (ent['addr'], _first_diff(sum(comments, []), sum(exp_comments, []))), case)
        regs = [(c, words(t)) for c, t in cells if c.startswith('register')]
        names = [t for c, t in regs if c == 'register']
        descs = [t for c, t in regs if c == 'register-desc']
        # documented: a prefix beginning with 'O' = output, any other prefix = input, no prefix = same table as the
        # previous register (input if there is none)
        exp_in, exp_out = [], []
        cur = exp_in
        for pre, n, t in ent['regs']:
            if pre:
                cur = exp_out if pre.lower().startswith('o') else exp_in
            cur.append((n, list(t)))
        got = list(zip([n[0] if n else '' for n in names], descs))
        if got != exp_in + exp_out:
            raise Violation('html:registers', 'entry %d registers %r, expected %r' % (ent['addr'], got[:4], (exp_in + exp_out)[:4]), case)
    if rec is not None:
        group = any(len(it['ops']) > 1 for ent in model for it in ent['items'])
        rec.case(('html', case['skool']), group, ['html'], {'skool': case['skool'][:400]})


# --------------------------------------------------------------------------- C: sna2skool from ctl
@st.composite
def ctl_cases(draw):
    start, data = draw(gen_skool.images(120))
    o = draw(gen_skool.options(rst=False))
    o['width'] = draw(st.sampled_from([79, 40, 50, 120, 200]) | st.integers(40, 200))
    o['wrap'] = 0
    lines, info = draw(gen_skool.plans(start, data, o, allow_m=False, with_loops=False, with_ignored=False))
    lines = [l for l in lines if not l.startswith('M ')]     # an M directive would replace the sub-blocks' own comments
    out = []
    exp = []
    pending_end = None
    for line in lines:
        d = line[0]
        if d in 'bcgstuw':
            if pending_end:
                out += ['E %s' % pending_end[0] + ' ' + ' '.join(p) for p in [pending_end[1]]]
                exp_end = pending_end[1]
            addr = line[2:].split()[0]
            title = draw(TEXT)
            out.append('%s %s' % (line, ' '.join(title)))
            blk = {'title': title, 'desc': [], 'regs': [], 'start': [], 'subs': [], 'end': []}
            for p in draw(st.lists(TEXT, max_size=2)):
                out.append('D %s %s' % (addr, ' '.join(p)))
                blk['desc'].append(p)
            if draw(st.sampled_from([0, 0, 0, 0, 1])):
                # a #TABLE or #LIST block in the description: sna2skool writes one row/item per line and wraps long ones,
                # aligned under the cell text with the <wrapalign> flag (extra spaces after '{' or '|' are kept)
                flag = draw(st.sampled_from(['', '<wrapalign>', '<wrapalign>']))
                cw = st.lists(st.text(LETTERS, min_size=1, max_size=10), min_size=1, max_size=25).map(' '.join)
                pad = st.sampled_from([' ', ' ', '  ', '    '])
                if draw(st.booleans()):
                    rows = ['{%s%s |%s%s }' % (draw(pad), draw(st.text(LETTERS, min_size=1, max_size=4)), draw(pad), draw(cw)) for _ in range(draw(st.integers(1, 3)))]
                    raw = '#TABLE(default)%s %s TABLE#' % (flag, ' '.join(rows))
                else:
                    rows = ['{%s%s }' % (draw(pad), draw(cw)) for _ in range(draw(st.integers(1, 3)))]
                    raw = '#LIST%s %s LIST#' % (flag, ' '.join(rows))
                out.append('D %s %s' % (addr, raw))
                blk['desc'].append(raw.split())
            if draw(st.integers(0, 2)) == 0:
                name, text = draw(st.sampled_from(REGS)), draw(TEXT)
                out.append('R %s %s %s' % (addr, name, ' '.join(text)))
                blk['regs'].append((name, text))
            if draw(st.integers(0, 3)) == 0:
                p = draw(TEXT)
                out.append('N %s %s' % (addr, ' '.join(p)))
                blk['start'].append(p)
            if draw(st.integers(0, 3)) == 0:
                p = draw(TEXT)
                out.append('E %s %s' % (addr, ' '.join(p)))
                blk['end'].append(p)
            exp.append(blk)
            blk['first_sub'] = True
        elif d in 'BCSTW' and exp:
            addr = line[2:].split(',')[0]
            blk = exp[-1]
            mid = None
            if not blk['first_sub'] and draw(st.integers(0, 5)) == 0:
                mid = draw(TEXT)
                out.append('N %s %s' % (addr, ' '.join(mid)))
            blk['first_sub'] = False
            if draw(st.integers(0, 1)):
                c = list(draw(TEXT))
                # braces at the edges of an instruction comment: sna2skool must pad them ('{ {x} ... }', '... {y} }')
                edge = draw(st.sampled_from([0, 0, 1, 2, 3]))
                if edge & 1:
                    c.insert(0, draw(st.sampled_from(['{first}', '{a}b', '{x{y}}'])))
                if edge & 2:
                    c.append(draw(st.sampled_from(['{buffer}', 'a{b}', '{{p}q}'])))
                out.append('%s %s' % (line, ' '.join(c)))
            else:
                c = []
                out.append(line)
            blk['subs'].append((mid, c))
        else:
            out.append(line)
    for b in exp:
        b.pop('first_sub', None)
    return {'kind': 'ctl', 'start': start, 'data': bytes(data).hex(), 'opts': o, 'ctl': '\n'.join(out) + '\n', 'model': exp}


def ctl_oracle(case, rec=None):
    data = bytes.fromhex(case['data'])
    o = case['opts']
    with cli.Scratch('c18c-') as s:
        binf = s.write('in.bin', data)
        r = cli.run('sna2skool', gen_skool.sna2skool_argv(o) + ['-o', case['start'], '-I', 'ListRefs=0', '-c', s.write('in.ctl', case['ctl']), binf])
    if r.exc is not None:
        raise Violation(crash_sig(r.exc, 'sna2skool'), 'sna2skool raised %r' % r.exc, case)
    if not r.ok or r.warnings():
        if rec is not None:
            rec.note('precondition:sna2skool-warning')
        return
    stream = []
    width = o['width']
    over = []
    for l in r.out.split('\n'):
        if l.startswith('@'):
            continue
        if len(l) > width:
            over.append(l)
        if l.startswith(';'):
            ws = words(l[1:])
            if ws and ws[0] == '.':         # paragraph separator / register description continuation marker
                ws = ws[1:]
            stream += ws
        elif l[:1] in ' bcgstuw*' and ' ;' in l:
            k = _comment_pos(l)
            if k is not None:
                stream += words(l[k + 2:])
    exp = []
    for b in case['model']:
        exp += b['title']
        for p in b['desc']:
            exp += p
        for name, text in b['regs']:
            exp += [name] + list(text)
        for p in b['start']:
            exp += p
        for mid, c in b['subs']:
            if mid:
                exp += mid
            exp += list(c)
        for p in b['end']:
            exp += p
    got = [w.strip('{}') if w in ('{', '}') else w for w in stream]
    got = _strip_braces(stream)
    exp = _strip_braces(exp)        # (the row/item braces of #TABLE/#LIST blocks in descriptions go the same way)
    if got != exp:
        raise Violation('ctl:words', 'comment words in the skool file differ from the control file: %s' % _first_diff(got, exp), case)
    for l in over:
        if l.startswith(';'):
            bad = len(l[1:].split()) > 3        # '. ' marker / register name + one unbreakable word
        else:
            k = _comment_pos(l)
            head, ctext = (l, '') if k is None else (l[:k], l[k + 3:])
            allowed = max(width - len(head) - 3, 10)      # CommentWidthMin (default 10) wins over the line width
            bad = len(ctext) > allowed and len(ctext.strip('{}').split()) > 1
        if bad:
            raise Violation('ctl:width', 'sna2skool -w %d wrote a line of %d characters without an unbreakable word: %r' % (width, len(l), l[:100]), case)
    if rec is not None:
        rec.case((case['data'], case['ctl'], width), len(r.out.split('\n')) > len(case['ctl'].split('\n')) + 5, ['ctl'] + (['ctl:over-width'] if over else []),
                 {'width': width, 'ctl': case['ctl'][:400]})


def _comment_pos(line):
    """Index of the ' ;' that starts the comment field of an instruction line (a ';' inside a string is data)."""
    quoted = False
    i = 6
    while i < len(line):
        ch = line[i]
        if quoted and ch == '\\':
            i += 2
            continue
        if ch == '"':
            quoted = not quoted
        elif ch == ';' and not quoted and line[i - 1] == ' ':
            return i - 1
        i += 1
    return None


def _strip_braces(stream):
    """Remove the group braces sna2skool adds around multi-instruction comments ('{' opening the first word, '}' closing the last)."""
    out = []
    for w in stream:
        if w.startswith('{') and (len(w) == 1 or not w.startswith('{{')) and w.count('{') > w.count('}'):
            w = w[1:]
        if w.endswith('}') and w.count('}') > w.count('{'):
            w = w[:-1]
        if w:
            out.append(w)
    return out


# --------------------------------------------------------------------------- D: #TABLE / #LIST blocks (skool2asm, skool2html)
TWORD = st.one_of(
    st.sampled_from(['a', 'the', 'of', 'HL', 'x.', 'e.g.', '(IX+2)', '65535', 'R&D', '1<2', '-', ';', 'a;b']),
    st.text(LETTERS, min_size=1, max_size=12),
    st.text(LETTERS, min_size=1, max_size=12),
    st.integers(13, 45).map(lambda n: ('unbreakable' * 5)[:n]),
)
SWORD = st.one_of(st.sampled_from(['a', 'the', 'of', 'HL', 'x.', 'e.g.', '(IX+2)', '65535', 'R&D', '1<2', '-', ';', 'a;b']), st.text(LETTERS, min_size=1, max_size=8))
CELL = st.lists(TWORD, min_size=1, max_size=9)
NARROW = st.lists(SWORD, min_size=1, max_size=2)
WIDE = st.lists(SWORD, min_size=4, max_size=24)


@st.composite
def table_cases(draw):
    kind = draw(st.sampled_from(['table-asm', 'table-asm', 'table-asm', 'table-html']))
    props = {'line-width': draw(st.sampled_from([79, 79, 40, 50, 60, 120]) | st.integers(40, 200))}
    wmin = draw(st.sampled_from([None, None, 5, 20]))
    if wmin is not None:
        props['wrap-column-width-min'] = wmin
    where = draw(st.sampled_from(['desc', 'desc', 'mid']))
    ncols = draw(st.integers(1, 4))
    # column profiles: narrow columns of one or two short words, wide columns of many short words (the tables people
    # write: most can be made to fit by wrapping the wide columns), and 'any' with occasional unbreakable words
    profile = [draw(st.sampled_from(['narrow', 'wide', 'wide', 'any'])) for _ in range(ncols)]
    style = draw(st.sampled_from(['wide-wrap', 'wide-wrap', 'random']))
    if style == 'wide-wrap':
        wrap_cols = [k for k in range(ncols) if profile[k] == 'wide']
    else:
        wrap_cols = sorted(set(draw(st.lists(st.integers(0, ncols - 1), max_size=ncols))))
    cell = {'narrow': NARROW, 'wide': WIDE, 'any': CELL}
    nrows = draw(st.sampled_from([1, 2, 3, 3, 4, 5]))
    rows = []
    for r in range(nrows):
        header = r == 0 and draw(st.booleans())
        if ncols > 1 and r > 0 and draw(st.sampled_from([0, 0, 0, 0, 0, 0, 1])):
            rows.append({'span': True, 'header': False, 'cells': [draw(CELL)]})
        else:
            rows.append({'span': False, 'header': header, 'cells': [draw(NARROW if header else cell[profile[k]]) for k in range(ncols)]})
    # one rowspan cell (never in a header row, never together with colspan rows): the rows below leave its column out
    rowspan = None
    first = 1 if rows[0]['header'] else 0
    if ncols >= 2 and nrows - first >= 2 and not any(row['span'] for row in rows) and draw(st.sampled_from([0, 1])):
        r0 = draw(st.integers(first, nrows - 2))
        n = draw(st.integers(2, min(3, nrows - r0)))
        k0 = draw(st.integers(0, ncols - 1))
        rowspan = [r0, k0, n]
        for r in range(r0 + 1, r0 + n):
            rows[r]['cells'][k0] = None
    # ragged variant: the first row has fewer cells than the others, so the top border is narrower than the table
    # (no wrap columns, spans or rowspans: every cell is one line and the lines read row by row)
    ragged = 0
    if ncols >= 2 and nrows >= 2 and rowspan is None and not any(row['span'] for row in rows) and draw(st.sampled_from([0, 0, 0, 1])):
        ragged = draw(st.integers(1, ncols - 1))
        wrap_cols = []
        rows[0]['cells'] = rows[0]['cells'][:ragged]
    classes = ['default'] + [(draw(st.sampled_from(['', 'centre'])) + (':w' if k in wrap_cols else '')) for k in range(ncols)]
    while classes and classes[-1] == '':
        classes.pop()
    items = draw(st.lists(st.lists(TWORD, min_size=1, max_size=25), min_size=0, max_size=3))
    intro, outro = draw(TEXT), draw(TEXT)
    block = ['#TABLE(%s)' % ','.join(classes)] if classes else ['#TABLE']
    for r, row in enumerate(rows):
        if row['span']:
            block.append('{ =c%d %s }' % (ncols, ' '.join(row['cells'][0])))
        else:
            block.append('{ %s }' % ' | '.join(('=h ' if row['header'] else '') + ('=r%d ' % rowspan[2] if rowspan and [r, k] == rowspan[:2] else '') + ' '.join(c)
                                              for k, c in enumerate(row['cells']) if c is not None))
    block.append('TABLE#')
    if items:
        block.append('#LIST')
        block += ['{ %s }' % ' '.join(i) for i in items]
        block.append('LIST#')
    para = ['; ' + l for l in _lay(draw, intro)] + ['; ' + l for l in block] + ['; ' + l for l in _lay(draw, outro)]
    lines = ['@start', '@org', '; Title']
    if where == 'desc':
        lines += [';'] + para + ['c32768 XOR A ; first', ' 32769 RET ; last']
    else:
        lines += ['c32768 XOR A ; first'] + para + [' 32769 RET ; last']
    return {'kind': kind, 'skool': '\n'.join(lines) + '\n', 'props': props, 'where': where, 'ncols': ncols, 'wrap_cols': wrap_cols,
            'rows': rows, 'items': items, 'intro': intro, 'outro': outro, 'rowspan': rowspan, 'ragged': ragged}


def table_oracle(case, rec=None):
    if case['kind'] == 'table-html':
        return table_html_oracle(case, rec)
    props = case['props']
    width = props['line-width']
    with cli.Scratch('c18t-') as s:
        argv = ['-q']
        for k, v in props.items():
            argv += ['-P', '%s=%s' % (k, v)]
        r = cli.run('skool2asm', argv + [s.write('in.skool', case['skool'])])
    if r.exc is not None:
        raise Violation(crash_sig(r.exc, 'skool2asm'), 'skool2asm raised %r on a #TABLE/#LIST block' % r.exc, case)
    if not r.ok:
        raise Violation('skool2asm-exit', 'skool2asm exited %r: %s' % (r.code, r.err[-200:]), case)
    lines = [l for l in r.out.split('\n') if l.startswith(';')]
    tl = [i for i, l in enumerate(lines) if re.match(r'^; [+|]', l)]
    if not tl or tl != list(range(tl[0], tl[-1] + 1)):
        raise Violation('table:not-rendered', 'no contiguous rendered table found in the ASM output: %r' % lines[:12], case)
    table = [l[2:] for l in lines[tl[0]:tl[-1] + 1]]
    before = lines[:tl[0]]
    after = lines[tl[-1] + 1:]
    ncols = case['ncols']
    if case.get('ragged'):
        return _ragged_table_oracle(case, r, table, before, after, width, rec)
    # --- borders / geometry
    top = table[0]
    bottom = table[-1]
    if not re.match(r'^\+(-+\+)+$', top) or not re.match(r'^\+(-+\+)+$', bottom) or len(top) != len(bottom):
        raise Violation('table:border', 'first/last table lines are not full borders of equal length: %r / %r' % (top, bottom), case)
    bounds = [i for i, ch in enumerate(top) if ch == '+']
    if not set(i for i, ch in enumerate(bottom) if ch == '+') <= set(bounds):
        raise Violation('table:border', 'bottom border %r does not line up with the top border %r' % (bottom, top), case)
    if len(bounds) != ncols + 1:
        raise Violation('table:columns', 'border has %d columns, the table has %d' % (len(bounds) - 1, ncols), case)
    L = len(top)
    cols = [[] for _ in range(ncols)]
    span = []
    wrapped = False
    row_lines = 0
    nsep = 0
    for l in table[1:-1]:
        if len(l) != L:
            raise Violation('table:ragged', 'table line %r is %d characters long, the border %d' % (l, len(l), L), case)
        if l.startswith('+'):
            nsep += 1
            continue
        if l[0] != '|' or l[-1] != '|':
            raise Violation('table:edge', 'table line without outer borders: %r' % l, case)
        inner = [l[b] == '|' for b in bounds[1:-1]]
        if all(inner):
            for k in range(ncols):
                cols[k] += words(l[bounds[k] + 1:bounds[k + 1]])
        elif not any(inner):
            span += words(l[1:-1])
        else:
            raise Violation('table:cell-borders', 'unexpected cell borders in %r' % l, case)
        row_lines += 1
    exp_cols = [[] for _ in range(ncols)]
    exp_span = []
    for row in case['rows']:
        if row['span']:
            exp_span += row['cells'][0]
        else:
            for k in range(ncols):
                exp_cols[k] += row['cells'][k] or []
    for k in range(ncols):
        if cols[k] != exp_cols[k]:
            raise Violation('table:words', 'words of column %d differ: %s' % (k + 1, _first_diff(cols[k], exp_cols[k])), case)
    if span != exp_span:
        raise Violation('table:words', 'words of the spanning cells differ: %s' % _first_diff(span, exp_span), case)
    wrapped = row_lines > len(case['rows'])
    # --- width predicates (TableWriter: only ':w' columns are wrapped, and only as far as needed to fit line-width - 2)
    maxw = width - 2
    warned = 'Table in entry at' in r.err
    if (L > maxw) != warned:
        raise Violation('table:warning', 'table is %d characters wide, the description width is %d, warning printed: %s' % (L, maxw, warned), case)
    colw = [bounds[k + 1] - bounds[k] - 3 for k in range(ncols)]
    wmin = props.get('wrap-column-width-min', 10)
    nospan = not any(row['span'] for row in case['rows'])
    if L > maxw and nospan:
        # "The :w indicator marks a column as a candidate for having its width reduced (by wrapping the text it contains)
        # so that the table will be no more than <width> characters wide": when no word of a wrap column is longer than
        # wrap-column-width-min, the table must fit if it can (each wrap column reduced to that minimum)
        natural = [max(len(' '.join(row['cells'][k])) for row in case['rows'] if row['cells'][k]) for k in range(ncols)]
        longest = [max(len(w) for row in case['rows'] for w in row['cells'][k] or ()) for k in range(ncols)]
        if all(longest[k] <= wmin for k in case['wrap_cols']):
            minimal = 3 * (ncols + 1) - 2 + sum(min(natural[k], wmin) if k in case['wrap_cols'] else natural[k] for k in range(ncols))
            if minimal <= maxw:
                raise Violation('table:width', 'table is %d wide (> %d) although wrapping its :w columns to wrap-column-width-min=%d gives %d' % (
                    L, maxw, wmin, minimal), case)
        elif rec is not None:
            rec.note('table:width-not-judged:unbreakable-word-in-wrap-column')
    for k in range(ncols):
        if k not in case['wrap_cols'] and nospan:
            natural = max(len(' '.join(row['cells'][k])) for row in case['rows'] if row['cells'][k])
            if colw[k] != natural:
                raise Violation('table:width', 'column %d (not wrappable) is %d wide, its widest cell %d' % (k + 1, colw[k], natural), case)
    # --- surrounding text and list
    got_before = [w for l in before for w in words(l[1:])]
    exp_before = ['Title'] + list(case['intro'])
    if got_before != exp_before:
        raise Violation('table:words', 'text before the table differs: %s' % _first_diff(got_before, exp_before), case)
    got_after = []
    for l in after:
        ws = words(l[1:])
        if ws and ws[0] == '*' and l.startswith('; * '):
            ws = ws[1:]
        got_after += ws
        if len(l) > width and len(ws) > 1:
            raise Violation('table:list-width', 'line of %d characters after the table exceeds line-width=%d: %r' % (len(l), width, l[:100]), case)
    exp_after = [w for i in case['items'] for w in i] + list(case['outro'])
    if got_after != exp_after:
        raise Violation('table:words', 'list items/text after the table differ: %s' % _first_diff(got_after, exp_after), case)
    nbul = sum(1 for l in after if l.startswith('; * '))
    if nbul != len(case['items']):
        raise Violation('table:list-items', '%d bullets for %d list items' % (nbul, len(case['items'])), case)
    if rec is not None:
        rec.case((case['skool'], repr(sorted(props.items()))), wrapped or L > maxw,
                 ['table', 'table:' + case['where']] + (['table:rowspan'] if case.get('rowspan') else []) + (['table:wrapped'] if wrapped else []) + (['table:over-width'] if L > maxw else []) + (['table:list'] if case['items'] else []),
                 {'props': props, 'skool': case['skool'][:500]})


def _ragged_table_oracle(case, r, table, before, after, width, rec):
    got = [w for l in table if not re.match(r'^[+\-| ]*$', l) for w in words(l.replace('|', ' '))]
    exp = [w for row in case['rows'] for c in row['cells'] for w in c]
    if got != exp:
        raise Violation('table:words', 'words of the (ragged) table differ: %s' % _first_diff(got, exp), case)
    L = max(len(l) for l in table)
    maxw = width - 2
    warned = 'Table in entry at' in r.err
    if (L > maxw) != warned:
        raise Violation('table:warning', 'table (first row narrower than the rest) is %d characters wide, the description width is %d, warning printed: %s' % (L, maxw, warned), case)
    got_before = [w for l in before for w in words(l[1:])]
    if got_before != ['Title'] + list(case['intro']):
        raise Violation('table:words', 'text before the table differs: %s' % _first_diff(got_before, ['Title'] + list(case['intro'])), case)
    if rec is not None:
        rec.case((case['skool'], repr(sorted(case['props'].items()))), L > maxw, ['table', 'table:ragged'] + (['table:over-width'] if L > maxw else []),
                 {'props': case['props'], 'skool': case['skool'][:500]})


def table_html_oracle(case, rec=None):
    import html as htmlmod
    with cli.Scratch('c18h-') as s:
        sk = s.write('game.skool', case['skool'])
        r = cli.run('skool2html', ['-q', '-d', s.path('out'), sk])
        if r.exc is not None:
            raise Violation(crash_sig(r.exc, 'skool2html'), 'skool2html raised %r on a #TABLE/#LIST block' % r.exc, case)
        if not r.ok:
            raise Violation('skool2html-exit', 'skool2html exited %r: %s' % (r.code, r.err[-200:]), case)
        page = s.read('out/game/asm/32768.html')
    m = re.search(r'<table class="default">(.*?)</table>', page, re.S)
    if not m:
        raise Violation('table:html:not-rendered', 'no <table class="default"> in the entry page', case)
    body = m.group(1)
    rows = re.findall(r'<tr>(.*?)</tr>', body, re.S)
    if len(rows) != len(case['rows']):
        raise Violation('table:html:rows', '%d <tr> rows for %d table rows' % (len(rows), len(case['rows'])), case)
    for ri, (row, exp) in enumerate(zip(rows, case['rows'])):
        cells = re.findall(r'<(t[dh])([^>]*)>(.*?)</t[dh]>', row, re.S)
        texts = [words(htmlmod.unescape(re.sub(r'<[^>]+>', ' ', c[2]))) for c in cells]
        if texts != [list(c) for c in exp['cells'] if c is not None]:
            raise Violation('table:html:words', 'cells %r, expected %r' % (texts, exp['cells']), case)
        if exp['span'] and 'colspan="%d"' % case['ncols'] not in cells[0][1]:
            raise Violation('table:html:colspan', 'spanning cell rendered as %r' % (cells[0][1],), case)
        rs = case.get('rowspan')
        if rs and ri == rs[0] and 'rowspan="%d"' % rs[2] not in cells[rs[1]][1]:
            raise Violation('table:html:rowspan', 'rowspan cell rendered as %r' % (cells[rs[1]][1],), case)
        if any((c[0] == 'th') != exp['header'] for c in cells):
            raise Violation('table:html:header', 'header flags differ in row %r' % (row[:80],), case)
    items = re.findall(r'<li>(.*?)</li>', page, re.S)
    got_items = [words(htmlmod.unescape(re.sub(r'<[^>]+>', ' ', i))) for i in items]
    if got_items != [list(i) for i in case['items']]:
        raise Violation('table:html:list', 'list items %r, expected %r' % (got_items[:3], case['items'][:3]), case)
    if rec is not None:
        rec.case((case['skool'], 'html'), True, ['table:html'], {'skool': case['skool'][:500]})


# --------------------------------------------------------------------------- plan
def plan(tier, seed):
    n = 6400 if tier == 'quick' else 120000
    shards = [{'kind': 'skool', 'n': n // 16, 'seed': shard_seed(seed, PROPERTY, i)} for i in range(16)]
    nc = 2400 if tier == 'quick' else 60000
    shards += [{'kind': 'ctl', 'n': nc // 8, 'seed': shard_seed(seed, PROPERTY, 'c%d' % i)} for i in range(8)]
    nt = 2400 if tier == 'quick' else 80000
    shards += [{'kind': 'table', 'n': nt // 8, 'seed': shard_seed(seed, PROPERTY, 't%d' % i)} for i in range(8)]
    return shards


def _oracle(case, rec=None):
    if case['kind'] == 'asm':
        asm_oracle(case, rec)
    elif case['kind'] == 'html':
        html_oracle(case, rec)
    elif case['kind'].startswith('table'):
        table_oracle(case, rec)
    else:
        ctl_oracle(case, rec)


def run_shard(shard, rec):
    if shard['kind'] == 'skool':
        hyp_run(rec, asm_cases(), lambda c: _oracle(c, rec), shard['n'], shard['seed'], shrink_budget_s=40.0)
    elif shard['kind'] == 'table':
        hyp_run(rec, table_cases(), lambda c: _oracle(c, rec), shard['n'], shard['seed'], shrink_budget_s=40.0)
    else:
        hyp_run(rec, ctl_cases(), lambda c: _oracle(c, rec), shard['n'], shard['seed'], shrink_budget_s=40.0)


def replay(case):
    _oracle(case)


def known_class(sig, case):
    # F9: skool2asm warns about over-width lines only when they are instruction lines (or tables)
    if sig == 'asm:no-warning:non-instruction':
        return 'F9'
    return None


MANIFEST_ENTRY = {
    'technique': 'token-stream conservation and width-predicate oracles over Hypothesis-generated annotated skool/control files through skool2asm.main, skool2html.main and sna2skool.main',
    'level_text': 'Generated skool files with text in every annotation slot (titles, description paragraphs, register lines, start/mid-block/end comments, single, continued and brace-grouped instruction comments; words up to 150 characters, punctuation, inner braces, HTML-special characters) are converted by skool2asm (line-width 40-200, instruction-width, comment-width-min, indent, tab, crlf) and skool2html, and annotated control files by sna2skool -w 40-200; descriptions and mid-block comments with #TABLE/#LIST blocks by skool2asm and skool2html; the comment words must come out in order exactly once in the corresponding places, every instruction exactly once attached to its comment, and no line may exceed the width without an unbreakable word - in which case skool2asm must warn.',
    'level_note': 'Annotation text is macro-free (C17 covers macros) apart from generated #TABLE/#LIST blocks (1-4 columns, header rows, full-width colspan rows, :w wrap columns, wrap-column-width-min; no rowspans or transparent cells): per-column word conservation, border geometry, the exact warning condition and the fit-if-it-can width predicate in ASM, row/cell/list structure in HTML. HTML is checked on the default templates only.',
}
