"""C06 - all four simulator implementations execute every program identically.

Lock-step differential: (Simulator, CSimulator) and (CMIOSimulator,
CCMIOSimulator) execute generated programs one instruction at a time from the
same state; after every instruction all 30 register slots, the port-access log
(ports, values, T-state offsets) and the paging state must be equal, and the
whole memory at checkpoints and at the end. The same program is then run with
run(start, stop, interrupts) in one call (in a forked child with a watchdog) and
the end states compared. Tool level: trace.py with and without --python.
"""
import contextlib
import io
import os
import pickle
import select
import signal
import tempfile
import time

from hypothesis import strategies as st

from vlib.runner import Violation, hyp_run, shard_seed, crash_sig
from vlib import gen_prog, simdrv

PROPERTY = 'C06'
RULE = ('Hypothesis draws (program bytes from the instruction grammar/templates/raw bytes, load address incl. ROM/RAM and 64K '
        'straddles, background memory seed, all registers, IM/IFF/T anywhere in the frame, 48K or 128K with an arbitrary '
        'initial 0x7FFD value, interrupts on/off, tracer flags); each program is lock-stepped on both implementation pairs. '
        'Non-trivial: >=20 instructions executed from >=8 distinct first opcode bytes and (an interrupt was accepted or a '
        'paging write was accepted or a port was accessed or memory was written); distinct = digest of the case.')
ASSUMPTIONS = [
    '128K memory is always used with a paging tracer attached (as every tool does); tracer-less runs are generated for 48K only',
    'interrupts are delivered with the semantics of Simulator.run(start, stop, interrupts=True) (frame boundary + int_active window)',
    'a one-call run() that does not finish within 60 s although the lock-step run reached the stop address in <= 400 steps is reported as a hang',
]

BASES = [0x8000, 0x8000, 0xC000, 0x4000, 0x5B00, 0xBFF4, 0xFFF4, 0x3FF8, 0x7FF8]


@st.composite
def cases(draw, tier):
    model = draw(st.sampled_from(['48', '48', '128']))
    base = draw(st.sampled_from(BASES))
    code = draw(gen_prog.program(base, 30 if tier == 'quick' else 60))
    frame = 70908 if model == '128' else 69888
    case = {
        'model': model,
        'base': base,
        'code': code,
        'fill_seed': draw(st.integers(0, 2 ** 32 - 1)),
        'fill_style': draw(st.sampled_from([0, 1, 1, 2])),
        'regs': draw(gen_prog.registers()),
        'im': draw(st.integers(0, 2)),
        'iff': draw(st.integers(0, 1)),
        # (the last multiplier puts the clock just below / beyond 2^32 T-states: about 20 minutes of Spectrum time)
        'tstates': draw(gen_prog.frame_times(frame)) + frame * draw(st.sampled_from([0, 0, 1, 7, 2 ** 32 // frame, 2 ** 32 // frame + 1])),
        'interrupts': draw(st.booleans()),
        'o7ffd': draw(st.one_of(st.sampled_from([0, 0x10, 0x07, 0x11, 0x27, 0x30]), st.integers(0, 255))) if model == '128' else 0,
        'tracer': True if model == '128' else draw(st.sampled_from([True, True, False])),
        'in_r_c': draw(st.sampled_from([True, True, False])),
        'ini': draw(st.sampled_from([True, True, False])),
        'salt': draw(st.integers(0, 255)),
        'steps': draw(st.integers(20, 200 if tier == 'quick' else 1200)),
        'start_off': 0,
    }
    if draw(st.sampled_from([0] * 11 + [1])):
        # a lone DD/FD prefix in the last byte of memory, executed just as the frame interrupt becomes due: the
        # interrupt must wait for the instruction after the prefix, which lies at 0x0000
        k = draw(st.integers(0, 3))
        case['base'] = 0xFFFF - k
        case['code'] = [0x00] * k + [draw(st.sampled_from([0xDD, 0xFD]))]
        case['tstates'] = frame - 4 * k - 4 + draw(st.integers(0, 8)) + frame * draw(st.sampled_from([0, 1]))
        case['iff'] = 1
        case['interrupts'] = True
    return case


def _make_tracer_class():
    from skoolkit.pagingtracer import PagingTracer

    class Tr(PagingTracer):
        def __init__(self, sim, o7ffd, salt):
            self.simulator = sim
            self.out7ffd = o7ffd
            self.outfffd = 0
            self.ay = [0] * 16
            self.border = 0
            self.outfe = 0
            self.log = []
            self.salt = salt

        def read_port(self, registers, port):
            v = (port * 31 + (port >> 8) * 7 + len(self.log) * 13 + self.salt) & 255
            self.log.append(('r', port, v))
            return v

        def write_port(self, registers, port, value, offset=0):
            self.log.append(('w', port, value, offset))
            PagingTracer.write_port(self, registers, port, value, offset)
    return Tr


_Tr = None


def build(case, impl):
    """Fresh simulator + tracer for the case."""
    global _Tr
    if _Tr is None:
        _Tr = _make_tracer_class()
    from skoolkit.pagingtracer import Memory
    cls = simdrv.sim_class(impl)
    base, code = case['base'], case['code']
    if case['model'] == '128':
        raw = gen_prog.fill_bytes(case['fill_seed'], 0x20000, case['fill_style'])
        banks = [list(raw[i * 0x4000:(i + 1) * 0x4000]) for i in range(8)]
        mem = Memory(banks, case['o7ffd'])
        for k, b in enumerate(code):
            a = (base + k) & 0xFFFF
            if a >= 0x4000:
                mem[a] = b
        cfg = {'frame_duration': 70908, 'int_active': 36}
    else:
        mem = list(gen_prog.fill_bytes(case['fill_seed'], 0x10000, case['fill_style']))
        for k, b in enumerate(code):
            mem[(base + k) & 0xFFFF] = b
        cfg = {'frame_duration': 69888, 'int_active': 32}
    regs = dict(case['regs'])
    regs['PC'] = (base + case.get('start_off', 0)) & 0xFFFF
    state = {'im': case['im'], 'iff': case['iff'], 'tstates': case['tstates']}
    sim = cls(mem, regs, state, cfg)
    tracer = None
    if case['tracer']:
        tracer = _Tr(sim, case['o7ffd'], case['salt'])
        sim.set_tracer(tracer, case['in_r_c'], case['ini'])
    return sim, tracer, cfg


def mem_image(sim):
    m = sim.memory
    if hasattr(m, 'banks'):
        return (tuple(bytes(b) for b in m.banks), tuple(bytes(r) for r in m.roms),
                tuple(bytes(x) for x in m.memory), m.o7ffd)
    return bytes(m)


def state_of(sim, tracer):
    t = None
    if tracer is not None:
        t = (tuple(tracer.log), tracer.out7ffd, tracer.outfffd, tuple(tracer.ay), tracer.border, tracer.outfe)
    return [int(x) for x in sim.registers[:30]], t, mem_image(sim)


class Stepper:
    """Drives one simulator with the interrupt semantics of run(start, stop, True)."""
    def __init__(self, sim, cfg, interrupts):
        self.sim = sim
        self.regs = sim.registers
        self.fd = cfg['frame_duration']
        self.ia = cfg['int_active']
        self.interrupts = interrupts
        t = int(self.regs[25])
        fs = (t // self.fd) * self.fd
        self.next_int = fs if t < fs + self.ia else fs + self.fd
        self.accepted = 0

    def step(self):
        sim, regs = self.sim, self.regs
        pc = int(regs[24])
        sim.run(pc)
        if self.interrupts:
            t = int(regs[25])
            if t >= self.next_int:
                if t < self.next_int + self.ia:
                    if regs[26]:
                        if sim.accept_interrupt(regs, sim.memory, pc):
                            self.accepted += 1
                else:
                    self.next_int += self.fd
        return pc


def lockstep(case, pair, stats=None):
    (sa, ta, cfg), (sb, tb, _) = build(case, pair[0]), build(case, pair[1])
    A, B = Stepper(sa, cfg, case['interrupts']), Stepper(sb, cfg, case['interrupts'])
    ra, rb = sa.registers, sb.registers
    opcodes = set()
    pcs = []
    nlog = 0
    for i in range(case['steps']):
        try:
            pc = A.step()
        except Exception as x:
            raise Violation(crash_sig(x, 'sim-' + pair[0]), '%s raised %r at step %d' % (pair[0], x, i), case)
        try:
            B.step()
        except Exception as x:
            raise Violation(crash_sig(x, 'sim-' + pair[1]), '%s raised %r at step %d' % (pair[1], x, i), case)
        pcs.append(int(ra[24]))
        la, lb = list(ra[:30]), list(rb[:30])
        if la != lb:
            d = [(simdrv.REGNAMES.get(k, k), int(la[k]), int(lb[k])) for k in range(30) if la[k] != lb[k]]
            op = _opbytes(sa, pc)
            raise Violation('lockstep-regs:%s:%s' % ('cmio' if 'cmio' in pair[0] else 'plain', d[0][0]),
                            '%s vs %s diverge at step %d (pc=%d, bytes %s): %s' % (pair[0], pair[1], i, pc, op, d), case)
        if ta is not None:
            if len(ta.log) != nlog or len(tb.log) != nlog:
                if ta.log[nlog:] != tb.log[nlog:]:
                    raise Violation('lockstep-ports', '%s vs %s port logs differ at step %d (pc=%d): %r vs %r' % (
                        pair[0], pair[1], i, pc, ta.log[nlog:nlog + 4], tb.log[nlog:nlog + 4]), case)
                nlog = len(ta.log)
            if ta.out7ffd != tb.out7ffd or getattr(sa.memory, 'o7ffd', 0) != getattr(sb.memory, 'o7ffd', 0):
                raise Violation('lockstep-paging', '%s vs %s paging state differs at step %d (pc=%d)' % (pair[0], pair[1], i, pc), case)
        if stats is not None:
            opcodes.add(sa.memory[pc])
        if i % 64 == 63:
            if mem_image(sa) != mem_image(sb):
                raise Violation('lockstep-memory', '%s vs %s memory differs by step %d' % (pair[0], pair[1], i), case)
    if mem_image(sa) != mem_image(sb):
        raise Violation('lockstep-memory', '%s vs %s memory differs at the end' % (pair[0], pair[1]), case)
    sta, stb = state_of(sa, ta), state_of(sb, tb)
    if sta[1] != stb[1]:
        raise Violation('lockstep-tracer', '%s vs %s tracer state differs at the end' % (pair[0], pair[1]), case)
    if stats is not None:
        stats['opcodes'] = len(opcodes)
        stats['accepted'] = A.accepted
        stats['ports'] = len(ta.log) if ta is not None else 0
        stats['paged'] = sum(1 for e in (ta.log if ta else ()) if e[0] == 'w' and e[1] & 0x8002 == 0)
    return pcs, sta


def _opbytes(sim, pc):
    m = sim.memory
    return ' '.join('%02X' % m[(pc + k) & 0xFFFF] for k in range(4))


def _child_run(case, impl, stop, wfd):
    try:
        sim, tracer, cfg = build(case, impl)
        sim.run(int(sim.registers[24]), stop, case['interrupts'])
        regs, t, mem = state_of(sim, tracer)
        import hashlib
        h = hashlib.sha256(pickle.dumps(mem)).hexdigest()
        payload = ('ok', regs, t, h)
    except BaseException as x:
        payload = ('exc', repr(x))
    os.write(wfd, pickle.dumps(payload))


def run_in_child(case, impl, stop, timeout=60.0, fn=None):
    r, w = os.pipe()
    pid = os.fork()
    if pid == 0:
        try:
            os.close(r)
            if fn is None:
                _child_run(case, impl, stop, w)
            else:
                try:
                    payload = ('ok', fn())
                except Violation as v:
                    payload = ('violation', v.sig, v.msg)
                except BaseException as x:
                    payload = ('exc', repr(x))
                os.write(w, pickle.dumps(payload))
        finally:
            os._exit(0)
    os.close(w)
    data = b''
    deadline = time.time() + timeout
    try:
        while True:
            left = deadline - time.time()
            if left <= 0:
                os.kill(pid, signal.SIGKILL)
                return ('hang',)
            rl, _, _ = select.select([r], [], [], left)
            if rl:
                chunk = os.read(r, 1 << 20)
                if not chunk:
                    break
                data += chunk
    finally:
        os.close(r)
        try:
            os.waitpid(pid, 0)
        except ChildProcessError:
            pass
    if not data:
        return ('died',)
    return pickle.loads(data)


def onecall(case, pair, pcs, end_state):
    """run(start, stop, interrupts) in one call must reach the lock-step state at the first visit of `stop`."""
    n = min(len(pcs), 400)
    stop = pcs[n - 1]
    first = pcs.index(stop)
    sub = dict(case, steps=first + 1)
    # expected state: lock-step to the first visit of stop (python implementation of the pair)
    _, exp = lockstep(sub, (pair[0], pair[0]))
    import hashlib
    exp_h = hashlib.sha256(pickle.dumps(exp[2])).hexdigest()
    for impl in pair:
        res = run_in_child(case, impl, stop)
        if res[0] == 'hang':
            raise Violation('run-hang:' + impl, '%s.run(start, %d, %s) did not return within 60 s; lock-step reaches it after %d instructions' % (impl, stop, case['interrupts'], first + 1), case)
        if res[0] != 'ok':
            raise Violation('run-crash:' + impl, '%s.run() failed: %r' % (impl, res), case)
        _, regs, t, h = res
        if regs != exp[0]:
            d = [(simdrv.REGNAMES.get(k, k), regs[k], exp[0][k]) for k in range(30) if regs[k] != exp[0][k]]
            raise Violation('run-regs:' + impl, '%s.run(start, %d, interrupts=%s) ends with %s (got, lock-step)' % (impl, stop, case['interrupts'], d), case)
        if t != exp[1]:
            raise Violation('run-tracer:' + impl, '%s.run() tracer state/log differs from lock-step' % impl, case)
        if h != exp_h:
            raise Violation('run-memory:' + impl, '%s.run() memory differs from lock-step' % impl, case)


def oracle(case, rec=None, do_onecall=True):
    stats = {}
    nt = False
    for pair in (('py', 'c'), ('pycmio', 'ccmio')):
        st_ = {}
        pcs, end = lockstep(case, pair, st_)
        if do_onecall and case.get('onecall', True) and pair[0] == ('py' if case['salt'] % 2 else 'pycmio'):
            if case['salt'] % 4 < 2:   # half of the cases
                onecall(case, pair, pcs, end)
                stats['onecall'] = 1
        stats.update(st_)
    if rec is not None:
        nt = (case['steps'] >= 20 and stats.get('opcodes', 0) >= 8 and
              (stats.get('accepted', 0) > 0 or stats.get('ports', 0) > 0 or stats.get('paged', 0) > 0))
        klass = ['model:' + case['model'], 'interrupts:%d' % case['interrupts']]
        if stats.get('accepted'):
            klass.append('interrupt-accepted')
        if stats.get('paged'):
            klass.append('paging-write')
        if stats.get('onecall'):
            klass.append('one-call-run')
        if not case['tracer']:
            klass.append('no-tracer')
        rec.case(_key(case), nt, klass, _sample(case))


def _key(case):
    return repr(sorted(case.items()))


def _sample(case):
    c = dict(case)
    c['code'] = ' '.join('%02X' % b for b in case['code'][:48]) + (' ...' if len(case['code']) > 48 else '')
    return c


# --- tool level: trace.py with and without --python ---------------------------
@st.composite
def trace_cases(draw):
    kind = draw(st.sampled_from(['prog', 'prog', 'ldir', 'djnz']))
    org = draw(st.sampled_from([0x8000, 0xC000, 0x6000]))
    if kind == 'prog':
        code = draw(gen_prog.program(org, 25))
        maxops = draw(st.integers(10, 400))
        start_t = draw(gen_prog.frame_times(69888))
    elif kind == 'ldir':
        # DI: LD HL,src: LD DE,dst: LD BC,n: LDIR/LDDR: EI: filler  -- block ends near a frame boundary
        # the block is sized so that it ends within +-70 T-states of a frame boundary, k frames ahead
        start_t = draw(st.integers(0, 69887))
        k = draw(st.sampled_from([1, 2, 3, 4, 4, 5, 5, 6, 7, 9, 12, 18]))
        delta = draw(st.one_of(st.integers(0, 44), st.integers(-30, 60)))
        n = max(1, min(65535, (k * 69888 + delta - start_t - 34 + 5) // 21))
        if draw(st.integers(0, 9)) == 0:
            n = draw(st.integers(1, 14000))
        op = draw(st.sampled_from([0xB0, 0xB8]))
        org = 0x8000
        if n <= 24000 and draw(st.booleans()):
            # a real copy that stays clear of the code and the stack
            hl, de = (0x9000, 0xA000) if op == 0xB0 else (0xE000, 0xFDFF)
        else:
            # HL = DE: every byte is copied onto itself, so any length is harmless
            hl = de = 0x4000
        code = [0xF3, 0x21, hl & 255, hl >> 8, 0x11, de & 255, de >> 8, 0x01, n & 255, n >> 8, 0xED, op, 0xFB] + draw(st.lists(st.sampled_from([0x00, 0x3C, 0x04, 0x23]), min_size=4, max_size=40))
        maxops = 0      # stop address instead: trace.py's fast mode is only used without -m/-M
    else:
        n = draw(st.integers(1, 255))
        code = [0xF3, 0x06, n, 0x10, 0xFE, 0xFB] + draw(st.lists(st.sampled_from([0x00, 0x3C, 0x04, 0x23]), min_size=4, max_size=40))
        maxops = 0
        # the loop ends within +-70 T-states of the frame boundary
        start_t = (69888 - 11 - 13 * n + draw(st.integers(-70, 70))) % 69888
    case = {'tool': 'trace', 'kind': kind, 'org': org, 'code': code, 'max_operations': maxops,
            'tstates': start_t + 69888 * draw(st.sampled_from([0, 1])), 'cmio': draw(st.booleans()),
            'no_interrupts': draw(st.sampled_from([False, False, True])),
            'iff': draw(st.integers(0, 1)), 'im': draw(st.sampled_from([1, 1, 2, 0])),
            'fmt': draw(st.sampled_from(['z80', 'szx']))}
    if kind != 'prog':
        # straight-line code running to a stop address; IM 1 so that an interrupt returns through the ROM handler
        case['im'] = 1
        case['stop'] = org + len(code)
        case['cmio'] = False if kind == 'ldir' and draw(st.booleans()) else case['cmio']
    return case


def run_trace(case, python):
    from skoolkit import trace
    tmp = tempfile.mkdtemp(prefix='c06-')
    try:
        binf = os.path.join(tmp, 'p.bin')
        with open(binf, 'wb') as f:
            f.write(bytes(case['code']) + bytes(8))
        out = os.path.join(tmp, 'out.' + case['fmt'])
        argv = ['-o', str(case['org']), '-s', str(case['org'])]
        if case.get('stop') is not None:
            argv += ['-S', str(case['stop'])]
        else:
            argv += ['-m', str(case['max_operations'])]
        argv += ['--state', 'tstates=%d' % case['tstates'], '--state', 'iff=%d' % case['iff'], '--state', 'im=%d' % case['im'], '--stats']
        if case['cmio']:
            argv.append('-c')
        if case['no_interrupts']:
            argv.append('-n')
        if python:
            argv.append('--python')
        argv += [binf, out]
        so, se = io.StringIO(), io.StringIO()
        try:
            with contextlib.redirect_stdout(so), contextlib.redirect_stderr(se):
                trace.main(argv)
        except SystemExit as x:
            if x.code not in (0, None):
                return ('exit', x.code, se.getvalue()[-200:])
        except Exception as x:
            raise Violation(crash_sig(x, 'trace'), 'trace.py %s raised %r' % (' '.join(argv[:-2]), x), case)
        with open(out, 'rb') as f:
            data = f.read()
        from skoolkit.snapshot import Snapshot
        s = Snapshot.get(out)
        state = {k: getattr(s, k) for k in ('a', 'f', 'bc', 'de', 'hl', 'ix', 'iy', 'sp', 'i', 'r', 'a2', 'f2', 'bc2', 'de2', 'hl2',
                                            'pc', 'iff1', 'im', 'border', 'tstates')}
        # wall-clock statistics are not results; the instruction *count* is only compared when -m is used:
        # without -m/-M the Python simulator runs DJNZ/LDIR loops (IFF=0) as one operation by design
        skip = ('Simulation time', 'Instructions per second') + (('Instructions executed',) if case.get('stop') is not None else ())
        text = '\n'.join(l for l in so.getvalue().split('\n') if not l.startswith(skip) and 'Wrote' not in l)
        return ('ok', state, bytes(s.ram(-1)), text)
    finally:
        import shutil
        shutil.rmtree(tmp, True)


def _guarded_trace(case, python):
    if case.get('stop') is None:
        return run_trace(case, python)
    res = run_in_child(None, None, None, 60.0, lambda: run_trace(case, python))
    if res[0] == 'ok':
        return res[1]
    if res[0] == 'violation':
        raise Violation(res[1], res[2], case)
    if res[0] == 'hang':
        raise Violation('tool-trace:hang', 'trace.py%s did not reach the stop address within 60 s' % (' --python' if python else ''), case)
    raise Violation('tool-trace:crash', 'trace.py%s child failed: %r' % (' --python' if python else '', res), case)


def _api_fast_run(case, impl):
    """Simulator(fast_djnz/fast_ldir).run(start, stop, interrupts) vs CSimulator.run on the template programs."""
    import skoolkit
    from skoolkit import read_bin_file, ROM48
    mem = [0] * 65536
    rom = read_bin_file(ROM48)
    mem[:len(rom)] = rom
    for k, b in enumerate(case['code']):
        mem[case['org'] + k] = b
    cfg = {'fast_djnz': True, 'fast_ldir': True} if impl == 'py' else {}
    sim = simdrv.sim_class(impl)(mem, {'PC': case['org'], 'SP': 0xFF00}, {'iff': case['iff'], 'im': 1, 'tstates': case['tstates']}, cfg)
    sim.run(case['org'], case['stop'], not case['no_interrupts'])
    return [int(x) for x in sim.registers[:29]], bytes(sim.memory)


def api_fast_oracle(case):
    res = {}
    for impl in ('py', 'c'):
        r = run_in_child(None, None, None, 60.0, lambda: _api_fast_run(case, impl))
        if r[0] == 'hang':
            raise Violation('api-fast:hang:' + impl, '%s run(start, stop, interrupts) did not return within 60 s' % impl, case)
        if r[0] != 'ok':
            raise Violation('api-fast:crash:' + impl, '%s run() failed: %r' % (impl, r), case)
        res[impl] = r[1]
    if res['py'][0] != res['c'][0]:
        d = [(simdrv.REGNAMES.get(k, k), res['py'][0][k], res['c'][0][k]) for k in range(29) if res['py'][0][k] != res['c'][0][k]]
        raise Violation('api-fast:regs', 'Simulator(fast_ldir/fast_djnz).run vs CSimulator.run end state differs: %s (py, c)' % d, case)
    if res['py'][1] != res['c'][1]:
        bad = [i for i in range(65536) if res['py'][1][i] != res['c'][1][i]][:5]
        raise Violation('api-fast:memory', 'Simulator(fast).run vs CSimulator.run memory differs at %r' % bad, case)


def trace_oracle(case, rec=None):
    if case.get('stop') is not None:
        api_fast_oracle(case)
    a = _guarded_trace(case, False)
    b = _guarded_trace(case, True)
    if a[0] != b[0]:
        raise Violation('tool-trace:exit', 'trace.py C: %r, --python: %r' % (a[:2], b[:2]), case)
    if a[0] == 'ok':
        if a[1] != b[1]:
            d = {k: (a[1][k], b[1][k]) for k in a[1] if a[1][k] != b[1][k]}
            raise Violation('tool-trace:regs', 'trace.py snapshot differs with --python: %r (C, Python)' % d, case)
        if a[2] != b[2]:
            bad = [i + 16384 for i in range(len(a[2])) if a[2][i] != b[2][i]][:5]
            raise Violation('tool-trace:ram', 'trace.py RAM differs with --python at %r' % bad, case)
        if a[3] != b[3]:
            raise Violation('tool-trace:stdout', 'trace.py stdout differs with --python: %r vs %r' % (a[3][-200:], b[3][-200:]), case)
    if rec is not None:
        rec.case(repr(sorted(case.items())), a[0] == 'ok', 'tool:trace:' + case['kind'], dict(case, code=' '.join('%02X' % x for x in case['code'][:40])))


# --- plan ---------------------------------------------------------------------
def plan(tier, seed):
    n = 6000 if tier == 'quick' else 150000      # (300 000 took over two hours on a busy machine)
    nsh = 16 if tier == 'quick' else 64
    shards = [{'kind': 'lockstep', 'tier': tier, 'n': n // nsh, 'seed': shard_seed(seed, PROPERTY, i)} for i in range(nsh)]
    nt = 240 if tier == 'quick' else 6000
    for i in range(8):
        shards.append({'kind': 'trace', 'n': nt // 8, 'seed': shard_seed(seed, PROPERTY, 'trace%d' % i)})
    return shards


def run_shard(shard, rec):
    if shard['kind'] == 'lockstep':
        hyp_run(rec, cases(shard['tier']), lambda c: oracle(c, rec), shard['n'], shard['seed'])
    else:
        hyp_run(rec, trace_cases(), lambda c: trace_oracle(c, rec), shard['n'], shard['seed'])


def replay(case):
    if case.get('tool') == 'trace':
        trace_oracle(case)
    else:
        oracle(case)


def known_class(sig, case):
    return None


MANIFEST_ENTRY = {
    'technique': 'differential testing in lock step: Hypothesis-generated programs and machine states, Python vs C implementations (plain and contended pairs), plus one-call run() and trace.py --python differentials',
    'level_text': 'Generated programs (instruction grammar incl. all prefixes, templates for EI/HALT/IM 2/block/paging/port sequences, raw bytes; code straddling ROM/RAM and 64K) are executed instruction by instruction on both implementation pairs from generated states on 48K and 128K memory; all 30 register slots, port logs with T-state offsets, paging state and full memory must agree after every step; run(start, stop, interrupts) in one call and trace.py with/without --python must agree too.',
    'level_note': 'No reference model is needed: the oracle is agreement of independently written implementations. Program length is bounded (<=200 steps quick, <=1200 thorough). tap2sna and rzxplay --python differentials live in C13 and C20.',
}
