"""C11 - tape files round-trip and their pulse trains encode exactly the block bytes.

A *logical tape* (ref/taperef) is serialised as TAP / TZX / PZX by the reference,
parsed by skoolkit the way tap2sna does it (tap2sna._get_tape_blocks ->
blocks with timings -> tape.get_edges) and judged by five oracles:
 (1) write_tap/write_pzx -> parse_tap/parse_pzx give back the byte strings, and
     taperef's own parsers agree on the files skoolkit wrote;
 (2) the same logical tape as TAP, TZX and PZX gives identical edge lists;
 (3) the reference waveform equals `edges` (as a level step-function from the
     first edge; as an exact edge list when the tape has no zero-length pulse);
 (4) edges[start..end] of every DataBlock decode back to the block's bits;
 (5) tapinfo / tap2sna --tape-analysis print the generated parameters.
"""
import random
import re

from hypothesis import strategies as st

from vlib.runner import Violation, hyp_run, shard_seed, crash_sig
from vlib import cli
from ref import taperef as T

import collections
STATS = collections.Counter()      # sub-oracle executions of the current case (flushed into the evidence notes)

PROPERTY = 'C11'
RULE = ('Hypothesis draws a logical tape of 1-6 blocks: portable kinds (standard, turbo, pure tone, pulse sequence, pure data, '
        'direct recording, pause, stop, loop with body, group, text/archive/hardware info; 16-bit pulse widths incl. 0, pilot '
        'counts incl. 0, used bits 1-8, pauses incl. 0, data 0-300 bytes with every flag byte) or PZX-native kinds (PULS with '
        'repeat counts and 15/31-bit durations in every encoding form, DATA with 0-4 pulse symbol sequences, tail and initial '
        'level, PAUS, BRWS, STOP) mixed with portable ones; plus first-edge, polarity, tape start/stop/skip and 48K/128K. '
        'Shard kind "big" uses 48-64 KB blocks filled from a drawn seed; kind "asym" draws PZX DATA blocks with symbol '
        'sequences of different lengths and 1-7 used bits. Non-trivial: the tape has >= 2 blocks and one of: used bits < 8, a '
        'zero-length pulse, a data block pause of 0, an explicit PZX level, a loop. distinct = digest of the case.')
ASSUMPTIONS = [
    'TZX carries no signal levels in skoolkit (documented: EAR = pulse index parity): a TZX pause holds the level of the next pulse, and a direct recording is judged as a run-length pulse train relative to the running level, not as absolute levels',
    'the level before the first edge, and anything after the last edge (final pause, final tail pulse), is not compared',
    'standard-speed blocks take the long pilot for every flag byte < 128 (ROM/TZX rule; F29, repaired in /repo, is searched again)',
    'PZX DATA blocks with zero-length symbol pulses at a block boundary (odd run of zero-length pulses first after a pause, or last before a tail pulse) and empty DATA blocks with a tail pulse are avoided - known findings F31/F32, see AVOID',
    'loop repetition counts are >= 1 and loops are not nested or cut by start/stop/skip (TZX specification); zero-length direct recordings are not generated',
    'tape-start/stop/skip always select whole logical blocks (a PZX PULS/DATA/PAUS triple is never split)',
]

# Candidate-finding classes that the generator steers around so that the search
# continues behind them. Remove an entry once the defect is fixed in /repo.
AVOID = {'pzx-zero-boundary', 'pzx-empty-data-tail'}
SIG_F12 = 'pzx-data-asym-lastbyte'
# ids of the candidate classes are provisional (to be replaced by F numbers if they are registered in known_findings.json)
CLASS_IDS = {SIG_F12: 'F12', 'std-pilot-flag': 'F29', 'pzx-zero-boundary': 'F31', 'pzx-empty-data-tail': 'F32',
             'tail-pop-range': 'F30'}


# ---------------------------------------------------------------------------
# case <-> blocks
# ---------------------------------------------------------------------------
def _fill(spec):
    seed, n, flag = spec
    return bytes([flag]) + random.Random(seed).randbytes(n - 1) if n else b''


def load_blocks(jblocks):
    out = []
    for b in jblocks:
        c = dict(b)
        if 'fill' in c:
            c['data'] = _fill(c.pop('fill'))
        elif 'data' in c:
            c['data'] = bytes.fromhex(c['data'])
        if 'body' in c:
            c['body'] = load_blocks(c['body'])
        out.append(c)
    return out


def all_blocks(blocks):
    for b in blocks:
        if b['k'] == 'loop':
            yield from b['body']
        else:
            yield b


# ---------------------------------------------------------------------------
# finding classes
# ---------------------------------------------------------------------------
def in_f12_class(b):
    return (b['k'] == 'data' and len(b['s0']) != len(b['s1']) and b['nbits'] % 8 != 0
            and 0 not in b['s0'] and 0 not in b['s1'])


def zero_boundary(played):
    """PZX DATA with zero-length symbol pulses whose pulse stream starts with an odd run of
    zero-length pulses after a pause, or ends with one before a tail pulse."""
    gap = g0 = False
    cur = None
    lead = trail = 0
    leading = False
    for lvl, d, role, bi in T.segments(played):
        if role == T.DATA:
            if bi != cur:
                cur, lead, leading, trail, g0 = bi, 0, True, 0, gap
            if d == 0:
                lead += leading
                trail += 1
            else:
                if leading and lead % 2 and g0:
                    return True
                leading = False
                trail = 0
                gap = False
        elif role == T.TAIL:
            if d and bi == cur and trail % 2:
                return True
            if d:
                gap = False
        elif role == T.PAUSE:
            if d:
                gap = True
        elif d:
            gap = False
    return False


def tail_pop_range(played):
    """The last pulse of the tape is a DATA tail pulse and a later block has data bytes but adds no pulse."""
    last = None
    for lvl, d, role, bi in T.segments(played):
        if d and role != T.PAUSE:
            last = (role, bi)
    return last is not None and last[0] == T.TAIL and any(_has_data(b) for b in played[last[1] + 1:])


def classes_of(played):
    out = set()
    if any(b['k'] == 'data' and b['tail'] for b in played) and tail_pop_range(played):
        out.add('tail-pop-range')
    for b in played:
        k = b['k']
        if in_f12_class(b):
            out.add(SIG_F12)
        if k == 'std' and b['data'] and 0 < b['data'][0] < 128:
            out.add('std-pilot-flag')
        if k == 'data' and b['nbits'] == 0 and b['tail']:
            out.add('pzx-empty-data-tail')
    if any(b['k'] == 'data' and (0 in b['s0'] or 0 in b['s1']) for b in played) and zero_boundary(played):
        out.add('pzx-zero-boundary')
    return out


def known_class(sig, case):
    kid = CLASS_IDS.get(sig)
    if kid is None or not isinstance(case, dict) or 'blocks' not in case:
        return None
    blocks = load_blocks(case['blocks'])
    native, _ = T.lower_pzx(blocks)
    if sig in classes_of(list(all_blocks(blocks)) + native):
        return kid
    return None


# ---------------------------------------------------------------------------
# generators
# ---------------------------------------------------------------------------
W = st.one_of(st.sampled_from([0, 0, 1, 2, 100, 855, 1710, 2168, 65535]), st.integers(0, 65535))
PAUSE_MS = st.one_of(st.sampled_from([0, 0, 1, 1000]), st.integers(0, 65535))
USED = st.integers(1, 8)
FLAG = st.one_of(st.sampled_from([0, 255]), st.integers(0, 255))
BODY = st.one_of(st.binary(max_size=5), st.binary(max_size=40), st.binary(max_size=299))
DATA = st.one_of(st.just(b''), st.builds(lambda f, b: bytes([f]) + b, FLAG, BODY))
DATA1 = st.builds(lambda f, b: bytes([f]) + b, FLAG, BODY)
TEXT = st.text('ABCabc xyz019', max_size=8)


def _d(**kw):
    return st.fixed_dictionaries(kw)


STD = _d(k=st.just('std'), data=DATA, pause=PAUSE_MS)
TURBO = _d(k=st.just('turbo'), pilot=W, npilot=st.one_of(st.sampled_from([0, 1, 2, 5, 3223]), st.integers(0, 9000)),
           sync1=W, sync2=W, zero=W, one=W, used=USED, pause=PAUSE_MS, data=DATA)
TONE = _d(k=st.just('tone'), len=W, n=st.one_of(st.sampled_from([0, 1, 2, 7]), st.integers(0, 9000)))
PULSES = _d(k=st.just('pulses'), p=st.lists(W, max_size=6))
PURE = _d(k=st.just('pure'), zero=W, one=W, used=USED, pause=PAUSE_MS, data=DATA)
DIRECT = _d(k=st.just('direct'), tps=st.one_of(st.sampled_from([1, 79, 158]), st.integers(1, 65535)), pause=PAUSE_MS,
            used=USED, data=st.binary(min_size=1, max_size=40))
PAUSE = _d(k=st.just('pause'), ms=st.one_of(st.sampled_from([1, 1000]), st.integers(1, 65535)))
STOP = _d(k=st.just('stop'), only48=st.booleans())
GROUP = _d(k=st.just('group'), name=TEXT)
GROUPEND = _d(k=st.just('groupend'))
TEXTB = _d(k=st.just('text'), text=TEXT)
ARCHIVE = _d(k=st.just('archive'), items=st.lists(st.tuples(st.sampled_from([0, 3, 255]), TEXT).map(list), max_size=3))
HW = _d(k=st.just('hw'), items=st.lists(st.tuples(st.just(0), st.integers(0, 3), st.integers(0, 3)).map(list), max_size=3))
SIGNAL = st.one_of(STD, TURBO, TONE, PULSES, PURE, DIRECT, PAUSE, TURBO, PURE)
LOOP = _d(k=st.just('loop'), n=st.integers(1, 3), body=st.lists(st.one_of(SIGNAL, TEXTB), min_size=1, max_size=3))
MISC = st.one_of(STOP, GROUP, GROUPEND, TEXTB, ARCHIVE, HW)
PORTABLE = st.sampled_from(['sig'] * 6 + ['loop', 'misc']).flatmap(lambda k: {'sig': SIGNAL, 'loop': LOOP, 'misc': MISC}[k])

DUR31 = st.one_of(W, st.sampled_from([0x7FFF, 0x8000, 0x8001, 0xFFFF, 0x10000, 70000, 0x7FFFFFFF]), st.integers(0, 0x7FFFFFFF))
PULS = _d(k=st.just('puls'), p=st.lists(st.tuples(st.sampled_from([1, 1, 1, 2, 3, 8, 0x7FFF]), DUR31, st.integers(0, 3)).map(list),
                                         max_size=5))
SYM = st.lists(W, max_size=4)
SYM_PAIR = st.one_of(st.tuples(st.lists(W, min_size=2, max_size=2), st.lists(W, min_size=2, max_size=2)),
                     st.integers(0, 4).flatmap(lambda n: st.tuples(st.lists(W, min_size=n, max_size=n),
                                                                   st.lists(W, min_size=n, max_size=n))),
                     st.tuples(SYM, SYM))
NDATA = st.builds(lambda lvl, sp, tail, used, data: {'k': 'data', 'level': lvl, 's0': sp[0], 's1': sp[1], 'tail': tail,
                                                      'nbits': max(0, 8 * (len(data) - 1) + used), 'data': data},
                  st.integers(0, 1), SYM_PAIR, st.one_of(st.sampled_from([0, 945, 1]), W), USED,
                  st.one_of(st.binary(max_size=4), st.binary(max_size=60)))
PAUS = _d(k=st.just('paus'), level=st.integers(0, 1),
          dur=st.one_of(st.sampled_from([0, 1, 3500, 3500000, 0x7FFFFFFF]), st.integers(0, 0x7FFFFFFF)))
BRWS = _d(k=st.just('brws'), text=TEXT)
NMISC = st.one_of(BRWS, BRWS, STOP)
NATIVE = st.sampled_from(['data'] * 4 + ['puls', 'puls', 'paus', 'sig', 'sig', 'misc']).flatmap(
    lambda k: {'data': NDATA, 'puls': PULS, 'paus': PAUS, 'sig': SIGNAL, 'misc': NMISC}[k])

FE = st.one_of(st.sampled_from([0, 0, 0, 1, 7, 100000]), st.integers(0, 1000000))
POL = st.sampled_from([0, 0, 0, 1, 1, 2, 3])


def _nz(v):
    return v or 1


def normalise(blocks, zeros, allow=()):
    """Steer a drawn tape around the AVOID classes (and remove zero-length pulses unless `zeros`)."""
    avoid = AVOID - set(allow)
    for b in blocks:
        k = b['k']
        if k == 'loop':
            normalise(b['body'], zeros, allow)
        if not zeros:
            for f in ('pilot', 'sync1', 'sync2', 'zero', 'one', 'len'):
                if f in b:
                    b[f] = _nz(b[f])
            if k == 'pulses':
                b['p'] = [_nz(x) for x in b['p']]
            if k == 'puls':
                b['p'] = [[c, _nz(d), f] for c, d, f in b['p']]
            if k == 'data':
                b['s0'] = [_nz(x) for x in b['s0']]
                b['s1'] = [_nz(x) for x in b['s1']]
        if k == 'std' and 'std-pilot-flag' in avoid and b['data'] and 0 < b['data'][0] < 128:
            b['data'] = bytes([b['data'][0] | 0x80]) + b['data'][1:]
        if k == 'data':
            if 'pzx-empty-data-tail' in avoid and b['nbits'] == 0:
                b['tail'] = 0
    if 'pzx-zero-boundary' in avoid:
        native, _ = T.lower_pzx(blocks)
        if zero_boundary(native):
            for b in all_blocks(blocks):
                if b['k'] == 'data':
                    b['s0'] = [_nz(x) for x in b['s0']]
                    b['s1'] = [_nz(x) for x in b['s1']]
    return _fix_f12(blocks, allow)


def _fix_f12(blocks, allow):
    if SIG_F12 not in allow:
        for b in all_blocks(blocks):
            if in_f12_class(b):
                b['nbits'] = 8 * len(b['data'])
    return blocks


def _avoided(blocks, opt, is48, allow):
    """Does the tape, as played under the options, fall into a class that the generator steers around?"""
    native, spans = T.lower_pzx(blocks)
    played = _play(native, _native_opt(spans, len(native), opt), is48)
    return bool(classes_of(played) & (AVOID - set(allow)))


@st.composite
def options(draw, n):
    if draw(st.integers(0, 3)):
        return None
    start = draw(st.integers(0, n))
    stop = draw(st.one_of(st.none(), st.integers(0, n)))
    skip = sorted(draw(st.sets(st.integers(0, max(0, n - 1)), max_size=2)))
    return {'start': start, 'stop': stop, 'skip': skip}


@st.composite
def cases(draw, kind):
    zeros = draw(st.sampled_from([False, False, True]))
    allow = []
    if kind == 'asym':
        blocks = draw(st.lists(st.one_of(ASYM, ASYM, PULS, PAUS, TONE), min_size=1, max_size=3))
        allow = [SIG_F12]
        zeros = False
        mode = 'native'
    else:
        mode = draw(st.sampled_from(['portable', 'portable', 'native', 'native', 'std']))
        if mode == 'std':
            blocks = draw(st.lists(_d(k=st.just('std'), data=DATA, pause=st.just(1000)), min_size=1, max_size=4))
        elif mode == 'portable':
            blocks = draw(st.lists(PORTABLE, min_size=1, max_size=6))
        else:
            blocks = draw(st.lists(NATIVE, min_size=1, max_size=6))
    blocks = normalise(blocks, zeros, allow)
    opt = draw(options(len(blocks)))
    is48 = draw(st.booleans())
    if _avoided(blocks, opt, is48, allow):
        for b in all_blocks(blocks):
            if b['k'] == 'data':
                b['tail'] = 0
                b['s0'] = [_nz(x) for x in b['s0']]
                b['s1'] = [_nz(x) for x in b['s1']]
        _fix_f12(blocks, allow)
    case = {'mode': mode, 'blocks': T.to_json(blocks), 'fe': draw(FE), 'pol': draw(POL),
            'opt': opt, 'is48': is48, 'info': draw(st.sampled_from([False] * 5 + [True]))}
    if allow:
        case['allow'] = allow
    return case


ASYM = st.builds(lambda lvl, s0, s1, tail, used, data: {'k': 'data', 'level': lvl, 's0': s0, 's1': s1, 'tail': tail,
                                                        'nbits': 8 * (len(data) - 1) + used, 'data': data},
                 st.integers(0, 1), st.lists(W, max_size=4), st.lists(W, max_size=4), st.sampled_from([0, 945]),
                 st.integers(1, 7), st.binary(min_size=1, max_size=8)).filter(lambda b: len(b['s0']) != len(b['s1']))

BIG = st.fixed_dictionaries({
    'kind': st.sampled_from(['std', 'turbo', 'pure']), 'seed': st.integers(0, 2 ** 32), 'flag': FLAG,
    'n': st.sampled_from([65535, 65535, 65536, 49152]), 'used': USED, 'zero': st.integers(1, 3000), 'one': st.integers(1, 3000),
    'second': st.one_of(PURE, TONE, STD), 'fe': FE, 'pol': POL})


def big_case(d):
    k = d['kind']
    n = min(d['n'], 65535) if k == 'std' else d['n']
    flag = d['flag'] | 0x80 if (k == 'std' and 0 < d['flag'] < 128 and 'std-pilot-flag' in AVOID) else d['flag']
    if k == 'std':
        b = {'k': 'std', 'pause': 1000}
    elif k == 'turbo':
        b = {'k': 'turbo', 'pilot': 2168, 'npilot': 100, 'sync1': 667, 'sync2': 735, 'zero': d['zero'], 'one': d['one'],
             'used': d['used'], 'pause': 1}
    else:
        b = {'k': 'pure', 'zero': d['zero'], 'one': d['one'], 'used': d['used'], 'pause': 0}
    b['fill'] = [d['seed'], n, flag]
    second = T.to_json(normalise([dict(d['second'])], False))
    return {'mode': 'portable', 'blocks': [b] + second, 'fe': d['fe'], 'pol': d['pol'], 'opt': None, 'is48': True, 'info': False}


# ---------------------------------------------------------------------------
# skoolkit side
# ---------------------------------------------------------------------------
def sk_run(name, data, fe, pol, start=1, stop=0, skip=(), is48=True):
    """Parse a tape image and build the edge list the way tap2sna does."""
    from skoolkit import tap2sna, tape
    try:
        blocks = tap2sna._get_tape_blocks([(name, data)], True, start, stop, tuple(skip), is48)
        blocks = [b for b in blocks if b.timings]
        for b in blocks:
            b.keys = None
        edges, dbs = tape.get_edges(blocks, fe, pol)
    except Exception as e:
        raise Violation(crash_sig(e, 'tape'), '%s: %r' % (name, e))
    return list(edges), dbs, len(blocks)


def _numbers(spans, n_total, opt):
    """Logical start/stop/skip -> 1-based file block numbers. spans[i] = (first number, count)."""
    if opt is None:
        return 1, 0, ()
    last = (spans[-1][0] + spans[-1][1]) if spans else 1

    def first(i):
        return spans[i][0] if i < len(spans) else last
    start = first(opt['start']) if opt['start'] else 1
    stop = 0 if opt['stop'] is None else first(opt['stop'])
    skip = []
    for i in opt['skip']:
        if i < len(spans):
            skip.extend(range(spans[i][0], spans[i][0] + spans[i][1]))
    return start, stop, tuple(skip)


def _play(blocks, opt, is48):
    if opt is None:
        return T.play_list(blocks, is48=is48)
    return T.play_list(blocks, opt['start'], opt['stop'], set(opt['skip']), is48)


def _native_opt(spans0, n_native, opt):
    """Logical option indexes -> indexes into the native (lowered) block list."""
    if opt is None:
        return None

    def first(i):
        return spans0[i][0] if i < len(spans0) else n_native
    skip = []
    for i in opt['skip']:
        if i < len(spans0):
            skip.extend(range(spans0[i][0], spans0[i][0] + spans0[i][1]))
    return {'start': first(opt['start']), 'stop': None if opt['stop'] is None else first(opt['stop']), 'skip': skip}


def _has_data(b):
    return b['k'] in ('std', 'turbo', 'pure', 'data') and len(b['data']) > 0


def judge(fmt, edges, dbs, played, fe, pol):
    """Oracles (3) and (4) for one format. Raises Violation (case filled in by the caller)."""
    if any(edges[i] > edges[i + 1] for i in range(len(edges) - 1)):
        raise Violation('edges-decreasing', '%s: edge times decrease' % fmt)
    zero = T.has_zero_pulse(played)
    wf, times, raw, slack = T.render(played, fe, pol, raw=not zero)
    msg = T.match(wf, edges)
    if msg:
        raise Violation('waveform', '%s: %s; edges[:12]=%r' % (fmt, msg, edges[:12]))
    if not zero:
        slack += 1 if wf['tail_last'] else 0
        if not any(edges == raw[:len(raw) - j] for j in range(slack + 1)):
            i = next((i for i, (a, b) in enumerate(zip(edges, raw)) if a != b), min(len(edges), len(raw)))
            raise Violation('edge-list', '%s: %d edges, expected %d; first difference at index %d: %r vs %r' % (
                fmt, len(edges), len(raw), i, edges[i:i + 4], raw[i:i + 4]))
    # (4) data blocks
    ref = [bi for bi, b in enumerate(played) if _has_data(b)]
    got = [d for d in dbs if d.data]
    if len(ref) != len(got):
        raise Violation('datablock-count', '%s: %d data blocks reported, tape has %d' % (fmt, len(got), len(ref)))
    last = len(edges) - 1
    for d in dbs:
        if not (0 <= d.start <= d.end <= last):
            raise Violation('datablock-range', '%s: DataBlock range %d..%d outside 0..%d' % (fmt, d.start, d.end, last))
    for bi, d in zip(ref, got):
        b = played[bi]
        if bytes(d.data) != bytes(b['data']):
            raise Violation('datablock-bytes', '%s: DataBlock bytes differ from block %d' % (fmt, bi))
        s0, s1 = T.symbols(b)
        if 0 in s0 or 0 in s1:
            if d.start != d.end:
                raise Violation('datablock-zero', '%s: block with zero-length bit pulses reported as %d..%d' % (fmt, d.start, d.end))
            continue
        if bi not in times:
            continue
        t0, t1, lvl, tail = times[bi]
        nbits = T.nbits_of(b)
        exp = []
        for bit in T.bits_of(b['data'], nbits):
            exp.extend(s1 if bit else s0)
        if tail:
            exp.append(tail)
        s, e = d.start, d.end
        durs = [edges[i + 1] - edges[i] for i in range(s, e)]
        if durs:
            durs[0] = edges[s + 1] - t0
        if durs and edges[e] > t1 and edges[e] == _run_end(wf, t1):
            # a following block that starts with a zero-length pulse continues the level of this block's
            # last pulse; skoolkit then moves this block's last edge (the same waveform)
            durs[-1] -= edges[e] - t1
            t1 = edges[e]
        popped = bool(tail) and e == last and durs == exp[:-1]
        if durs != exp and not popped:
            raise Violation('data-pulses', '%s: block %d (%d bits, %r/%r, tail %d): edges[%d..%d] give %d pulses, expected %d; '
                            'got ...%r expected ...%r' % (fmt, bi, nbits, s0, s1, tail, s, e, len(durs), len(exp), durs[-6:], exp[-6:]))
        if edges[s] > t0 or s % 2 != lvl:
            raise Violation('data-start', '%s: block %d: start index %d (time %d, level %d), data starts at %d with level %d' % (
                fmt, bi, s, edges[s], s % 2, t0, lvl))
        if edges[e] != (t1 - tail if popped else t1):
            raise Violation('data-end', '%s: block %d: end index %d is at %d, data ends at %d' % (fmt, bi, e, edges[e], t1))
        if T.prefix_free(s0, s1):
            bits, rest = T.decode_pulses(durs, s0, s1, nbits)
            if bits is None or T.pack_bits(bits) != T.truncated(b['data'], nbits) or rest != ([] if popped or not tail else [tail]):
                raise Violation('data-decode', '%s: block %d does not decode back to its bits' % (fmt, bi))


def _run_end(wf, t1):
    """End of the run of constant level that contains the pulse ending at t1."""
    import bisect
    i = bisect.bisect_right(wf['steps'], (t1 - 1, 2))
    return wf['steps'][i][0] if i < len(wf['steps']) else wf['end']


def _steps_differ(a, b):
    """Two edge lists as level step-functions over their common duration."""
    end = min(a[-1], b[-1])
    t0 = max(a[0], b[0])
    return T.clip(T.edges_to_waveform(a)['steps'], t0, end) != T.clip(T.edges_to_waveform(b)['steps'], t0, end)


def _classify(v, played_lists, case):
    """Attach the case; if the played tape is in a candidate-finding class, use the class signature."""
    cls = set()
    for p in played_lists:
        cls |= classes_of(p)
    for sig in (SIG_F12, 'pzx-zero-boundary', 'pzx-empty-data-tail', 'std-pilot-flag', 'tail-pop-range'):
        if sig in cls and not v.sig.startswith('crash'):
            return Violation(sig, '[%s] %s' % (v.sig, v.msg), case)
    return Violation(v.sig, v.msg, case)


# ---------------------------------------------------------------------------
# oracle (1): writers and parsers
# ---------------------------------------------------------------------------
def roundtrip(datas, case, s):
    from skoolkit import tape
    try:
        f = s.path('w.tap')
        tape.write_tap(f, [d for d in datas if len(d) < 65536])
        got = tape.parse_tap(f)
        raw = s.read('w.tap', True)
    except Exception as e:
        raise Violation(crash_sig(e, 'tape'), 'write_tap/parse_tap: %r' % e, case)
    exp = [d for d in datas if len(d) < 65536]
    if [bytes(b.data) for b in got.blocks] != exp or got.warnings:
        raise Violation('tap-roundtrip', 'write_tap -> parse_tap changed the blocks (warnings %r)' % (got.warnings,), case)
    if T.parse_tap(raw) != exp:
        raise Violation('tap-written', 'the reference TAP parser reads different blocks from the file written by write_tap', case)
    nonempty = [d for d in datas if d]
    try:
        f = s.path('w.pzx')
        tape.write_pzx(f, nonempty)
        got = tape.parse_pzx(f)
        raw = s.read('w.pzx', True)
    except Exception as e:
        raise Violation(crash_sig(e, 'tape'), 'write_pzx/parse_pzx: %r' % e, case)
    if [bytes(b.data) for b in got.blocks if b.data is not None] != nonempty:
        raise Violation('pzx-roundtrip', 'write_pzx -> parse_pzx changed the blocks', case)
    ver, info, native = T.parse_pzx(raw)
    if [b['data'] for b in native if b['k'] == 'data'] != nonempty or any(b['nbits'] != 8 * len(b['data']) for b in native if b['k'] == 'data'):
        raise Violation('pzx-written', 'the reference PZX parser reads different DATA blocks from the file written by write_pzx', case)
    # the written file is a sequence of ROM-timed blocks
    exp = []
    for i, d in enumerate(nonempty):
        if i:
            exp.append({'k': 'paus', 'level': 0, 'dur': 3500000})
        exp.append({'k': 'puls', 'p': [[T.std_pilot(d[0]), 2168], [1, 667], [1, 735]]})
        exp.append({'k': 'data', 'level': 1, 's0': [855, 855], 's1': [1710, 1710], 'tail': 945, 'nbits': 8 * len(d), 'data': d})
    if native != exp:
        bad = next(i for i, (a, b) in enumerate(zip(native + [None], exp + [None])) if a != b)
        flagged = any(0 < d[0] < 128 for d in nonempty)
        sig = 'std-pilot-flag' if flagged and [b for b in native if b['k'] != 'puls'] == [b for b in exp if b['k'] != 'puls'] else 'pzx-written-structure'
        if not (sig == 'std-pilot-flag' and 'std-pilot-flag' in AVOID and 'std-pilot-flag' not in case.get('allow', ())):
            raise Violation(sig, 'write_pzx: block %d is %r, expected %r' % (bad, _short(native[bad:bad + 1]), _short(exp[bad:bad + 1])), case)
    if nonempty:
        edges, dbs, _n = sk_run('w.pzx', raw, case['fe'], case['pol'])
        played = T.play_list(native)
        try:
            judge('written-pzx', edges, dbs, played, case['fe'], case['pol'])
        except Violation as v:
            raise _classify(v, [played], case)


def _short(x):
    r = repr(x)
    return r if len(r) < 300 else r[:300] + '...'


# ---------------------------------------------------------------------------
# oracle (5): tapinfo / tap2sna --tape-analysis
# ---------------------------------------------------------------------------
ARCHIVE_NAMES = {0: 'Full title', 3: 'Year of publication', 255: 'Comment(s)'}
DECOR = ('Type:', 'Program:', 'Number array:', 'Character array:', 'Bytes:', 'LINE:', 'CODE:', 'Data:')


def _len_line(data):
    return ['Length: %d' % len(data)]


def tzx_info(b):
    """-> list of (header, lines) for the TZX blocks that logical block b becomes."""
    k = b['k']
    if k == 'std':
        return [('Standard speed data (0x10)', ['Pause: %dms' % b['pause']] + _len_line(b['data']))]
    if k == 'turbo':
        return [('Turbo speed data (0x11)', ['Pilot pulse: %d' % b['pilot'], 'Sync pulse 1: %d' % b['sync1'], 'Sync pulse 2: %d' % b['sync2'],
                                              '0-pulse: %d' % b['zero'], '1-pulse: %d' % b['one'], 'Pilot length: %d pulses' % b['npilot'],
                                              'Used bits in last byte: %d' % b['used'], 'Pause: %dms' % b['pause']] + _len_line(b['data']))]
    if k == 'tone':
        return [('Pure tone (0x12)', ['Pulse length: %d T-states' % b['len'], 'Pulses: %d' % b['n']])]
    if k == 'pulses':
        n = len(b['p'])
        return [('Pulse sequence (0x13)', ['Pulse %d/%d: %d' % (i + 1, n, p) for i, p in enumerate(b['p'])])]
    if k == 'pure':
        return [('Pure data (0x14)', ['0-pulse: %d' % b['zero'], '1-pulse: %d' % b['one'], 'Used bits in last byte: %d' % b['used'],
                                      'Pause: %dms' % b['pause']] + _len_line(b['data']))]
    if k == 'direct':
        return [('Direct recording (0x15)', ['T-states per sample: %d' % b['tps'], 'Pause: %dms' % b['pause'],
                                             'Used bits in last byte: %d' % b['used'], 'Length: %d' % len(b['data'])])]
    if k == 'pause':
        return [('Pause (silence) (0x20)', ['Duration: %dms' % b['ms']])]
    if k == 'stop':
        return [('Stop the tape if in 48K mode (0x2A)', [])] if b.get('only48') else [("'Stop the tape' command (0x20)", [])]
    if k == 'group':
        return [('Group start (0x21)', ['Name: %s' % b['name']])]
    if k == 'groupend':
        return [('Group end (0x22)', [])]
    if k == 'text':
        return [('Text description (0x30)', ['Text: %s' % b['text']])]
    if k == 'archive':
        return [('Archive info (0x32)', ['%s: %s' % (ARCHIVE_NAMES[i], t) for i, t in b['items']])]
    if k == 'hw':
        return [('Hardware type (0x33)', None)]
    if k == 'loop':
        out = [('Loop start (0x24)', ['Repetitions: %d' % b['n']])]
        for c in b['body']:
            out += tzx_info(c)
        return out + [('Loop end (0x25)', [])]
    raise ValueError(k)


def pzx_info(b):
    k = b['k']
    if k == 'puls':
        p = T.normal_puls(b['p'])
        return ('Pulse sequence', ['%d x %d T-states' % (c, d) for c, d in p])
    if k == 'data':
        nbytes, used = divmod(b['nbits'], 8)
        bits = 'Bits: %d (%d bytes + %d bits)' % (b['nbits'], nbytes, used) if used else 'Bits: %d (%d bytes)' % (b['nbits'], nbytes)
        return ('Data block', [bits, 'Initial pulse level: %d' % b['level'],
                               '0-bit pulse sequence: %s (T-states)' % ', '.join(str(x) for x in b['s0']),
                               '1-bit pulse sequence: %s (T-states)' % ', '.join(str(x) for x in b['s1']),
                               'Tail pulse: %d T-states' % b['tail']] + _len_line(b['data']))
    if k == 'paus':
        return ('Pause', ['Duration: %d T-states' % b['dur'], 'Initial pulse level: %d' % b['level']])
    if k == 'brws':
        return ('Browse point', [b['text']])
    if k == 'stop':
        return ('Stop tape command', ['Mode: %s' % ('48K only' if b.get('only48') else 'Always')])
    raise ValueError(k)


def _tapinfo_blocks(out):
    blocks = []
    for line in out.split('\n'):
        m = re.match(r'^(\d+): ?(.*)$', line)
        if m:
            blocks.append((int(m.group(1)), m.group(2), []))
        elif line.startswith('  ') and blocks:
            if not line[2:].startswith(DECOR):
                blocks[-1][2].append(line[2:])
    return blocks


def _run_tool(tool, argv, case):
    r = cli.run(tool, argv)
    if r.exc is not None:
        raise Violation(crash_sig(r.exc, tool), '%s %s raised %r' % (tool, ' '.join(map(str, argv[:-1])), r.exc), case)
    if not r.ok:
        raise Violation('%s-exit' % tool, '%s exited with %r: %s' % (tool, r.code, r.err[:300]), case)
    return r.out


def check_info(fmt, fname, expected, case):
    got = _tapinfo_blocks(_run_tool('tapinfo', [fname], case))
    if [g[0] for g in got] != list(range(1, len(expected) + 1)):
        raise Violation('tapinfo-blocks', '%s: tapinfo lists blocks %r, file has %d' % (fmt, [g[0] for g in got], len(expected)), case)
    for (num, header, lines), (eh, el) in zip(got, expected):
        if header != eh:
            raise Violation('tapinfo-header', '%s: block %d is shown as %r, expected %r' % (fmt, num, header, eh), case)
        if el is None:
            continue
        if [l for l in lines] != el:
            raise Violation('tapinfo-lines', '%s: block %d (%s) shows %r, expected %r' % (fmt, num, header, lines, el), case)


def check_analysis(fmt, fname, played, fe, pol, nums, is48, case):
    """tap2sna --tape-analysis: Data lines carry the start time, level and parameters of each data block;
    every Tone/Pulse/Tail/Pause line shows the level of the reference waveform at its time."""
    start, stop, skip = nums
    argv = ['--tape-analysis', '-c', 'first-edge=%d' % fe, '-c', 'polarity=%d' % pol, '-c', 'machine=%d' % (48 if is48 else 128)]
    if start != 1:
        argv += ['--tape-start', start]
    if stop:
        argv += ['--tape-stop', stop]
    if skip:
        argv += ['--tape-skip', '%d-%d' % (skip[0], skip[-1])]
    r = cli.run('tap2sna', argv + [fname])
    if r.exc is not None:
        raise Violation(crash_sig(r.exc, 'tap2sna'), 'tap2sna --tape-analysis raised %r' % r.exc, case)
    if not r.ok:
        raise Violation('tap2sna-exit', 'tap2sna --tape-analysis exited with %r: %s' % (r.code, r.err[:300]), case)
    lines = []
    for line in r.out.split('\n')[1:]:
        m = re.match(r'^\s*(\d+)\s+([01])  (.*)$', line)
        if m:
            lines.append((int(m.group(1)), int(m.group(2)), m.group(3)))
    if any(a[0] > b[0] for a, b in zip(lines, lines[1:])):
        raise Violation('analysis-order', '%s: analysis times decrease' % fmt, case)
    wf = T.waveform(played, fe, pol)
    times = T.data_times(played, fe, pol)
    exp = []
    for bi, b in enumerate(played):
        if _has_data(b):
            s0, s1 = T.symbols(b)
            nbits = T.nbits_of(b)
            used = nbits % 8
            n = len(b['data']) - (1 if used else 0)
            desc = 'Data (%d bytes%s; %s/%s T-states)' % (n, ' + %d bits' % used if used else '', ','.join(map(str, s0)), ','.join(map(str, s1)))
            exp.append((times[bi][0], times[bi][2], desc) if bi in times else (None, None, desc))
    got = [l for l in lines if l[2].startswith('Data (')]
    STATS['analysis:run'] += 1
    STATS['analysis:data-lines'] += len(exp)
    if len(got) != len(exp) or any(g[2] != e[2] or (e[0] is not None and g[:2] != e[:2]) for g, e in zip(got, exp)):
        raise Violation('analysis-data', '%s: analysis shows %r, expected %r' % (fmt, got[:4], exp[:4]), case)
    for t, ear, desc in lines:
        m = re.match(r'^(Pulse|Tail pulse|Pause) \((\d+) T-states\)$', desc) or re.match(r'^(Tone) \((\d+) x (\d+) T-states\)$', desc)
        if not m or any(int(x) == 0 for x in m.groups()[1:]):
            continue
        lvl = T.level_at(wf, t)
        STATS['analysis:level-compared' if lvl is not None else 'analysis:level-unknown'] += 1
        if lvl is not None and lvl != ear:
            raise Violation('analysis-level', '%s: analysis line %r at %d shows EAR %d, reference level %d' % (fmt, desc, t, ear, lvl), case)


# ---------------------------------------------------------------------------
# the oracle
# ---------------------------------------------------------------------------
def _oracle(case, s):
    blocks = load_blocks(case['blocks'])
    fe, pol, opt, is48 = case['fe'], case['pol'], case['opt'], case['is48']
    mode = case['mode']
    flat = list(all_blocks(blocks))
    results = {}
    counts = {}
    played_all = []
    if True:
        # (1) writers / parsers on every byte string of the tape
        datas = [bytes(b['data']) for b in flat if 'data' in b and b['k'] != 'direct']
        roundtrip(datas, case, s)

        files = []
        pzx, native, pspans = T.to_pzx(blocks, info=case.get('pzxt', ()))
        nopt = _native_opt([(a - 2, n) for a, n in pspans], len(native), opt)
        files.append(('pzx', 'a.pzx', pzx, _play(native, nopt, is48), _numbers(pspans, None, opt)))
        if mode in ('portable', 'std'):
            tzx, tspans = T.to_tzx(blocks)
            files.append(('tzx', 'a.tzx', tzx, _play(blocks, opt, is48), _numbers(tspans, None, opt)))
        if mode == 'std':
            tap = T.to_tap(blocks)
            # TAP: every block is one file block; empty blocks are dropped by tap2sna
            tspans = [(i + 1, 1) for i in range(len(blocks))]
            files.append(('tap', 'a.tap', tap, _play(blocks, opt, is48), _numbers(tspans, None, opt)))
        for fmt, name, data, played, nums in files:
            played_all.append(played)
            edges, dbs, nsk = sk_run(name, data, fe, pol, nums[0], nums[1], nums[2], is48)
            results[fmt] = edges
            counts[fmt] = nsk
            try:
                judge(fmt, edges, dbs, played, fe, pol)
            except Violation as v:
                raise _classify(v, [played], case)
        # (2) the formats agree
        if opt is None or (not opt['start'] and not opt['skip']):
            zero = any(T.has_zero_pulse(p) for p in played_all)
            base = results['pzx']
            for fmt in ('tzx', 'tap'):
                if fmt not in results:
                    continue
                other = results[fmt]
                if _steps_differ(other, base) if zero else (other != base):
                    i = next((i for i, (a, b) in enumerate(zip(other, base)) if a != b), min(len(other), len(base)))
                    v = Violation('cross-format', '%s and pzx edge lists differ at index %d: %r vs %r (lengths %d, %d)' % (
                        fmt, i, other[i:i + 4], base[i:i + 4], len(other), len(base)))
                    raise _classify(v, played_all, case)
        # (5) what the tools print
        if case.get('info'):
            fname = s.write('a.pzx', pzx)
            check_info('pzx', fname, [('PZX header block', None)] + [pzx_info(b) for b in native], case)
            if mode in ('portable', 'std'):
                fname = s.write('a.tzx', files[1][2])
                exp = []
                for b in blocks:
                    exp += tzx_info(b)
                check_info('tzx', fname, exp, case)
            if mode == 'std':
                fname = s.write('a.tap', files[2][2])
                check_info('tap', fname, [('', _len_line(b['data'])) for b in blocks], case)
            for fmt, name, data, played, nums in files:
                sk = nums[2]
                one_range = not sk or list(sk) == list(range(sk[0], sk[-1] + 1))
                if counts[fmt] and one_range and not T.has_zero_pulse(played) and not (classes_of(played) & AVOID):
                    check_analysis(fmt, s.write(name, data), played, fe, pol % 2, nums, is48, case)
    return blocks, native, played_all


def oracle(case, rec=None, scratch=None):
    if scratch is None:
        with cli.Scratch('c11-') as s:
            blocks, native, played_all = _oracle(case, s)
    else:
        blocks, native, played_all = _oracle(case, scratch)
    if rec is not None:
        for k, v in STATS.items():
            rec.note(k, v)
        STATS.clear()
        klass, nontrivial = describe(case, blocks, native, played_all)
        rec.case(case, nontrivial, klass, sample_of(case))
    return 'ok'


def describe(case, blocks, native, played_all):
    flat = list(all_blocks(blocks))
    kl = {'mode:' + case['mode']}
    kl.update('kind:' + b['k'] for b in blocks)
    used = any(b.get('used', 8) < 8 and b.get('data') for b in flat) or any(b['k'] == 'data' and b['nbits'] % 8 for b in native)
    zero = any(T.has_zero_pulse(p) for p in played_all)
    pause0 = any(b['k'] in ('std', 'turbo', 'pure') and b['data'] and b['pause'] == 0 for b in flat)
    explicit = any(b['k'] in ('puls', 'data', 'paus') for b in flat)
    loop = any(b['k'] == 'loop' for b in blocks)
    asym = any(b['k'] == 'data' and len(b['s0']) != len(b['s1']) for b in flat)
    for name, flag in (('used<8', used), ('zero-pulse', zero), ('pause0', pause0), ('pzx-level', explicit), ('loop', loop),
                       ('asym-symbols', asym), ('polarity', case['pol'] % 2 == 1), ('first-edge', case['fe'] > 0),
                       ('options', case['opt'] is not None), ('tapinfo', bool(case.get('info'))),
                       ('big', any(len(b.get('data', b'')) > 40000 for b in flat)),
                       ('f12-class', any(in_f12_class(b) for b in flat)),
                       ('long-puls', any(b['k'] == 'puls' and any(e[1] >= 0x8000 for e in b['p']) for b in flat))):
        if flag:
            kl.add(name)
    nontrivial = len(blocks) >= 2 and (used or zero or pause0 or explicit or loop)
    return sorted(kl), nontrivial


def sample_of(case):
    r = repr(case['blocks'])
    return {'mode': case['mode'], 'fe': case['fe'], 'pol': case['pol'], 'opt': case['opt'], 'blocks': r if len(r) < 500 else r[:500] + '...'}


# ---------------------------------------------------------------------------
# plan / run / replay
# ---------------------------------------------------------------------------
def plan(tier, seed):
    quick = tier == 'quick'
    shards = []
    i = 0
    for _ in range(8 if quick else 16):
        shards.append({'kind': 'big', 'n': 2 if quick else 12, 'seed': shard_seed(seed, PROPERTY, i)})
        i += 1
    for _ in range(16 if quick else 48):
        shards.append({'kind': 'hyp', 'n': 320 if quick else 2000, 'seed': shard_seed(seed, PROPERTY, i)})
        i += 1
    for _ in range(2 if quick else 8):
        shards.append({'kind': 'asym', 'n': 150 if quick else 1500, 'seed': shard_seed(seed, PROPERTY, i)})
        i += 1
    return shards


def run_shard(shard, rec):
    # one scratch directory per shard (every file is rewritten by each case that reads it)
    with cli.Scratch('c11-') as s:
        if shard['kind'] == 'big':
            hyp_run(rec, BIG.map(big_case), lambda c: oracle(c, rec, s), shard['n'], shard['seed'], shrink=False)
        else:
            hyp_run(rec, cases(shard['kind']), lambda c: oracle(c, rec, s), shard['n'], shard['seed'])


def replay(case):
    oracle(case)


MANIFEST_ENTRY = {
    'technique': 'model-based differential: an independent logical-tape model (TAP/TZX/PZX serialisers, parsers, waveform and pulse decoder) against skoolkit parsers, writers, get_edges and tapinfo on Hypothesis-generated tapes',
    'level_text': 'Each generated logical tape is written as TAP, TZX and PZX by the reference, parsed and turned into edges by the code path tap2sna uses (with first-edge, polarity, tape start/stop/skip, 48K/128K), and compared with the reference waveform built from the TZX 1.20 / PZX 1.0 specifications, exactly (edge for edge) when no pulse has zero length and as a level step-function otherwise; every reported DataBlock range is cut back into bits by measuring edge distances; the three formats must give identical edge lists; write_tap/write_pzx output is re-read by skoolkit and by the reference parsers; tapinfo and tap2sna --tape-analysis output is checked against the generated parameters on a sixth of the cases.',
    'level_note': 'Sampled, not exhaustive: data up to 300 bytes (plus 24 tapes with 48-64 KB blocks per quick run). TZX signal levels are judged under skoolkit\'s documented alternating-pulse model (pauses hold the level, direct recordings are relative). Two narrow classes are steered around because they are known findings F31/F32 (zero-length DATA symbol pulses at block boundaries, empty DATA blocks with a tail; reproducers in corpus/C11); the classes of the repaired F12, F29 and F30 are searched again (F12, asymmetric DATA symbols with a partial last byte, in its own shards).',
}
