"""C12 - a program converted to tape by bin2tap loads back to the same memory via tap2sna.

bin2tap.main builds a TAP/PZX file from generated binaries/128K images with
generated ORG/BEGIN/END/START/STACK/CLEAR/screen/banks/7ffd/loader options;
tap2sna.main --start START simulates LOAD "" under a generated simulated-LOAD
configuration; the snapshot must hold the original bytes at the original
addresses, PC = START, SP = STACK (no CLEAR), the loading screen, the requested
128K banks and port 0x7FFD value. The load must end "PC at start address".
"""
import re

from hypothesis import strategies as st

from vlib.runner import Violation, hyp_run, shard_seed, crash_sig
from vlib import cli, gen_prog

CASE_CPU_LIMIT_S = 150       # the slowest legitimate case (a ROM-speed load under the pure Python simulator) takes under 40 s of CPU

PROPERTY = 'C12'
RULE = ('Hypothesis draws binary content (random / zeros / 0xFF / alternating worst-case edges), length, ORG, START, STACK or '
        'CLEAR (STACK - ORG in every alignment from -3 to length+4, inside the display file, or far away), optional SCR loading '
        'screen, tap/pzx; or a 128K image with --7ffd, --banks subset (incl. ","), --begin/--end/--clear/--loader; and a '
        'simulated-LOAD configuration (fast-load, accelerator, accelerate-dec-a, pause, cmio, python for small tapes and fast loads - 48K and 128K, '
        'polarity, first-edge). Non-trivial: data > 256 bytes, or data overlaps the stack bytes, or a screen/bank block is '
        'present; distinct = digest of the case.')
ASSUMPTIONS = [
    'documented limits are respected: STACK >= 16398; CLEAR >= 23952 (23972 with a screen; 23957/23977 on 128K); the 14 bytes below STACK are not compared when no CLEAR is used',
    'the 128K bank loader (39-45 bytes at --loader, default CLEAR+1) does not overlap [BEGIN,END) and START differs from the loader address; the BANKM system variable 0x5B5C is written by the loader and not compared',
    'START lies in RAM at or above 23296 and outside the stack bytes; the data does not overlap the 21-byte data loader in the printer buffer or the system variables',
    'the Python simulators are used only for tapes that load within a few seconds of tape time or with fast-load',
]

CONTENT = st.sampled_from(['rand', 'rand', 'zeros', 'ff', 'alt', 'edtail2', 'edtail3', 'edtail4'])


def make_data(kind, n, seed):
    if kind == 'zeros':
        return bytes(n)
    if kind == 'ff':
        return b'\xff' * n
    if kind == 'alt':
        return bytes((0x55, 0xAA, 0x00, 0xFF)[i % 4] for i in range(n))
    data = bytes(gen_prog.fill_bytes(seed, n, 2))
    if kind.startswith('edtail'):
        # a short run of the Z80 format's escape byte at the very end (of the binary and, with the default ORG, of a RAM page)
        k = min(n, int(kind[6:]))
        data = data[:n - k] + b'\xed' * k
    return data


@st.composite
def load_configs(draw, small, allow_python=True):
    cfg = {}
    fast = draw(st.sampled_from([1, 1, 1, 0]))
    if not fast:
        cfg['fast-load'] = 0
        cfg['accelerator'] = draw(st.sampled_from(['auto', 'auto', 'none', 'rom']))
        cfg['accelerate-dec-a'] = draw(st.integers(0, 3))
    if draw(st.integers(0, 3)) == 0:
        cfg['pause'] = 1      # pause=0 (tape never waits for the loader) is C13's subject: it may legitimately fail to load
    if draw(st.integers(0, 4)) == 0:
        cfg['cmio'] = 1
    if draw(st.integers(0, 4)) == 0:
        cfg['polarity'] = 1
    if draw(st.integers(0, 4)) == 0:
        cfg['first-edge'] = draw(st.sampled_from([0, 1, 1000, 3000]))
    if allow_python and (fast or small) and draw(st.integers(0, 4)) == 0:
        cfg['python'] = 1
    if draw(st.sampled_from([0, 0, 0, 1])):
        cfg['finish-tape'] = 1      # a bin2tap tape ends with the block that holds START: the outcome is the same
    return cfg


@st.composite
def cases48(draw, tier):
    big = tier != 'quick' and draw(st.integers(0, 9)) == 0
    n = draw(st.integers(1, 41000)) if big else draw(st.sampled_from([1, 2, 3, 4, 5, 17]) | st.integers(1, 1500))
    use_clear = draw(st.booleans())
    screen = draw(st.sampled_from([None, None, 'scr']))
    case = {'kind': '48', 'n': n, 'content': draw(CONTENT), 'seed': draw(st.integers(0, 2 ** 31)), 'ext': draw(st.sampled_from(['tap', 'pzx'])),
            'screen': screen, 'clear': None, 'stack': None}
    if use_clear:
        lo = 23972 if screen else 23952
        clear = draw(st.sampled_from([lo, lo + 1, 24575, 32767]) | st.integers(lo, 60000))
        clear = min(clear, 65535 - n - 1)
        if clear < lo:
            clear, n = lo, min(n, 65535 - lo - 1)
            case['n'] = n
        org = draw(st.sampled_from([clear + 1, clear + 1, clear + 11]) | st.integers(clear + 1, 65536 - n))
        org = min(org, 65536 - n)
        case['clear'] = clear
    else:
        org = draw(st.sampled_from([24000, 32768, 65536 - n, 16384 if n <= 6000 else 30000, 23800, 22528 if n <= 600 else 24000, 18000 if n <= 5000 else 32768]) | st.integers(23800, 65536 - n))
        org = max(16384, min(org, 65536 - n))
        if org < 23800 and org + n > 23200:
            org = 23800 if 23800 + n <= 65536 else 65536 - n     # keep clear of the loader code and system variables
        mode = draw(st.sampled_from(['default', 'align', 'align', 'inside', 'after', 'screen', 'far']))
        if mode == 'default':
            stack = None
        elif mode == 'align':
            stack = org + draw(st.integers(-3, min(n + 4, 12)))
        elif mode == 'inside':
            stack = org + draw(st.integers(0, n))
        elif mode == 'after':
            stack = org + n + draw(st.integers(0, 20))
        elif mode == 'screen':
            stack = draw(st.integers(16398, 22527))
        else:
            stack = draw(st.sampled_from([65535, 65534, 32768, 24000]))
        if stack is not None:
            stack = max(16398, min(stack, 65535))
            if 23200 <= stack <= 23800:
                stack = 23900
        if (stack if stack is not None else org) < 16398:
            stack = 16398
        case['stack'] = stack
    case['org'] = org
    # START: inside the data or elsewhere in RAM, but not inside the 14 stack bytes / loader / sysvars
    eff_stack = case['stack'] if case['stack'] is not None else org
    cands = [org, org + n - 1, org + n // 2, 32768, 49152, 65535]
    start = draw(st.sampled_from(cands) | st.integers(org, org + n - 1))
    if start < 23800 and not (org <= start < org + n):
        start = org
    if not use_clear and eff_stack - 14 <= start < eff_stack:
        start = org if not (eff_stack - 14 <= org < eff_stack) else min(65535, eff_stack + 1)
    case['start'] = start
    case['load'] = draw(load_configs(n <= 300))
    return case


@st.composite
def cases128(draw, tier):
    clear = draw(st.sampled_from([24575, 29999, 32767, 23977]) | st.integers(23977, 40000))
    nb = draw(st.integers(0, 6))
    banks = list(draw(st.permutations([0, 1, 3, 4, 6, 7]))[:nb])      # in the order drawn: the option does not ask for a sorted list
    loader = draw(st.sampled_from([None, None, 'custom']))
    begin = clear + 1 + draw(st.sampled_from([64, 64, 100, 1000]))
    end = draw(st.sampled_from([None, None, 49152, 40000 if begin < 39000 else None]))
    if loader == 'custom':
        # somewhere above CLEAR that does not overlap [begin, end)
        loader_addr = clear + 1 + draw(st.integers(0, 10))
    else:
        loader_addr = None
    start = begin + draw(st.integers(0, 200))
    default_banks = draw(st.booleans()) and nb == 6
    case = {'kind': '128', 'seed': draw(st.integers(0, 2 ** 31)), 'ext': draw(st.sampled_from(['tap', 'pzx'])), 'clear': clear, 'begin': begin, 'end': end,
            'banks': None if default_banks else banks, 'o7ffd': draw(st.sampled_from([0, 1, 3, 16, 17, 23, 7])), 'loader': loader_addr, 'start': start,
            'screen': draw(st.sampled_from([None, None, 'scr'])), 'input': draw(st.sampled_from(['bin', 'bin', 'szx']))}
    case['load'] = draw(load_configs(False))      # (python only with fast-load: from-scratch 128K memory under the pure Python simulator)
    case['load']['machine'] = 128
    return case


@st.composite
def cases(draw, tier):
    out_fmt = draw(st.sampled_from(['szx', 'z80']))
    if draw(st.integers(0, 4)) == 0:
        case = draw(cases128(tier))
    else:
        case = draw(cases48(tier))
    case['out_fmt'] = out_fmt
    # tap2sna without --start (48K only: a 128K load without --start legitimately stops in the 128K ROM's RAM-resident
    # paging routines)
    # and only with fast loading: once port reads by a loader are simulated the documented rule is 'stop at the end of the tape')
    case['no_start'] = case['kind'] == '48' and case['load'].get('fast-load', 1) == 1 and draw(st.sampled_from([False, False, True]))
    return case


def build_tape(s, case):
    """Runs bin2tap.main; returns (tape path, expectation dict)."""
    if case['kind'] == '48':
        data = make_data(case['content'], case['n'], case['seed'])
        binf = s.write('p.bin', data)
        argv = ['-o', case['org'], '-s', case['start']]
        if case['clear'] is not None:
            argv += ['-c', case['clear']]
        elif case['stack'] is not None:
            argv += ['-p', case['stack']]
        scr = None
        if case['screen']:
            scr = make_data('rand', 6912, case['seed'] ^ 0x5A5A)
            argv += ['-S', s.write('s.scr', scr)]
        tape = s.path('p.' + case['ext'])
        r = cli.run('bin2tap', argv + [binf, tape])
        exp = {'data': data, 'scr': scr}
    else:
        raw = gen_prog.fill_bytes(case['seed'], 0x20000, 2)
        banks = [bytes(raw[i * 0x4000:(i + 1) * 0x4000]) for i in range(8)]
        if case['input'] == 'bin':
            binf = s.write('p.bin', b''.join(banks))
        else:
            from skoolkit.snapshot import write_snapshot
            binf = s.path('p.szx')
            write_snapshot(binf, [list(b) for b in banks], [], ['7ffd=0'], '128K')
        argv = ['--7ffd', case['o7ffd'], '--begin', case['begin'], '--clear', case['clear'], '--start', case['start']]
        if case['end'] is not None:
            argv += ['--end', case['end']]
        if case['banks'] is not None:
            argv += ['--banks', ','.join(map(str, case['banks'])) or ',']
        if case['loader'] is not None:
            argv += ['--loader', case['loader']]
        scr = None
        if case['screen']:
            scr = make_data('rand', 6912, case['seed'] ^ 0x5A5A)
            argv += ['-S', s.write('s.scr', scr)]
        tape = s.path('p.' + case['ext'])
        r = cli.run('bin2tap', argv + [binf, tape])
        exp = {'banks': banks, 'scr': scr}
    if r.exc is not None:
        raise Violation(crash_sig(r.exc, 'bin2tap'), 'bin2tap %s raised %r' % (' '.join(map(str, argv)), r.exc), case)
    if not r.ok:
        raise Violation('bin2tap-exit', 'bin2tap exited %r: %s' % (r.code, r.err[-200:]), case)
    return tape, exp


CAPTURE = {}


def run_tap2sna(s, case, tape, load, outname='out.szx', capture=False):
    from skoolkit import tap2sna
    argv = [] if case.get('no_start') else ['--start', case['start']]
    for k, v in load.items():
        argv += ['-c', '%s=%s' % (k, v)]
    argv += ['-c', 'timeout=%d' % (90 if case['kind'] == '48' and case.get('n', 0) <= 2000 else 1800)]   # Z80 seconds of tape time; a full 128K tape runs for ~13 minutes
    out = s.path(outname)
    orig = tap2sna.get_state
    if capture:
        def wrapped(simulator, *a):
            CAPTURE['regs'] = [int(x) for x in simulator.registers[:30]]
            return orig(simulator, *a)
        tap2sna.get_state = wrapped
    try:
        r = cli.run('tap2sna', argv + [tape, out])
    finally:
        tap2sna.get_state = orig
    if r.exc is not None:
        raise Violation(crash_sig(r.exc, 'tap2sna'), 'tap2sna %s raised %r' % (' '.join(map(str, argv)), r.exc), case)
    if not r.ok:
        raise Violation('tap2sna-exit', 'tap2sna exited %r: %s' % (r.code, r.err[-300:]), case)
    m = re.search(r'Simulation stopped \(([^)]*)\)', r.out)
    return out, (m.group(1) if m else None), r.out


def oracle(case, rec=None):
    with cli.Scratch('c12-') as s:
        tape, exp = build_tape(s, case)
        out, reason, stdout = run_tap2sna(s, case, tape, case['load'], 'out.' + case.get('out_fmt', 'szx'))
        # without --start the simulation stops when the tape has finished and the program counter is in RAM: for a
        # bin2tap tape that is the moment the loader hands over to START
        if reason != ('PC in RAM' if case.get('no_start') else 'PC at start address'):
            raise Violation('load-did-not-reach-start:%s' % (reason or 'none'), 'tap2sna %r ended with %r; stdout tail: %s' % (case['load'], reason, stdout[-200:]), case)
        from skoolkit.snapshot import Snapshot
        try:
            sn = Snapshot.get(out)
        except Exception as x:
            raise Violation(crash_sig(x, 'read'), 'the snapshot written by tap2sna cannot be read back: %r' % x, case)
        check_snapshot(case, exp, sn)
    if rec is not None:
        if case['kind'] == '48':
            eff = case['stack'] if case['stack'] is not None else case['org']
            overlap = case['clear'] is None and case['org'] < eff + 0 and eff - 4 < case['org'] + case['n'] and eff > case['org'] - 0
            nt = case['n'] > 256 or overlap or bool(case['screen'])
            klass = ['48:' + ('clear' if case['clear'] is not None else 'stack'), case['ext']]
            if overlap:
                klass.append('stack-overlaps-data')
        else:
            nt = True
            klass = ['128:banks=%d' % (6 if case['banks'] is None else len(case['banks'])), case['ext']]
        if case['screen']:
            klass.append('screen')
        klass.append('load:' + ('fast' if case['load'].get('fast-load', 1) else 'sim') + (':python' if case['load'].get('python') else '') + (':cmio' if case['load'].get('cmio') else ''))
        rec.case(repr(sorted(case.items(), key=lambda x: x[0])), nt, klass, case)


def check_snapshot(case, exp, sn):
    if sn.pc != case['start']:
        raise Violation('pc', 'snapshot PC=%d, START=%d' % (sn.pc, case['start']), case)
    if case['kind'] == '48':
        ram = sn.ram()
        org, n = case['org'], case['n']
        excl = set()
        if case['clear'] is None:
            stack = case['stack'] if case['stack'] is not None else org
            if sn.sp != stack:
                raise Violation('sp', 'snapshot SP=%d, STACK=%d' % (sn.sp, stack), case)
            excl = set(range(stack - 14, stack))
        got = bytes(ram[org - 16384:org - 16384 + n])
        bad = [org + i for i in range(n) if got[i] != exp['data'][i] and org + i not in excl]
        if bad:
            raise Violation('data-mismatch', '%d byte(s) differ after loading, first at %s (ORG=%d, STACK=%r, CLEAR=%r)' % (len(bad), bad[:4], org, case['stack'], case['clear']), case)
        if exp['scr'] is not None:
            scr = bytes(ram[:6912])
            # bytes of the screen covered by the program itself or by the stack are not screen any more. With the stack
            # inside the display file, a frame interrupt accepted between two blocks (the ROM re-enables interrupts
            # in SA/LD-RET) lets the ROM's interrupt routine push up to ~18 more bytes below the loader's own 14
            # (thorough-tier case: STACK=22527, bytes 22509-22512; fast-load only - a matter of frame timing)
            excl_scr = excl | (set(range(stack - 32, stack)) if case['clear'] is None else set())
            badscr = [16384 + i for i in range(6912) if scr[i] != exp['scr'][i] and not (org <= 16384 + i < org + n) and 16384 + i not in excl_scr]
            if badscr:
                raise Violation('screen-mismatch', '%d screen byte(s) differ, first at %s' % (len(badscr), badscr[:4]), case)
    else:
        ram = sn.ram(-1)
        banks = exp['banks']
        if sn.out7ffd != case['o7ffd']:
            raise Violation('7ffd', 'snapshot port 0x7FFD value %d, requested %d' % (sn.out7ffd, case['o7ffd']), case)
        want = [0, 1, 3, 4, 6, 7] if case['banks'] is None else case['banks']
        for b in want:
            if bytes(ram[b * 0x4000:(b + 1) * 0x4000]) != banks[b]:
                raise Violation('bank-mismatch', 'RAM bank %d differs from the input' % b, case)
        begin = case['begin']
        end = case['end'] if case['end'] is not None else 49152
        mem = banks[5] + banks[2]
        got = bytes(ram[5 * 0x4000:6 * 0x4000]) + bytes(ram[2 * 0x4000:3 * 0x4000])
        bad = [16384 + i for i in range(begin - 16384, end - 16384) if got[i] != mem[i] and 16384 + i != 0x5B5C]
        if bad:
            raise Violation('main-block-mismatch', '%d byte(s) of the main block differ, first at %s (BEGIN=%d END=%d)' % (len(bad), bad[:4], begin, end), case)


def plan(tier, seed):
    n = 640 if tier == 'quick' else 12000
    nsh = 16 if tier == 'quick' else 64
    return [{'kind': 'hyp', 'tier': tier, 'n': n // nsh, 'seed': shard_seed(seed, PROPERTY, i)} for i in range(nsh)]


def run_shard(shard, rec):
    hyp_run(rec, cases(shard['tier']), lambda c: oracle(c, rec), shard['n'], shard['seed'], shrink_budget_s=45.0)


def replay(case):
    oracle(case)


def known_class(sig, case):
    return None


MANIFEST_ENTRY = {
    'technique': 'round-trip property through the real CLIs (bin2tap -> tap2sna simulated LOAD) over Hypothesis-generated binaries, option combinations and load configurations',
    'level_text': 'Each generated binary / 128K image is converted by bin2tap.main (tap and pzx; ORG/START/STACK/CLEAR in all documented combinations incl. every alignment of the stack against the data; loading screen; --7ffd/--banks/--begin/--end/--loader) and loaded by tap2sna.main under a generated simulated-LOAD configuration; the snapshot must contain every original byte (bar the documented stack bytes), PC = START, SP = STACK, the screen, each requested bank and the 0x7FFD value, and the load must stop at the start address (or, without --start, hand over at START under the default stop rule). A load that burns more than 150 s of CPU is reported as non-terminating.',
    'level_note': 'Sampled: data up to 1.5 KB in the quick tier (41 KB with fast-load in thorough). Generator preconditions come from the bin2tap documentation (see assumptions).',
}
