"""C04 - skool2asm, skool2bin and the macro-visible snapshot agree on the assembled image.

O1  ASM text written by skool2asm.main, re-assembled (labels, ORG, EQU resolved
    by vlib/asmref) == file written by skool2bin.main in the paired mode.
O2  metamorphic: the image is unchanged by -D/-H, -l/-u, -c, by stripping
    @nowarn, by renaming/removing @label, and by stripping @keep in files that
    relocate nothing.
O3  a planted '#FOR(a,b,,1)(n,#PEEKn)' comment expands (in skool2asm output) to
    the skool2bin image over [a,b].
"""
import re

from hypothesis import strategies as st

from vlib.runner import Violation, hyp_run, shard_seed, crash_sig
from vlib import cli, gen_skool, asmref

PROPERTY = 'C04'
RULE = ('Two generators: (A) skool files written by sna2skool from C01\'s images/control files (all instruction forms, '
        'DEFB/DEFM/DEFS/DEFW with strings, characters, all bases) with @start/@org prepended; (B) hand-built skool files whose '
        'operands are addresses of other instructions, 8-bit values that equal an address, strings with digits and ";", with a '
        'directive layer: @label, @keep, @nowarn, @org, @equ, @if({asm}/{fix}), @defb/@defs/@defw, and @isub/@ssub/@rsub/@ofix/'
        '@bfix/@rfix in replace, >, +, |, /, !addr, label: and begin/else/end block forms. Each file is converted in a drawn mode '
        'pair (7 modes) and under drawn -D/-H, -l/-u, -c. Non-trivial: a sub/fix directive takes effect in the mode, or an '
        'operand is replaced by a label, or a base/case conversion changes text; distinct = digest of (file, mode, options).')
ASSUMPTIONS = [
    'size-changing / inserting / removing directives are written only as @rsub/@rfix (the modes documented to move code); @isub/@ssub/@ofix/@bfix get same-size replacements',
    'in relocating files every instruction that an operand refers to carries a label (an unlabelled target is left as a literal by skool2asm - with a warning - but relocated by skool2bin: the documented reason to label it)',
    'instructions carrying @bytes are compared by length only (ASM text cannot express a variant encoding)',
    'a > or + directive is not attached to an instruction that an earlier | overwrite removes',
    'O3 (#PEEK): a mismatch in @rsub/@rfix mode on a file that inserts, overwrites or removes instructions is known finding F5; a mismatch confined to the bytes of an address-less replacement line of an applicable -begin/+else/+end block is known finding F49; everywhere else it is a violation',
]

# (name, skool2asm options, skool2bin options, asm level, fix level)
MODES = [
    ('none', [], [], 0, 0),
    ('isub', [], ['-i'], 1, 0),
    ('ssub', ['-s'], ['-s'], 2, 0),
    ('rsub', ['-r'], ['-r'], 3, 1),
    ('ofix', ['-f', '1'], ['-i', '-o'], 1, 1),
    ('bfix', ['-f', '2'], ['-i', '-b'], 1, 2),
    ('rfix', ['-f', '3'], ['-R'], 3, 3),
]
SIZES = {'nop': 1, 'lda': 2, 'ldhl': 3, 'jp': 3, 'call': 3, 'jr': 2, 'ret': 1, 'ldhlm': 3, 'defb': 2, 'defw': 2, 'ldb': 2, 'djnz': 2, 'ldix': 4,
         'defm': 3, 'defs': 4, 'cpn': 2, 'ldbc': 3, 'defmc': 7}
KINDS = sorted(SIZES)


@st.composite
def hand_files(draw):
    ch = lambda xs: draw(st.sampled_from(xs))
    org = ch([32768, 40000, 24576, 65000])
    count = draw(st.integers(4, 14))
    templ = [ch(KINDS) for _ in range(count)]
    nbreaks = draw(st.integers(0, 2))
    breaks = set(draw(st.lists(st.integers(1, count - 1), max_size=nbreaks)))
    # gaps between entries, bridged by an @org directive; only in files whose directives move nothing (what an @org
    # in the middle of relocated code means is not documented)
    gaps = bool(breaks) and ch([0, 0, 1])
    gap_ranges = []
    addrs = []
    a = org
    for i, k in enumerate(templ):
        if gaps and i in breaks:
            g = ch([1, 3, 7, 256] if org < 60000 else [1, 3, 7])
            gap_ranges.append([a, a + g])
            a += g
        addrs.append(a)
        a += SIZES[k]
    end = a

    def anyaddr():
        return ch(addrs + [org - 1, end, end + 5, 5, 255, 256])

    def near(x):
        return ch([y for y in addrs if -100 < y - x < 100])

    def mkop(k, x):
        if k == 'nop':
            return 'NOP'
        if k == 'lda':
            return 'LD A,%s' % ch([0, 5, x % 256, 255, '"a"', '$0F'])
        if k == 'cpn':
            return 'CP %s' % ch([x % 256, 1, '%101', '"\\""'])
        if k == 'ldb':
            return 'LD B,%s' % ch(['$0F', '%101', '10', str(x % 256)])
        if k == 'ldhl':
            return 'LD HL,%s' % anyaddr()
        if k == 'ldbc':
            return 'LD BC,%s' % ch([str(anyaddr()), '$%04X' % anyaddr(), '%d+1' % anyaddr()])
        if k == 'jp':
            return 'JP %s%s' % (ch(['', 'NZ,', 'C,']), anyaddr())
        if k == 'call':
            return 'CALL %s' % anyaddr()
        if k == 'jr':
            return 'JR %s' % near(x)
        if k == 'djnz':
            return 'DJNZ %s' % near(x)
        if k == 'ret':
            return 'RET'
        if k == 'ldhlm':
            return 'LD (%s),HL' % anyaddr()
        if k == 'defb':
            return 'DEFB %s,"%s"' % (ch([1, 200, '$C0']), ch(['a', ';', '1', 'b']))
        if k == 'defm':
            return 'DEFM "%s"' % ch(['a;b', '123', 'x y', '4;5'])
        if k == 'defmc':
            # a number inside a string is text, also after a comma and when it equals the address of a labelled instruction
            return ch(['DEFM "a,%05d"', 'DEFB "(,%05d"', 'DEFM "%05d,",65']) % anyaddr()
        if k == 'defs':
            return 'DEFS 4%s' % ch(['', ',1', ',"x"'])
        if k == 'defw':
            return 'DEFW %s' % anyaddr()
        return 'LD (IX+%s),%s' % (ch([0, 2, 127]), ch([0, 2, 200]))

    def randop(x):
        return mkop(ch(KINDS), x)

    def samesize(k, x):
        return mkop(ch([kk for kk in KINDS if SIZES[kk] == SIZES[k]]), x)

    lines = ['@start', '@org']
    allmodes = ['isub', 'ssub', 'rsub', 'ofix', 'bfix', 'rfix']
    rmodes = ['rsub', 'rfix']
    relocating = False
    inplace_only = True
    removed = set()
    feats = set()
    i = 0
    for i, (k, x) in enumerate(zip(templ, addrs)):
        if i == 0 or i in breaks:
            if i:
                lines.append('')
            if gaps and i in breaks:
                lines.append('@org')
                feats.add('gap+org')
            lines.append('; Entry at %d' % x)
            if draw(st.integers(0, 5)) == 0:
                lines.append('@equ=CONST%d=%d' % (x, ch([1, 255, x])))
                feats.add('equ')
            ctl = 'c'
        else:
            ctl = ' '
        lines.append('@label=L%d' % x)
        r = draw(st.integers(0, 99))
        m, rm = ch(allmodes), ch(rmodes)
        if x in removed or (gaps and 15 <= r < 46):
            r = 99
        # directive chains (asm.rst, @bfix): '>' directives stacked before, and plain / '|' directives chained after,
        # another directive on the same instruction
        chain_after = []
        if r < 42 and not gaps and x not in removed and ch([0, 0, 0, 1]):
            for _ in range(ch([1, 1, 2])):
                lines.append('@%s=>%s' % (rm, randop(x)))
            relocating = True
            inplace_only = False
            feats.add('chain:prepend')
        if r < 42 and not gaps and ch([0, 0, 0, 1]):
            chain_after = [randop(x) for _ in range(ch([1, 1, 2]))]
        if r < 15:
            lines.append('@%s=%s' % (m, samesize(k, x)))
            feats.add('sub:' + m)
            if chain_after and i + 1 < count:
                # replacement followed by instructions inserted after it
                lines.extend('@%s=%s' % (rm, op) for op in chain_after)
                relocating = True
                inplace_only = False
                feats.add('chain:replace+insert')
        elif r < 20:
            lines.append('@%s=%s' % (rm, randop(x)))
            relocating = True
            inplace_only = False
            feats.add('sub:' + rm)
            if chain_after and i + 1 < count:
                lines.extend('@%s=%s' % (rm, op) for op in chain_after)
                feats.add('chain:replace+insert')
        elif r < 28:
            lines.append('@%s=>%s' % (rm, randop(x)))
            relocating = True
            inplace_only = False
            feats.add('insert-before')
        elif r < 36 and i + 1 < count:
            lines.append('@%s=+%s' % (rm, randop(x)))
            relocating = True
            inplace_only = False
            feats.add('insert-after')
            if chain_after:
                lines.extend('@%s=%s' % (rm, op) for op in chain_after)
                feats.add('chain:after+insert')
        elif r < 42:
            ops = [randop(x)] + (chain_after if i + 1 < count else [])
            lines.extend('@%s=|%s' % (rm, op1) for op1 in ops)
            relocating = True
            inplace_only = False
            feats.add('overwrite')
            if len(ops) > 1:
                feats.add('chain:overwrite')
            # instructions wholly or partly covered by the overwrite (chain) are removed
            size = sum(_op_size(op1) for op1 in ops)
            for y in addrs:
                if x < y < x + size:
                    removed.add(y)
        elif r < 46 and 0 < i < count - 1 and x not in removed:
            lines.append('@%s=!%d' % (rm, x))
            relocating = True
            inplace_only = False
            feats.add('remove')
        elif r < 50:
            lines.append('@%s=LAB%d: %s' % (m, x, samesize(k, x)))
            feats.add('label-prefix')
        elif r < 54:
            lines.append('@%s-begin' % m)
            lines.append('%s%05d %s ; comment' % (ctl, x, mkop(k, x)))
            lines.append('@%s+else' % m)
            # the replacement of an entry's first instruction keeps the control character and address
            lines.append(('%s%05d %s' % (ctl, x, samesize(k, x))) if ctl == 'c' else ('       %s' % samesize(k, x)))
            lines.append('@%s+end' % m)
            feats.add('block:' + m)
            continue
        elif r < 57:
            # alternative delimiters: the operation may contain commas. The condition reads the mode fields, including
            # the part of the mode that is implied (-r implies @ofix, -f 3 implies @rsub); the wrapped directive is one
            # that applies in every mode (isub) or in the mode the condition selects
            field, op_, lim = ch(['asm', 'asm', 'fix']), ch(['>', '>=', '==', '<', '!=']), ch([0, 1, 2, 3])
            lines.append('@if({%s}%s%d)//%s=%s//' % (field, op_, lim, ch(['isub', 'isub', 'ssub', 'ofix']), samesize(k, x)))
            feats.add('if')
            feats.add('if:' + field)
        if draw(st.integers(0, 9)) == 0:
            lines.append('@nowarn')
            feats.add('nowarn')
        if draw(st.integers(0, 9)) == 0:
            lines.append('@KEEP@')
        lines.append('%s%05d %s ; comment' % (ctl, x, mkop(k, x)))
    if draw(st.integers(0, 4)) == 0:
        lines.append('')
        lines.append('; Data')
        lines.append(ch(['@defb=%d:1,2,"a;"' % end, '@defb=%d:1,2,"a;"' % end, '@defs=%d:3,5' % end, '@defw=%d:%d,$1234' % (end, org)]))
        lines.append('@label=L%d' % end)
        lines.append('b%05d %s' % (end, ch(['DEFB 0,0,0,0', 'DEFB 0,0,0,0', 'DEFS 4', 'DEFS 4,0', 'DEFW 0,0'])))
        feats.add('defb-directive')
        end += 4
    # @keep only in files that relocate nothing (in relocating files it exists to make the bytes differ)
    if relocating:
        lines = [l for l in lines if l != '@KEEP@']
    else:
        if '@KEEP@' in lines:
            feats.add('keep')
        lines = ['@keep' if l == '@KEEP@' else l for l in lines]
    return {'source': 'hand', 'skool': '\n'.join(lines) + '\n', 'org': org, 'end': end, 'relocating': relocating, 'inplace': inplace_only, 'feats': sorted(feats), 'gaps': gap_ranges}


_ASM = None


def _asm():
    global _ASM
    if _ASM is None:
        from skoolkit.z80 import Assembler
        _ASM = Assembler()
    return _ASM


def _op_size(op):
    if op.upper().startswith(('JR ', 'DJNZ ')):
        return 2
    return _asm().get_size(op, 32768) or 1


@st.composite
def sna_files(draw):
    start, data = draw(gen_skool.images(200))
    if start < 16384:
        start = 32768
    o = draw(gen_skool.options(rst=False))
    o['wrap'] = 0
    # ED63/ED6B variants are one byte longer than the canonical encoding an assembler produces for the same text:
    # ASM text cannot reproduce them (that is what @bytes is for), so they are left out here (C01/C03 cover them)
    if any(x in o['opcodes'] for x in ('ED63', 'ED6B', 'ALL')):
        o['opcodes'] = 'NEG,IM,RETN,XYCB,ED70,ED71'
    if start + len(data) > 65536:
        start = 65536 - len(data)
    lines, info = draw(gen_skool.plans(start, data, o, with_ignored=False))
    return {'source': 'sna2skool', 'start': start, 'data': bytes(data).hex(), 'opts': o, 'ctl': '\n'.join(lines) + '\n'}


@st.composite
def cases(draw, tier):
    if draw(st.integers(0, 2)) == 0:
        f = draw(sna_files())
    else:
        f = draw(hand_files())
    f['mode'] = draw(st.integers(0, len(MODES) - 1))
    f['base'] = draw(st.sampled_from([[], ['-D'], ['-H']]))
    f['case'] = draw(st.sampled_from([[], ['-l'], ['-u']]))
    f['labels'] = draw(st.sampled_from([[], ['-c']]))
    # a directive-stripping/renaming variant only where the file has that directive (sna2skool output has none)
    sk = f.get('skool', '')
    metas = ['options']
    if '@nowarn' in sk:
        metas += ['nowarn', 'nowarn']
    if '@label=' in sk:
        metas.append('label')
    if '@keep' in sk and not f.get('relocating'):
        metas += ['keep', 'keep']
    f['meta'] = draw(st.sampled_from(metas))
    return f


def make_skool(s, case):
    if case['source'] == 'hand':
        return case['skool']
    data = bytes.fromhex(case['data'])
    binf = s.write('in.bin', data)
    r = cli.run('sna2skool', gen_skool.sna2skool_argv(case['opts']) + ['-o', case['start'], '-c', s.write('in.ctl', case['ctl']), binf])
    if not r.ok or r.warnings():
        return None
    return '@start\n@org\n' + r.out


def image_from_skool2bin(s, skool, bopts, case, name='x'):
    skf = s.write(name + '.skool', skool)
    r = cli.run('skool2bin', list(bopts) + [skf, s.path(name + '.bin')])
    if r.exc is not None:
        raise Violation(crash_sig(r.exc, 'skool2bin'), 'skool2bin %s raised %r' % (bopts, r.exc), case)
    if not r.ok:
        raise Violation('skool2bin-exit', 'skool2bin exited %r: %s' % (r.code, r.err[-200:]), case)
    m = re.search(r'start=(\d+), end=(\d+)', r.err)
    got = s.read(name + '.bin', True)
    base = int(m.group(1))
    return {base + i: b for i, b in enumerate(got)}, r


def image_from_skool2asm(s, skool, aopts, case, name='x'):
    from skoolkit.z80 import eval_int
    skf = s.write(name + 'a.skool', skool)
    r = cli.run('skool2asm', ['-q'] + list(aopts) + [skf])
    if r.exc is not None:
        raise Violation(crash_sig(r.exc, 'skool2asm'), 'skool2asm %s raised %r' % (aopts, r.exc), case)
    if not r.ok:
        raise Violation('skool2asm-exit', 'skool2asm exited %r: %s' % (r.code, r.err[-200:]), case)
    try:
        mem = asmref.assemble(r.out, _asm(), eval_int)
    except asmref.AsmError as x:
        raise Violation('asm-unassemblable', 'ASM written by skool2asm %s cannot be assembled: %s' % (aopts, x), case)
    return mem, r


def oracle(case, rec=None):
    name, aopt, bopt, asm_level, fix_level = MODES[case['mode']]
    with cli.Scratch('c04-') as s:
        skool = make_skool(s, case)
        if skool is None:
            if rec is not None:
                rec.note('precondition:sna2skool-warning')
            return
        if name == 'none' and ('@isub' in skool or '@if(' in skool):      # skool2asm has no mode below @isub ({asm} >= 1)
            name, aopt, bopt, asm_level, fix_level = MODES[1]
        img, rb = image_from_skool2bin(s, skool, bopt, case)
        aopts = list(aopt) + case['base'] + case['case'] + case['labels']
        mem, ra = image_from_skool2asm(s, skool, aopts, case)
        bytes_addrs = _bytes_directive_addrs(skool)
        # skool2bin fills a gap between entries with zeros; the ASM has an ORG there and defines nothing
        gap_addrs = set(a for lo_, hi_ in case.get('gaps', ()) for a in range(lo_, hi_))
        diff = [(a, img.get(a), mem.get(a)) for a in sorted(set(img) | set(mem)) if img.get(a) != mem.get(a) and not _in_bytes(a, bytes_addrs)
                and not (a in gap_addrs and img.get(a) == 0 and a not in mem)]
        if diff:
            raise Violation('asm-vs-bin:%s' % name, 'mode %s (skool2asm %s / skool2bin %s): image differs at %s (address, skool2bin, re-assembled ASM)' % (
                name, ' '.join(aopts), ' '.join(bopt), diff[:5]), case)
        # O2 metamorphic variants
        meta = case['meta']
        if meta == 'options':
            for extra in ([], ['-D'], ['-H'], ['-l'], ['-u'], ['-c']):
                if extra == case['base'] + case['case'] + case['labels']:
                    continue
                mem2, _ = image_from_skool2asm(s, skool, list(aopt) + extra, case, 'o')
                if mem2 != mem:
                    bad = [(a, mem.get(a), mem2.get(a)) for a in sorted(set(mem) | set(mem2)) if mem.get(a) != mem2.get(a)][:5]
                    raise Violation('metamorphic:option%s' % ''.join(extra), 'image changes with skool2asm %s: %s' % (extra, bad), case)
        else:
            skool2 = None
            if meta == 'nowarn' and '@nowarn' in skool:
                skool2 = '\n'.join(l for l in skool.split('\n') if not l.startswith('@nowarn'))
            elif meta == 'label' and '@label=' in skool:
                skool2 = re.sub(r'@label=L(\d+)', r'@label=RENAMED_\1', skool)
            elif meta == 'keep' and '@keep' in skool and not case.get('relocating'):
                skool2 = '\n'.join(l for l in skool.split('\n') if not l.startswith('@keep'))
            if skool2 is not None:
                if rec is not None:
                    rec.note('O2:%s:applied' % meta)
                img2, _ = image_from_skool2bin(s, skool2, bopt, case, 'm')
                mem2, _ = image_from_skool2asm(s, skool2, aopts, case, 'm')
                if img2 != img:
                    bad = [(a, img.get(a), img2.get(a)) for a in sorted(set(img) | set(img2)) if img.get(a) != img2.get(a)][:5]
                    raise Violation('metamorphic:%s:skool2bin' % meta, 'skool2bin image changes when %s directives are %s: %s' % (meta, 'renamed' if meta == 'label' else 'stripped', bad), case)
                if mem2 != mem:
                    bad = [(a, mem.get(a), mem2.get(a)) for a in sorted(set(mem) | set(mem2)) if mem.get(a) != mem2.get(a)][:5]
                    raise Violation('metamorphic:%s:skool2asm' % meta, 'ASM image changes when %s directives are %s: %s' % (meta, 'renamed' if meta == 'label' else 'stripped', bad), case)
        # O3 #PEEK
        if True:
            lo, hi = min(img), max(img)
            hi = min(hi, lo + 255)
            probe = '; PEEK #FOR(%d,%d,,1)(n,#PEEKn)' % (lo, hi)
            lines = skool.split('\n')
            idx = next((i for i, l in enumerate(lines) if re.match(r'[cbtwsug](\$[0-9A-Fa-f]{4}|[0-9 ]{4}[0-9]) ', l)), None)
            if idx is None and rec is not None:
                rec.note('O3:no-entry-line')
            if idx is not None:
                # as the first line of the description of the first entry
                h = idx
                while h > 0 and (lines[h - 1].startswith(';') or lines[h - 1].startswith('@')):
                    h -= 1
                hdr = lines[h:idx]
                first_c = next((i for i, l in enumerate(hdr) if l.startswith(';')), None)
                if first_c is None:
                    first_c = len([l for l in hdr if l.split('=')[0] in ('@start', '@org', '@equ', '@set-crlf', '@writer')])
                lead, hdr = hdr[:first_c], hdr[first_c:]
                title = [l for l in hdr if l.startswith(';')]
                directives = [l for l in hdr if l.startswith('@')]
                new = lead + (title[:1] or ['; T']) + [';', probe] + directives
                sk3 = '\n'.join(lines[:h] + new + lines[idx:])
                r3 = cli.run('skool2asm', ['-q', '-w'] + list(aopt) + [s.write('p.skool', sk3)])
                if r3.exc is not None:
                    raise Violation(crash_sig(r3.exc, 'skool2asm'), 'skool2asm raised %r with a #PEEK probe' % r3.exc, case)
                m = re.search(r'^; PEEK((?: [\d,]+)?(?:\n; [\d,]+)*)$', r3.out, re.M)
                if not r3.ok:
                    raise Violation('skool2asm-exit:probe', 'skool2asm exited %r with a #PEEK probe: %s' % (r3.code, r3.err[-200:]), case)
                if m is None and rec is not None:
                    rec.note('O3:probe-not-found')
                if r3.ok and m:
                    if rec is not None:
                        rec.note('O3:compared')
                    txt = m.group(1).replace('\n; ', '').replace(' ', '')
                    vals = [int(v) for v in txt.split(',') if v.strip().isdigit()]
                    want = [img.get(a, 0) for a in range(lo, hi + 1)]
                    if vals != want:
                        bad = [i for i in range(max(len(vals), len(want))) if i >= len(vals) or i >= len(want) or vals[i] != want[i]]
                        owned = _addressless_ranges(skool, asm_level, fix_level)
                        outside = [i for i in bad if lo + i not in owned]
                        k = (outside or bad)[0]
                        sig = 'peek-vs-bin:%s' % name
                        if case['source'] == 'hand' and not case.get('inplace') and asm_level >= 3:
                            sig = 'peek-vs-bin:inserted-or-removed-instructions'
                        elif not outside:
                            sig = 'peek-vs-bin:addressless-replacement'
                        raise Violation(sig, '#PEEK sees %s at %d, skool2bin image has %s (mode %s)' % (vals[k] if k < len(vals) else None, lo + k, want[k] if k < len(want) else None, name), case)
    if rec is not None:
        feats = case.get('feats', [])
        effective = any(f.startswith(('sub:', 'block:')) and _mode_applies(f.split(':')[1], asm_level, fix_level) for f in feats) or \
            (any(f in feats for f in ('insert-before', 'insert-after', 'overwrite', 'remove')) and asm_level >= 3)
        nt = effective or bool(case['base'] or case['case'] or case['labels']) or 'L' in ra.out
        klass = ['src:' + case['source'], 'mode:' + name, 'meta:' + case['meta']] + ['feat:' + f for f in feats]
        rec.case(repr(sorted((k, v) for k, v in case.items() if k != 'feats')), nt, klass,
                 {'mode': name, 'asm_opts': aopts, 'bin_opts': bopt, 'skool': (case.get('skool') or case.get('ctl') or '')[:600]})


def _mode_applies(m, asm_level, fix_level):
    return {'isub': asm_level >= 1, 'ssub': asm_level >= 2, 'rsub': asm_level >= 3, 'ofix': fix_level >= 1, 'bfix': fix_level >= 2, 'rfix': fix_level >= 3}[m]


def _addressless_ranges(skool, asm_level, fix_level):
    """Addresses assembled (by skool2bin) from an address-less instruction line that replaces, in an applicable
    '@M-begin ... @M+else ... @M+end' block, an instruction line that has an address."""
    owned = set()
    for m in re.finditer(r'^@(\w+)-begin\n.(\d{5}) .*\n@\1\+else\n {7}(\S.*)\n@\1\+end$', skool, re.M):
        if _mode_applies(m.group(1), asm_level, fix_level):
            a = int(m.group(2))
            owned.update(range(a, a + _op_size(m.group(3))))
    return owned


def _bytes_directive_addrs(skool):
    out = []
    lines = skool.split('\n')
    for i, l in enumerate(lines):
        if l.startswith('@bytes='):
            n = l.count(',') + 1
            for j in range(i + 1, min(i + 4, len(lines))):
                m = re.match(r'^[ a-z*]\$?([0-9A-Fa-f]{4,5}) ', lines[j])
                if m:
                    t = lines[j][1:6].strip()
                    a = int(t[1:], 16) if t.startswith('$') else int(t)
                    out.append((a, a + n))
                    break
    return out


def _in_bytes(a, ranges):
    return any(x <= a < y for x, y in ranges)


def plan(tier, seed):
    n = 12000 if tier == 'quick' else 200000
    nsh = 16 if tier == 'quick' else 64
    return [{'kind': 'hyp', 'tier': tier, 'n': n // nsh, 'seed': shard_seed(seed, PROPERTY, i)} for i in range(nsh)]


def run_shard(shard, rec):
    hyp_run(rec, cases(shard['tier']), lambda c: oracle(c, rec), shard['n'], shard['seed'])


def replay(case):
    oracle(case)


def known_class(sig, case):
    # F5: the snapshot that #PEEK and the image macros read is built only from instruction lines that carry an address,
    # at that address. (a) Instructions inserted (>, +), overwritten (|) or removed (!) by @rsub/@rfix directives do not
    # move anything, so in @rsub/@rfix mode the snapshot differs from the skool2bin image of files that use such
    # directives. (b) An address-less replacement line in a '@M-begin/@M+else/@M+end' block (the form the documentation
    # gives for @bfix) contributes nothing, so in mode M the snapshot has zeros where skool2bin has the replacement.
    if sig == 'peek-vs-bin:inserted-or-removed-instructions':
        return 'F5'
    if sig == 'peek-vs-bin:addressless-replacement':
        return 'F49'
    return None


MANIFEST_ENTRY = {
    'technique': 'differential testing of two code paths through the real CLIs (skool2asm output re-assembled by an independent label/ORG/EQU resolver vs skool2bin output), metamorphic option relations, and #PEEK vs image',
    'level_text': 'Generated skool files (sna2skool output for breadth of statement forms; hand-built files with address operands and the full sub/fix directive layer for the modes) are converted by skool2asm.main and skool2bin.main in each of the 7 mode pairs; the ASM text is re-assembled and must give the same bytes at the same addresses; the image must not change with -D/-H/-l/-u/-c, @nowarn, label renaming or (non-relocating files) @keep; a planted #PEEK loop must read the skool2bin image.',
    'level_note': 'Statement encoding in the re-assembler uses the repository\'s Assembler (C02 checks it); the generator follows the documented purpose of the modes (size-changing directives only in @rsub/@rfix, referenced instructions labelled).',
}
