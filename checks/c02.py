"""C02 - assembler and disassembler are mutual inverses.

D1 (enumerated): every opcode slot x operand bytes x bases x case x hex x
    additional-opcode set x addresses (incl. the 64K boundary, Wrap 0/1):
    Assembler.assemble(i.operation, i.address) == i.bytes (variant-flagged
    instructions: same length, the flagged byte list is what sna2skool emits).
D1b (generated): DEFB/DEFM/DEFW/DEFS ranges with sublength lists and bases.
D2 (generated): assembler-grammar texts (respellings of every instruction
    form: $hex/%bin/"c"/escapes/arithmetic expressions/odd whitespace/case):
    asm -> dis -> asm is a fixed point, and a respelling that keeps every
    operand value assembles to the same bytes as the canonical text.
"""
import re

from hypothesis import strategies as st

from vlib.runner import Violation, hyp_run, shard_seed, crash_sig
from checks import c05

PROPERTY = 'C02'
RULE = ('D1: exhaustive loops over (opcode slot, operand filling, base indicator, case, decimal/hex, Opcodes set, address, '
        'Wrap) - single-byte operands and jump offsets over all 256 values (thorough) or a boundary set rotated by seed '
        '(quick); non-trivial = the rendered text contains a number; distinct by construction (memoised by operation text + '
        'address). D1b/D2: Hypothesis-drawn data ranges / respelled instruction texts; non-trivial = text contains a '
        'non-decimal literal, an escape, an expression or a negative number, or lies within 3 bytes of 64K; distinct = digest.')
ASSUMPTIONS = [
    'base m is applied only to immediate data operands (LD r,n; ALU n; LD (HL)/(IX+d),n; LD rr,nn) and DEFB/DEFM/DEFW items / DEFS fill value',
    'D2 metamorphic relation: a spelling accepted by the assembler denotes the operand value it spells ($hex, %bin, "c", +,-,* expressions)',
    'texts the assembler rejects (returns no bytes) are outside D2\'s domain and are counted, not judged',
]

CFG = [(h, l, o) for h in (False, True) for l in (False, True) for o in ('', 'ALL')]
BASES = ['n', 'b', 'c', 'd', 'h']
PAIRS_Q = ['nb', 'hn', 'dh', 'bc', 'cd', 'hb', 'nm', 'hm', 'dm', 'bm']
ALL_PAIRS = [a + b for a in 'bcdhn' for b in 'bcdhnm']

M_MAIN = frozenset([0x06, 0x0E, 0x16, 0x1E, 0x26, 0x2E, 0x3E, 0x36, 0xC6, 0xCE, 0xD6, 0xDE, 0xE6, 0xEE, 0xF6, 0xFE, 0x01, 0x11, 0x21, 0x31])
M_XY = frozenset([0x26, 0x2E, 0x21])        # LD IXh,n / LD IXl,n / LD IX,nn  (DD/FD 36 handled as a pair)
JR_OPS = (0x10, 0x18, 0x20, 0x28, 0x30, 0x38)


class Env:
    def __init__(self):
        from skoolkit.snaskool import DisassemblerConfig, Instruction
        from skoolkit.disassembler import Disassembler
        from skoolkit.z80 import Assembler
        self.snap = [0] * 65536
        self.dis = {}
        for h, l, o in CFG:
            for w in (0, 1):
                self.dis[h, l, o, w] = Disassembler(self.snap, DisassemblerConfig(h, l, 8, 65, 1, 0, Instruction, o, w))
        self.asm = Assembler()
        self.memo = set()


_env = None


def env():
    global _env
    if _env is None:
        _env = Env()
    return _env


def check_dis_asm(e, seq, a, base, cfgkey, case):
    """Disassemble seq at a under the config and check the inverse."""
    snap = e.snap
    addrs = [(a + k) & 0xFFFF for k in range(len(seq))]
    for k, b in zip(addrs, seq):
        snap[k] = b
    try:
        d = e.dis[cfgkey]
        try:
            ins = d.disassemble(a, a + 1, base)[0]
        except Exception as x:
            raise Violation(crash_sig(x, 'disassembler'), 'disassemble raised %r' % x, case)
        op = ins.operation
        key = (op, a if (_addr_dependent(op) or a >= 0xFFF0) else None, tuple(ins.bytes), bool(ins.variant), cfgkey[3])
        if key in e.memo:
            return None
        e.memo.add(key)
        got = e.asm.assemble(op, ins.address)
        want = tuple(ins.bytes)
        if ins.variant:
            # the flagged byte list (emitted as @bytes) is what reproduces the original; the text must
            # still be a valid instruction (its canonical encoding may differ, even in length: ED63)
            if not got:
                raise Violation('variant-unassemblable', '%r at %d (variant of bytes %s) is rejected by the assembler' % (op, a, _hx(want)), case)
        elif tuple(got) != want:
            shape = re.sub(r'[$%]?[0-9A-Fa-f]+\b|"[^"]*"', 'N', op.upper())[:30]
            raise Violation('dis-asm:' + shape, '%r at %d was decoded from %s but assembles to %s (base %r, hex=%s lower=%s Opcodes=%r Wrap=%d)' % (
                op, a, _hx(want), _hx(got) or 'nothing', base, cfgkey[0], cfgkey[1], cfgkey[2], cfgkey[3]), case)
        return op
    finally:
        for k in addrs:
            snap[k] = 0


def _addr_dependent(op):
    u = op.upper()
    return u.startswith(('JR', 'DJNZ'))


def _hx(bs):
    return ' '.join('%02X' % b for b in bs)


def m_ok(g, op):
    if g == 'main':
        return op in M_MAIN
    if g in ('DD', 'FD'):
        return op in M_XY
    return False


def two_operands(g, op):
    return g in ('DD', 'FD') and op == 0x36


def fills(tier, seed, slot_index):
    v6 = [0x00, 0x01, 0x7F, 0x80, 0xFE, 0xFF]
    rot = [(seed * 37 + slot_index * 11 + k * 53) & 0xFF for k in range(2)]
    f1s = v6 + rot if tier == 'quick' else list(range(256))
    f2s = [0x00, 0x40, 0x80, 0xFF] + ([(seed * 91 + slot_index) & 0xFF] if tier == 'quick' else [0x01, 0x7F, 0xC0])
    return f1s, f2s


def run_d1(shard, rec):
    e = env()
    tier, seed = shard['tier'], shard['vseed']
    n = nt = 0
    for idx, (g, op) in enumerate(shard['slots']):
        f1s, f2s = fills(tier, seed, idx)
        bases = list(BASES) + (['m'] if m_ok(g, op) else [])
        if two_operands(g, op):
            bases += (PAIRS_Q if tier == 'quick' else ALL_PAIRS)
        jr = g == 'main' and op in JR_OPS
        if jr:
            f1s = list(range(256))
            addrs = [0, 1, 127, 128, 129, 0x7FFF, 0x8000, 0xFF7E, 0xFF7F, 0xFF80, 0xFFFC, 0xFFFD, 0xFFFE, 0xFFFF]
            if tier != 'quick':
                addrs = sorted(set(addrs + list(range(0xFF7E, 0x10000)) + list(range(0, 130))))
        # characters that mean something in operand syntax: rendered in character base they must still assemble back
        syn = [] if tier != 'quick' else [v for v in (0x22, 0x27, 0x28, 0x29, 0x2C, 0x3B, 0x5C, 0xA2, 0xA8, 0xA9, 0xDC) if v not in f1s]
        for f1 in f1s + syn:
            for f2 in f2s:
                seq = c05.code_for(g, op, f1, f2, f1 ^ 0x55)
                case = None
                for base in (bases if f1 in f1s else [b for b in bases if 'c' in b]):
                    for cfg in CFG:
                        case = {'kind': 'd1', 'seq': seq, 'addr': 0x8000, 'base': base, 'cfg': [cfg[0], cfg[1], cfg[2], 0]}
                        try:
                            r = check_dis_asm(e, seq, 0x8000, base, (cfg[0], cfg[1], cfg[2], 0), case)
                        except Violation as v:
                            rec.violation(v)
                            r = None
                        n += r is not None
                        if r is not None and re.search(r'\d', r):
                            nt += 1
                            if nt % 20011 == 1:
                                rec.sample('d1', dict(case, operation=r))
                # 64K boundary, both Wrap settings
                for a in (0xFFFC, 0xFFFD, 0xFFFE, 0xFFFF):
                    for w in (0, 1):
                        for base, cfg in (('n', (False, False, 'ALL')), ('h', (True, True, ''))):
                            case = {'kind': 'd1', 'seq': seq, 'addr': a, 'base': base, 'cfg': [cfg[0], cfg[1], cfg[2], w]}
                            try:
                                r = check_dis_asm(e, seq, a, base, (cfg[0], cfg[1], cfg[2], w), case)
                            except Violation as v:
                                rec.violation(v)
                                r = None
                            n += r is not None
                            if r is not None:
                                nt += 1
                if jr and f2 == f2s[0]:
                    for a in addrs:
                        for base in ('n', 'h', 'b', 'd'):
                            for w in (0, 1):
                                cfg = (base == 'h', False, '')
                                case = {'kind': 'd1', 'seq': seq, 'addr': a, 'base': base, 'cfg': [cfg[0], cfg[1], cfg[2], w]}
                                try:
                                    r = check_dis_asm(e, seq, a, base, (cfg[0], cfg[1], cfg[2], w), case)
                                except Violation as v:
                                    rec.violation(v)
                                    r = None
                                n += r is not None
                                if r is not None:
                                    nt += 1
                                    if nt % 20011 == 1:
                                        rec.sample('d1:jump', dict(case, operation=r))
        e.memo.clear()
    rec.bulk(n, nt, 'd1')
    if tier != 'quick':
        rec.exhaustive = True


# --- D1b: data statement ranges ---------------------------------------------------
@st.composite
def range_cases(draw):
    kind = draw(st.sampled_from(['defb', 'defm', 'defw', 'defs']))
    n = draw(st.integers(1, 40))
    if kind == 'defs':
        data = [draw(st.sampled_from([0, 0, 255, 32, 65]) | st.integers(0, 255))] * n
    else:
        data = list(draw(st.binary(min_size=n, max_size=n)))
        if draw(st.booleans()):
            txt = draw(st.lists(st.sampled_from([34, 92, 94, 96, 127, 32, 65, 97, 58, 59, 44, 48, 0xC1]), min_size=1, max_size=n))
            data[:len(txt)] = txt
    if kind == 'defw' and n % 2:
        data.append(draw(st.integers(0, 255)))
    bases = ['n', 'b', 'c', 'd', 'h', 'm']
    if kind == 'defs':
        sub = [[draw(st.sampled_from([0, len(data)])), draw(st.sampled_from(['n', 'b', 'd', 'h']))]]
        if draw(st.booleans()):
            sub.append([0, draw(st.sampled_from(bases if data[0] else bases[:5]))])
    else:
        mode = draw(st.integers(0, 2))
        if mode == 0:
            sub = [[0, draw(st.sampled_from(bases))]]
        else:
            sub = []
            left = len(data)
            unit = 2 if kind == 'defw' else 1
            while left > 0:
                k = draw(st.integers(1, left // unit)) * unit
                sub.append([k, draw(st.sampled_from(bases))])
                left -= k
    start = draw(st.sampled_from([0, 16384, 32768, 65536 - len(data), 40000]))
    return {'kind': 'range', 'stmt': kind, 'data': data, 'sub': sub, 'start': start,
            'cfg': [draw(st.booleans()), draw(st.booleans()), '', 0],
            'sizes': [draw(st.integers(1, 10)), draw(st.integers(1, 10)), draw(st.integers(1, 4))]}


def range_oracle(case, rec=None):
    from skoolkit.snaskool import DisassemblerConfig, Instruction
    from skoolkit.disassembler import Disassembler
    e = env()
    data, start = case['data'], case['start']
    end = start + len(data)
    snap = [0] * 65536
    snap[start:end] = data
    h, l, o, w = case['cfg']
    d = Disassembler(snap, DisassemblerConfig(h, l, case['sizes'][0], case['sizes'][1], case['sizes'][2], 0, Instruction, o, w))
    sub = tuple((k, b) for k, b in case['sub'])
    try:
        ins = getattr(d, case['stmt'] + '_range')(start, end, sub)
    except Exception as x:
        raise Violation(crash_sig(x, 'disassembler'), '%s_range raised %r' % (case['stmt'], x), case)
    out = []
    texts = []
    for i in ins:
        got = e.asm.assemble(i.operation, i.address)
        if tuple(got) != tuple(i.bytes):
            raise Violation('range-dis-asm:' + case['stmt'], '%r at %d was produced for bytes %s but assembles to %s' % (i.operation, i.address, _hx(i.bytes), _hx(got) or 'nothing'), case)
        if i.address != start + len(out):
            raise Violation('range-gap:' + case['stmt'], 'statement at %d, expected %d' % (i.address, start + len(out)), case)
        out.extend(i.bytes)
        texts.append(i.operation)
    if out != data:
        raise Violation('range-coverage:' + case['stmt'], '%s_range(%d, %d) statements cover %d bytes %s, data is %d bytes' % (case['stmt'], start, end, len(out), _hx(out[:12]), len(data)), case)
    if rec is not None:
        txt = ' '.join(texts)
        nt = bool(re.search(r'[$%"-]', txt)) or end > 65533
        rec.case(repr(case), nt, 'range:' + case['stmt'], {'case': case, 'statements': texts[:4]})


# --- D2: assembler-grammar texts ---------------------------------------------------
NUM = re.compile(r'\$[0-9A-Fa-f]+|%[01]+|\d+')


def _spell(draw, v, allow_char=True):
    forms = ['dec', 'dec0', 'hexU', 'hexl', 'bin', 'e1', 'e2', 'e3', 'e4', 'mod', 'modp', 'div']
    if allow_char and 32 <= v < 127 and v not in (94, 96):
        forms += ['chr', 'chr']
    f = draw(st.sampled_from(forms))
    sp = lambda: draw(st.sampled_from(['', '', ' ', '\t', '  ']))
    if f == 'dec':
        return str(v)
    if f == 'dec0':
        return '0' * draw(st.integers(1, 3)) + str(v)
    if f == 'hexU':
        return '$%X' % v
    if f == 'hexl':
        return '$%04x' % v
    if f == 'bin':
        return '%' + bin(v)[2:].zfill(draw(st.sampled_from([1, 8, 16])))
    if f == 'chr':
        c = chr(v)
        if c in '"\\':
            return '"\\%s"' % c
        return '"%s"' % c
    k = draw(st.integers(0, 300))
    if f in ('mod', 'modp'):
        # modulo by a number whose digits are all 0/1 (it must not be read as a binary literal)
        m = next(x for x in (10, 11, 100, 101, 110, 111, 1000, 1001, 10000, 10001, 100000) if x > v)
        q = draw(st.integers(0, 5))
        if f == 'mod':
            return '%d%s%%%d' % (v + q * m, sp(), m)
        return '(%d%s+%s%d)%s%%%d' % (v, sp(), sp(), q * m, sp(), m)
    if f == 'div':
        d = draw(st.integers(1, 9))
        return '%d%s/%s%d' % (v * d + draw(st.integers(0, d - 1)), sp(), sp(), d)
    if f == 'e1':
        return '%d%s+%s(%d%s-%s%d)' % (k, sp(), sp(), v + k, sp(), sp(), 2 * k) if v + k >= 2 * k else '%d%s+%s%d' % (0, sp(), sp(), v)
    if f == 'e2':
        a, b = divmod(v, max(1, k % 17 + 1))
        return '%d%s*%s%d%s+%s$%X' % (a, sp(), sp(), max(1, k % 17 + 1), sp(), sp(), b)
    if f == 'e3':
        return '$%x%s-%s%d' % (v + k, sp(), sp(), k)
    return '%s%d%s+%s%%%s' % ('', v - (v & 5), sp(), sp(), bin(v & 5)[2:])


@st.composite
def text_cases(draw, slots):
    g, op = draw(st.sampled_from(slots))
    seq = c05.code_for(g, op, draw(c05.byte), draw(c05.byte), draw(c05.byte))
    a = draw(st.sampled_from([0x8000, 0x8000, 0, 0x4000, 0xFFFC, 0xFFFD, 0xFFFE, 0xFFFF]) | st.integers(0, 65535))
    e = env()
    snap = e.snap
    for k, b in enumerate(seq):
        snap[(a + k) & 0xFFFF] = b
    try:
        ins = e.dis[False, False, 'ALL', 1].disassemble(a, a + 1, 'n')[0]
        canon = ins.operation
    finally:
        for k in range(4):
            snap[(a + k) & 0xFFFF] = 0
    # respell every number outside quotes
    parts = []
    pos = 0
    jr = canon.startswith(('JR', 'DJNZ'))
    for m in NUM.finditer(canon):
        parts.append(canon[pos:m.start()])
        tok = m.group()
        v = int(tok[1:], 16) if tok[0] == '$' else int(tok[1:], 2) if tok[0] == '%' else int(tok)
        prev = canon[m.start() - 1] if m.start() else ''
        nxt = canon[m.end():m.end() + 1]
        fixed = canon.startswith(('IM ', 'RST ')) or (canon.startswith(('BIT', 'RES', 'SET')) and prev == ' ')
        if prev == '(' and nxt == ')':
            # (nn): keep the outer brackets, the expression goes inside
            parts.append(_spell(draw, v))
        elif fixed and draw(st.booleans()):
            parts.append(tok)
        else:
            parts.append(_spell(draw, v, allow_char=not jr))
        pos = m.end()
    parts.append(canon[pos:])
    text = ''.join(parts)
    # case and whitespace noise (outside quotes)
    style = draw(st.sampled_from(['upper', 'lower', 'mixed']))
    out = []
    inq = False
    i = 0
    while i < len(text):
        c = text[i]
        if c == '"':
            inq = not inq
        if inq:
            if c == '\\':
                out.append(text[i:i + 2])
                i += 2
                continue
            out.append(c)
        else:
            if style == 'lower' or (style == 'mixed' and draw(st.booleans())):
                c = c.lower()
            out.append(c)
            if c == ',' and draw(st.booleans()):
                out.append(draw(st.sampled_from([' ', '\t', '  '])))
        i += 1
    text = ''.join(out)
    if ' ' in text and draw(st.booleans()):
        text = text.replace(' ', draw(st.sampled_from(['  ', '\t', ' \t'])), 1)
    return {'kind': 'text', 'text': text, 'canon': canon, 'addr': a}


def text_oracle(case, rec=None):
    e = env()
    text, a = case['text'], case['addr']
    B = tuple(e.asm.assemble(text, a))
    if not B:
        if rec is not None:
            rec.note('d2:assembler-rejects')
            rec.case(repr(case), False, 'd2:rejected', None)
        return
    C = tuple(e.asm.assemble(case['canon'], a))
    if C and B != C:
        raise Violation('respelling-changes-bytes', '%r assembles to %s but the canonical spelling %r to %s (address %d)' % (text, _hx(B), case['canon'], _hx(C), a), case)
    # asm -> dis -> asm
    snap = e.snap
    addrs = [(a + k) & 0xFFFF for k in range(len(B))]
    for k, b in zip(addrs, B):
        snap[k] = b
    try:
        d = e.dis[False, False, 'ALL', 1]
        out = []
        pos = a
        guard = 0
        while len(out) < len(B) and guard < 8:
            guard += 1
            ins = d.disassemble(pos & 0xFFFF, (pos & 0xFFFF) + 1, 'n')[0]
            back = e.asm.assemble(ins.operation, ins.address)
            if ins.variant and back:
                back = tuple(ins.bytes)
            if not back:
                raise Violation('asm-dis-asm:rejected', '%r -> %s -> %r which the assembler rejects' % (text, _hx(B), ins.operation), case)
            out.extend(back)
            pos += len(ins.bytes)
        if tuple(out) != B:
            raise Violation('asm-dis-asm', '%r assembles to %s; disassembling and re-assembling gives %s' % (text, _hx(B), _hx(out)), case)
    finally:
        for k in addrs:
            snap[k] = 0
    if rec is not None:
        nt = bool(re.search(r'[$%"*+\t-]|\(\d', text)) or a > 65532
        rec.case(repr(case), nt, 'd2', case)


# --- plan ----------------------------------------------------------------------------
def plan(tier, seed):
    slots = c05.all_slots()
    nsh = 32
    shards = [{'kind': 'd1', 'tier': tier, 'vseed': seed, 'slots': slots[i::nsh]} for i in range(nsh)]
    n2 = 40000 if tier == 'quick' else 400000
    for i in range(8):
        shards.append({'kind': 'text', 'n': n2 // 8, 'seed': shard_seed(seed, PROPERTY, 't%d' % i)})
    n3 = 12000 if tier == 'quick' else 200000
    for i in range(8):
        shards.append({'kind': 'range', 'n': n3 // 8, 'seed': shard_seed(seed, PROPERTY, 'r%d' % i)})
    return shards


def run_shard(shard, rec):
    k = shard['kind']
    if k == 'd1':
        run_d1(shard, rec)
    elif k == 'text':
        slots = c05.all_slots()
        hyp_run(rec, text_cases(slots), lambda c: text_oracle(c, rec), shard['n'], shard['seed'])
    else:
        hyp_run(rec, range_cases(), lambda c: range_oracle(c, rec), shard['n'], shard['seed'])


def replay(case):
    k = case.get('kind')
    if k == 'd1':
        e = env()
        e.memo.clear()
        check_dis_asm(e, case['seq'], case['addr'], case['base'], tuple(case['cfg']), case)
    elif k == 'range':
        range_oracle(case)
    else:
        text_oracle(case)


MANIFEST_ENTRY = {
    'technique': 'inverse-function (round-trip) oracle in both directions: enumeration of opcode slots x operands x bases x configs for dis->asm, Hypothesis grammar-based respellings for asm->dis->asm',
    'level_text': 'dis->asm is enumerated over all 1792 opcode slots x operand fillings (boundary set quick, all 256 single-byte values thorough) x all base indicators (36 two-letter pairs for LD (IX+d),n) x case x decimal/hex x Opcodes set, at 0x8000 and at 0xFFFC-0xFFFF with Wrap 0/1, relative jumps over all 256 offsets x boundary addresses; data statements and asm->dis->asm use Hypothesis (respellings with $hex, %bin, characters, escapes, expressions, whitespace, case).',
    'level_note': 'Operand values of 16-bit operands and addresses are sampled. The D2 relation "a respelling with the same operand values assembles to the same bytes" is derived from the documented operand syntax.',
}
