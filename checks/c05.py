"""C05 - the simulators implement documented Z80 instruction semantics.

Part 1 (exhaustive): the complete input spaces of the 8-bit flag/ALU tables are
driven through all four implementations by executing the corresponding opcode
from a register file edited in place, and compared with ref/z80ref.
Part 2 (generated): every opcode slot (1792) from boundary-biased CPU states
drawn by Hypothesis; registers, documented flags, memory, ports, PC, IFF/IM/HALT
and T-states are compared with ref/z80ref on all four implementations.
"""
from hypothesis import strategies as st

from vlib.runner import Violation, hyp_run, shard_seed
from vlib import simdrv
from vlib.stepcmp import StepEnv

PROPERTY = 'C05'
RULE = ('Part 1 enumerates without repetition every (opcode, A, operand, flags-in) input of the 8-bit ALU/rotate/BIT/DAA/'
        'NEG/RLD/RRD/IN/LD A,I tables and executes it on all four simulators (distinct by construction; non-trivial = all). '
        'Part 2 draws (opcode slot, operand bytes, all registers, PC/SP at wrap points, T, IFF/IM, memory cells under '
        'every pointer) with Hypothesis for each of the 1792 opcode slots; a case is non-trivial if the instruction changes a '
        'documented flag, writes memory or leaves PC != PC+length; distinct = digest of the whole case.')
ASSUMPTIONS = [
    'ref/z80ref.py is the specification: documented flags only (mask per instruction family, DESIGN.md Appendix A)',
    'T is placed outside the contended part of the frame so that contended implementations must take the plain timing (C19 owns delays)',
    'a tracer is always attached (tracer-less port defaults are compared in C06)',
]

GROUPS = ('main', 'CB', 'ED', 'DD', 'FD', 'DDCB', 'FDCB')
_env = None


def env():
    global _env
    if _env is None:
        _env = StepEnv()
    return _env


def all_slots():
    slots = []
    for g in GROUPS:
        for op in range(256):
            if g == 'main' and op in (0xCB, 0xED, 0xDD, 0xFD):
                continue
            if g in ('DD', 'FD') and op == 0xCB:
                continue
            slots.append((g, op))
    return slots


def code_for(g, op, o1, o2, o3):
    if g == 'main':
        return [op, o1, o2, o3]
    if g == 'CB':
        return [0xCB, op, o1, o2]
    if g == 'ED':
        return [0xED, op, o1, o2]
    if g == 'DD':
        return [0xDD, op, o1, o2]
    if g == 'FD':
        return [0xFD, op, o1, o2]
    if g == 'DDCB':
        return [0xDD, 0xCB, o1, op]
    return [0xFD, 0xCB, o1, op]


# --- strategies -------------------------------------------------------------
BYTE_B = [0, 1, 0x0F, 0x10, 0x7F, 0x80, 0xFE, 0xFF]
WORD_B = [0, 1, 2, 0xFF, 0x100, 0x101, 0x3FFE, 0x3FFF, 0x4000, 0x4001, 0x7FFF, 0x8000, 0xBFFF, 0xC000, 0xFFFE, 0xFFFF]
byte = st.one_of(st.sampled_from(BYTE_B), st.integers(0, 255))
word = st.one_of(st.sampled_from(WORD_B), st.integers(0, 65535))
pcs = st.one_of(st.sampled_from([0x8000, 0x8000, 0xFFFC, 0xFFFD, 0xFFFE, 0xFFFF, 0x0000, 0x3FFD, 0x3FFE, 0x3FFF, 0x4000, 0x7FFF, 0xBFFE]),
                st.integers(0, 65535))
tvals = st.one_of(st.sampled_from([0, 1, 19, 22, 23, 24, 27, 28, 31, 32, 33, 35, 36, 69870, 69879, 69880, 69884, 69887]),
                  st.integers(0, 14000), st.integers(57400, 69887))
frames = st.sampled_from([0, 0, 1, 3, 1000])


@st.composite
def cases(draw, slots):
    g, op = draw(st.sampled_from(slots))
    o1, o2, o3 = draw(byte), draw(byte), draw(byte)
    code = code_for(g, op, o1, o2, o3)
    pc = draw(pcs)
    regs = {}
    for n in ('a', 'f', 'i', 'r', 'a2', 'f2'):
        regs[n] = draw(byte)
    pairs = {}
    for hi, lo in (('b', 'c'), ('d', 'e'), ('h', 'l'), ('ixh', 'ixl'), ('iyh', 'iyl'), ('b2', 'c2'), ('d2', 'e2'), ('h2', 'l2')):
        v = draw(word)
        pairs[hi + lo] = v
        regs[hi], regs[lo] = v >> 8, v & 255
    regs['sp'] = sp = draw(word)
    regs['iff'] = draw(st.integers(0, 1))
    regs['im'] = draw(st.integers(0, 2))
    regs['t'] = draw(tvals) + 69888 * draw(frames)
    if g == 'main' and op == 0x76:
        regs['halted'] = draw(st.integers(0, 1))
    # memory under every pointer the instruction may use
    d = code[2]
    d = d if d < 128 else d - 256
    nn_main = code[1] | (code[2] << 8)
    nn_pref = code[2] | (code[3] << 8)
    ptrs = [pairs['hl'], pairs['bc'], pairs['de'], sp, sp + 1, pairs['ixhixl'] + d, pairs['iyhiyl'] + d,
            nn_main, nn_main + 1, nn_pref, nn_pref + 1]
    vals = draw(st.lists(byte, min_size=len(ptrs), max_size=len(ptrs)))
    cells = [[p & 0xFFFF, v] for p, v in zip(ptrs, vals)]
    return {'slot': [g, op], 'pc': pc, 'code': code, 'regs': regs, 'cells': cells, 'salt': draw(st.integers(0, 255))}


def oracle_case(case, rec=None):
    e = env()
    s, _ = e.run_case(case)
    if rec is not None:
        z = e.z
        f0 = case['regs'].get('f', 0)
        mask = s.fmask if s.fmask != 0xFF else 0
        nt = bool((z.f ^ f0) & mask) or bool(s.writes) or z.pc != (case['pc'] + s.length) & 0xFFFF
        g = case['slot'][0]
        rec.case(_key(case), nt, g, _sample(case, s))
        rec.slots.add(tuple(case['slot']))
    return s


def _key(case):
    return (case['pc'], tuple(case['code']), tuple(sorted(case['regs'].items())), tuple(map(tuple, case['cells'])), case.get('salt', 0))


def _sample(case, s):
    return {'slot': case['slot'], 'name': s.name, 'pc': case['pc'], 'code': ' '.join('%02X' % b for b in case['code']),
            'regs': case['regs'], 'cells': case['cells']}


# --- part 1: exhaustive table spaces ----------------------------------------
def table_shards():
    shards = []
    for op in range(8):
        for half in (0, 1):
            shards.append({'kind': 'alu', 'op': op, 'half': half})
    shards.append({'kind': 'incdec'})
    for y in range(8):
        shards.append({'kind': 'af', 'y': y})       # RLCA RRCA RLA RRA DAA CPL SCF CCF x A x F
    shards.append({'kind': 'cbrot'})
    shards.append({'kind': 'bit'})
    shards.append({'kind': 'misc'})                  # NEG, IN r,(C), LD A,I/R
    shards.append({'kind': 'rld', 'op': 0x6F})
    shards.append({'kind': 'rld', 'op': 0x67})
    return shards


def run_table(shard, rec):
    e = env()
    kind = shard['kind']
    n = 0
    base = {'pc': 0x8000, 'cells': [], 'salt': 0}

    def go(code, regs, cells=()):
        nonlocal n
        case = {'pc': 0x8000, 'code': code, 'regs': regs, 'cells': list(cells), 'salt': 0}
        try:
            e.run_case(case, full_mem=False)
        except Violation as v:
            rec.violation(v)
        n += 1
        return case

    if kind == 'alu':
        op = shard['op']
        lo = shard['half'] * 128
        for a in range(lo, lo + 128):
            for b in range(256):
                for c in (0, 1):
                    f = c | (0xD6 if (a ^ b) & 1 else 0)
                    case = go([0x80 + 8 * op], {'a': a, 'b': b, 'f': f})
            for c in (0, 1):
                go([0x80 + 8 * op + 7], {'a': a, 'f': c})            # ALU A,A
                go([0xC6 + 8 * op, a ^ 0x5A], {'a': a, 'f': c})      # ALU A,n
        rec.sample('table:alu', {'opcode': '%02X' % (0x80 + 8 * op), 'space': 'A=%d..%d x B=0..255 x carry 0/1' % (lo, lo + 127)})
    elif kind == 'incdec':
        for opc in (0x04, 0x05, 0x3C, 0x3D, 0x2C, 0x2D):
            for v in range(256):
                for f in (0, 1, 0xFE, 0xFF):
                    go([opc], {'b': v, 'a': v, 'l': v, 'f': f})
        for pre in (0xDD, 0xFD):
            for opc in (0x24, 0x25, 0x2C, 0x2D):
                for v in range(256):
                    for f in (0, 0xFF):
                        go([pre, opc], {'ixh': v, 'ixl': v, 'iyh': v, 'iyl': v, 'f': f})
        rec.sample('table:incdec', {'opcodes': 'INC/DEC B, A, L, IXh/IXl/IYh/IYl', 'space': 'value 0..255 x F in {00,01,FE,FF}'})
    elif kind == 'af':
        opc = 0x07 + 8 * shard['y']
        for a in range(256):
            for f in range(256):
                go([opc], {'a': a, 'f': f})
        rec.sample('table:af', {'opcode': '%02X' % opc, 'space': 'A=0..255 x F=0..255'})
    elif kind == 'cbrot':
        for y in range(8):
            for v in range(256):
                for f in (0, 1, 0xFE, 0xFF):
                    go([0xCB, 8 * y], {'b': v, 'f': f})
                go([0xCB, 8 * y + 7], {'a': v, 'f': v & 1})
        rec.sample('table:cbrot', {'opcodes': 'CB 00..3F (r=B, A)', 'space': 'value 0..255 x F in {00,01,FE,FF}'})
    elif kind == 'bit':
        for b in range(8):
            for v in range(256):
                for f in (0, 1, 0xFE, 0xFF):
                    go([0xCB, 0x40 + 8 * b + 2], {'d': v, 'f': f})
                go([0xCB, 0x40 + 8 * b + 6], {'h': 0x90, 'l': 0x00, 'f': v & 1}, [[0x9000, v]])
                go([0xDD, 0xCB, 0x05, 0x40 + 8 * b + 6], {'ixh': 0x90, 'ixl': 0x00, 'f': v & 1}, [[0x9005, v]])
        rec.sample('table:bit', {'opcodes': 'CB 40..7F (r=D, (HL)), DDCB BIT', 'space': 'bit 0..7 x value 0..255 x F'})
    elif kind == 'misc':
        for a in range(256):
            for f in (0, 1, 0xFE, 0xFF):
                go([0xED, 0x44], {'a': a, 'f': f})
                for iff in (0, 1):
                    go([0xED, 0x57], {'i': a, 'f': f, 'iff': iff, 't': 100})
                    go([0xED, 0x5F], {'r': a, 'f': f, 'iff': iff, 't': 100})
                    go([0xED, 0x57], {'i': a, 'f': f, 'iff': iff, 't': 69888 * 2 + 20})
        # IN r,(C): the port value function yields every byte value over these ports
        for port in range(0, 65536, 61):
            for f in (0, 1):
                go([0xED, 0x40 + 8 * ((port >> 3) % 8)], {'b': port >> 8, 'c': port & 255, 'f': f})
        rec.sample('table:misc', {'opcodes': 'NEG, LD A,I, LD A,R, IN r,(C)', 'space': 'value 0..255 x F x IFF x in/out of interrupt window'})
    elif kind == 'rld':
        opc = shard['op']
        for a in range(256):
            for v in range(256):
                go([0xED, opc], {'a': a, 'h': 0x90, 'l': 0x10, 'f': (a ^ v) & 0xFF if (a + v) & 1 else v & 1}, [[0x9010, v]])
        rec.sample('table:rld', {'opcode': 'ED %02X' % opc, 'space': 'A=0..255 x (HL)=0..255'})
    rec.bulk(n, n, 'table:' + kind)
    rec.exhaustive = True


# --- plan / shards -----------------------------------------------------------
def plan(tier, seed):
    shards = table_shards()
    slots = all_slots()
    per_slot = 120 if tier == 'quick' else 1800
    nsh = 32 if tier == 'quick' else 64
    for i in range(nsh):
        sl = slots[i::nsh]
        shards.append({'kind': 'hyp', 'slots': sl, 'n': per_slot * len(sl), 'seed': shard_seed(seed, PROPERTY, i)})
    return shards


def run_shard(shard, rec):
    if shard['kind'] != 'hyp':
        return run_table(shard, rec)
    rec.slots = set()
    slots = [tuple(s) for s in shard['slots']]
    hyp_run(rec, cases(slots), lambda c: oracle_case(c, rec), shard['n'], shard['seed'])
    rec.note('slots_covered', len(rec.slots))
    rec.note('slots_planned', len(slots))


def replay(case):
    oracle_case(case)


MANIFEST_ENTRY = {
    'technique': 'reference-model differential: exhaustive enumeration of the 8-bit table input spaces + Hypothesis-generated CPU states per opcode slot, four implementations vs an independent Z80 interpreter',
    'level_text': 'All inputs of the 8-bit ALU/rotate/BIT/DAA/NEG/RLD/RRD/IN/LD A,I spaces (about 2.0M executions x 4 implementations) are enumerated completely; every one of the 1792 opcode slots is then executed from >=100 (quick) / >=1500 (thorough) boundary-biased generated states on all four implementations and compared with ref/z80ref on registers, documented flags, memory, ports, PC, IFF/IM/HALT and T-states.',
    'level_note': 'Trusted: ref/z80ref.py (hand-written from the Zilog manual; self-tested by setup.sh; cross-checked against 3 opcode tables in C07). Only documented flag bits are compared; 16-bit and memory-addressed operands are sampled, not enumerated.',
}
