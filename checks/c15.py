"""C15 - image macros and sna2img render pixel-exact PNGs.

Generated tile arrays are rendered by skoolkit through three entry points

  * skoolkit.image.ImageWriter.write_image(frames, file) with Frame/Udg objects
    (after flip_udgs/rotate_udgs/adjust_udgs/Udg.flip/Udg.rotate),
  * skoolkit.sna2img.main on generated SCR/binary files (plain screenshot with
    -o/-S/-s/-f/-r/-i/-n, or -e '#SCR...'/'#UDG...'/'#UDGARRAY...'),
  * the #UDG / #UDGARRAY macros in an entry description of a generated skool file (+ ref file with
    [ImageWriter]/[Colours]) converted by skoolkit.skool2html.main,

and the PNG that comes out is judged by ref/pngdec (independent decoder, validity
checker and reference Spectrum renderer; imports nothing from skoolkit):

  (1) structural validity of the PNG/APNG datastream,
  (2) every displayed frame (APNG frames composited as the file prescribes) equals
      the reference picture, RGBA-exact,
  (3) flashing: a second frame exists iff a flashing cell with ink != paper shows a
      non-transparent pixel inside the crop; it occupies exactly the bounding box of
      those cells clipped to the crop, and shows ink and paper exchanged,
  (4) differential: the same frames written with every specialised encoder of
      skoolkit/pngwriter.py replaced by _build_image_data_bd_any display the same pixels.
"""
import io
import os
import random

from hypothesis import strategies as st

from vlib.runner import Violation, hyp_run, shard_seed, crash_sig
from vlib import cli
from ref import pngdec

PROPERTY = 'C15'
RULE = ('Hypothesis draws a pool of 1..12 tiles (attribute byte from a per-case set of 1..8 attributes over all 256 values, '
        '8 graphic bytes and optional 8 mask bytes: blank/solid/random), a tile grid 1..32 x 1..24 of pool indexes (drawn '
        'cell by cell when small, filled from a drawn seed when large; the same Udg object may be shared by several cells), '
        'scale, crop rectangle (none / tile-aligned / arbitrary / 1 pixel / width or height 0 or larger than the image), '
        'mask type 0/1/2, flip 0..3, rotate 0..3, tindex 0..15, alpha -1..255, PNGAlpha, PNGEnableAnimation, '
        'PNGCompressionLevel, optional custom [Colours], and for 15% of ImageWriter cases a list of 2..4 frames with delays '
        'and offsets. About 79% of cases go through ImageWriter.write_image, 14% through sna2img.main (SCR screenshot, #SCR, #UDG, '
        '#UDGARRAY with -f/-r/-i/-n) and 7% through skool2html.main with a #UDG/#UDGARRAY macro in a generated skool file. Non-trivial: the displayed image uses >= 2 colours and is cropped, masked (a tile with mask data '
        'under mask type 1/2) or scaled > 1. Distinct = digest of the whole case; the class labels record which of the 7 '
        'encoders of pngwriter.py was dispatched (enc:*), the bit depth, flash/crop/mask/multi-frame and the entry point.')
ASSUMPTIONS = [
    'tile arrays are rectangular; crop x,y lie inside the constructed image (a crop that leaves no pixel has no PNG representation)',
    'scale >= 1, flip and rotate in 0..3, tindex in 0..15, alpha in -1..255, PNGAlpha in 0..255, PNGCompressionLevel in 0..9 (documented ranges)',
    'frames after the first in a multi-frame image fit inside the first frame at their offsets (APNG requirement on the caller); delays 0..65535',
    'a tile without mask data in a masked image is drawn unmasked; bright black is black (the documented palette has one black entry)',
    'sna2img -i (invert flashing cells) is used only with unmasked images; expected picture = the ink/paper-exchanged phase, not animated',
    'distinct Udg objects never share their data/mask list objects (macros and scr_udgs always build fresh lists)',
    'the delay of the two frames of a flashing image and the APNG play count are not documented and not judged',
]

ENCODERS = ('bd0', 'bd1_nt', 'bd1_at', 'bd2_nt', 'bd2_at', 'bd4_nt', 'bd_any')
F17_SIG = 'flash-rect-origin'


# ---------------------------------------------------------------------------
# Strategies
# ---------------------------------------------------------------------------
BYTES8 = st.binary(min_size=8, max_size=8)
DATA = st.one_of(st.sampled_from([bytes(8), b'\xff' * 8, b'\x80' + bytes(7), bytes(7) + b'\x01', b'\xaa\x55' * 4, b'\xf0' * 8]),
                 BYTES8, BYTES8)
MASKD = st.one_of(st.sampled_from([bytes(8), b'\xff' * 8, b'\x0f' * 8]), BYTES8, BYTES8)
ATTR = st.one_of(st.integers(0, 255), st.integers(0, 255),
                 st.sampled_from([0, 0x3F, 0x40, 0x47, 0x78, 0x7F, 0x80, 0x87, 0xB8, 0xC7, 0xFF, 0x09, 0x12, 0x38, 0x40 | 0x09, 0x80 | 0x1B]))
COLOUR_OVERRIDES = st.dictionaries(st.sampled_from(pngdec.COLOUR_NAMES),
                                   st.tuples(st.integers(0, 255), st.integers(0, 255), st.integers(0, 255)), max_size=5)
SEED = st.integers(0, 2 ** 32 - 1)


def _weighted(draw, pairs):
    total = sum(w for _, w in pairs)
    n = draw(st.integers(0, total - 1))
    for v, w in pairs:
        if n < w:
            return v
        n -= w


@st.composite
def pools(draw, style, want_masks, maxp=12):
    if style == 'blank':
        nattr, np = 1, draw(st.integers(1, min(2, maxp)))
    elif style == 'mono':
        nattr, np = 1, draw(st.integers(1, maxp))
    elif style == 'few':
        nattr, np = draw(st.integers(2, 3)), draw(st.integers(min(2, maxp), maxp))
    else:
        nattr, np = draw(st.integers(4, 8)), draw(st.integers(min(4, maxp), maxp))
    attrs = [draw(ATTR) for _ in range(nattr)]
    if style == 'few' and draw(st.booleans()):
        # same ink or paper in both attributes: 3 colours
        attrs[1] = (attrs[0] & 0xC7) | (attrs[1] & 0x38)
    pool = []
    for i in range(np):
        attr = attrs[i] if i < nattr else attrs[draw(st.integers(0, nattr - 1))]
        if i == 1 and nattr > np:
            attr = attrs[1]
        if style == 'blank':
            data = draw(st.sampled_from([bytes(8), bytes(8), b'\xff' * 8]))
            if pool:
                data = bytes.fromhex(pool[0][1])
        else:
            data = draw(DATA)
        mask = None
        if want_masks and draw(st.integers(0, 3)) > 0:
            mask = draw(MASKD)
        pool.append([attr, data.hex(), None if mask is None else mask.hex()])
    return pool


def _grid(draw, cols, rows, np):
    n = cols * rows
    if n <= 24:
        cells = draw(st.lists(st.integers(0, np - 1), min_size=n, max_size=n))
    else:
        rnd = random.Random(draw(SEED))
        kind = draw(st.integers(0, 2))
        if kind == 0:
            cells = [rnd.randrange(np) for _ in range(n)]
        elif kind == 1:
            base = [rnd.randrange(np) for _ in range(cols)]
            cells = [(base[i % cols] + i // cols) % np for i in range(n)]
        else:
            cells = [min(np - 1, int(rnd.random() ** 3 * np)) for _ in range(n)]
    return [cells[r * cols:(r + 1) * cols] for r in range(rows)]


def _dims(draw, tier, small=False):
    k = 'small' if small else _weighted(draw, [('small', 40), ('medium', 45), ('large', 15)] if tier == 'quick' else
                                    [('small', 25), ('medium', 40), ('large', 35)])
    if k == 'small':
        return draw(st.integers(1, 4)), draw(st.integers(1, 3))
    if k == 'medium':
        return draw(st.integers(1, 10)), draw(st.integers(1, 8))
    return draw(st.integers(1, 32)), draw(st.integers(1, 24))


def _scale(draw, tier, cols, rows):
    budget = 160000 if tier == 'quick' else 3200000
    mx = 8 if tier == 'quick' else 12
    s = draw(st.one_of(st.integers(1, 4), st.integers(1, mx))) if tier == 'quick' else draw(st.integers(1, mx))
    while s > 1 and cols * rows * 64 * s * s > budget:
        s -= 1
    return s


def _crop(draw, fw, fh, inc):
    kind = _weighted(draw, [('none', 42), ('any', 26), ('aligned', 10), ('origin', 8), ('pixel', 4), ('degenerate', 10)])
    if kind == 'none':
        return None
    if kind == 'aligned':
        x = inc * draw(st.integers(0, fw // inc - 1))
        y = inc * draw(st.integers(0, fh // inc - 1))
        w = inc * draw(st.integers(1, (fw - x) // inc))
        h = inc * draw(st.integers(1, (fh - y) // inc))
        return [x, y, w, h]
    if kind == 'origin':
        return [0, 0, draw(st.integers(1, fw)), draw(st.integers(1, fh))]
    x = draw(st.integers(0, fw - 1))
    y = draw(st.integers(0, fh - 1))
    if kind == 'pixel':
        return [x, y, draw(st.sampled_from([1, 1, 2])), draw(st.sampled_from([1, 1, 3]))]
    if kind == 'degenerate':
        w = draw(st.sampled_from([None, 0, fw - x, fw - x + 1, fw + 100, 1]))
        h = draw(st.sampled_from([None, 0, fh - y, fh - y + 1, fh + 100, 1]))
        return [x, y, w, h]
    return [x, y, draw(st.integers(1, fw - x)), draw(st.integers(1, fh - y))]


def _frame(draw, tier, np, small=False, dims=None, extra_rot=0):
    cols, rows = dims or _dims(draw, tier, small)
    scale = _scale(draw, tier, cols, rows)
    flip = draw(st.sampled_from([0, 0, 0, 1, 2, 3]))
    rotate = draw(st.sampled_from([0, 0, 0, 1, 2, 3]))
    c2, r2 = (rows, cols) if (rotate + extra_rot) & 1 else (cols, rows)
    crop = _crop(draw, 8 * c2 * scale, 8 * r2 * scale, 8 * scale)
    return {'grid': _grid(draw, cols, rows, np), 'scale': scale, 'mask': 0, 'crop': crop, 'flip': flip, 'rotate': rotate,
            'tindex': draw(st.sampled_from([0, 0, 0, 1, 8, 15])) if draw(st.booleans()) else draw(st.integers(0, 15)),
            'alpha': draw(st.one_of(st.just(-1), st.just(-1), st.sampled_from([0, 255, 128]), st.integers(0, 255)))}


def _opts(draw):
    return {'PNGAlpha': draw(st.one_of(st.just(255), st.sampled_from([0, 254, 1]), st.integers(0, 255))),
            'PNGEnableAnimation': draw(st.sampled_from([1, 1, 1, 0])),
            'PNGCompressionLevel': draw(st.sampled_from([9, 9, 6, 1, 0, 2, 3, 4, 5, 7, 8]))}


def _colours(draw):
    if draw(st.integers(0, 5)):
        return None
    return {k: list(v) for k, v in sorted(draw(COLOUR_OVERRIDES).items())}


@st.composite
def iw_cases(draw, tier):
    style = _weighted(draw, [('blank', 6), ('mono', 30), ('few', 34), ('many', 30)])
    mask = draw(st.sampled_from([0, 0, 1, 2]))
    pool = draw(pools(style, mask > 0))
    np = len(pool)
    nframes = 1 if draw(st.integers(0, 99)) >= 15 else draw(st.integers(2, 4))
    frames = []
    for k in range(nframes):
        fr = _frame(draw, tier, np, small=(k > 0 and draw(st.booleans())))
        fr['mask'] = mask if k == 0 else draw(st.sampled_from([mask, mask, 0, 1, 2]))
        fr['xform'] = draw(st.sampled_from(['adjust', 'adjust', 'separate', 'udg' if len(fr['grid']) == 1 and len(fr['grid'][0]) == 1 else 'adjust']))
        fr['lazy'] = draw(st.integers(0, 4)) == 0
        fr['delay'] = draw(st.sampled_from([32, 32, 0, 1, 255, 256, 65535])) if draw(st.booleans()) else draw(st.integers(0, 65535))
        fr['xoff'] = fr['yoff'] = 0
        if k:
            # must fit inside frame 0 at its offset: shrink the crop as needed
            W0, H0 = frames[0]['_wh']
            x, y, w, h, fw, fh = _eff(fr)
            w2 = draw(st.integers(1, min(w, W0)))
            h2 = draw(st.integers(1, min(h, H0)))
            if (w2, h2) != (w, h) or w > W0 or h > H0:
                fr['crop'] = [x, y, w2, h2]
                w, h = w2, h2
            fr['xoff'] = draw(st.integers(0, W0 - w))
            fr['yoff'] = draw(st.integers(0, H0 - h))
        else:
            x, y, w, h, fw, fh = _eff(fr)
            fr['_wh'] = [w, h]
        frames.append(fr)
    frames[0].pop('_wh')
    # images written earlier by the same ImageWriter (skool2html uses one writer for a whole disassembly): the judged
    # image must not depend on them. Each is the first frame of this image with another mask type, cropped or not.
    warm = []
    if draw(st.sampled_from([0, 0, 1])):
        warm = [[draw(st.sampled_from([0, 1, 2])), draw(st.booleans())] for _ in range(draw(st.integers(1, 2)))]
    return {'entry': 'iw', 'opts': _opts(draw), 'colours': _colours(draw), 'pool': pool,
            'share': draw(st.booleans()), 'frames': frames, 'warm': warm, 'rewrite': bool(draw(st.sampled_from([0, 0, 0, 1])))}


def _eff(fr):
    rows, cols = len(fr['grid']), len(fr['grid'][0])
    if fr['rotate'] & 1:
        rows, cols = cols, rows
    return pngdec.effective_crop(cols, rows, fr['scale'], fr['crop'])


@st.composite
def sna_cases(draw, tier):
    mode = _weighted(draw, [('plain', 35), ('scr', 20), ('udgarray', 30), ('udg', 15)])
    case = {'entry': 'sna2img', 'mode': mode, 'noanim': draw(st.integers(0, 3)) == 0,
            'cli_flip': draw(st.sampled_from([0, 0, 1, 2, 3])), 'cli_rotate': draw(st.sampled_from([0, 0, 1, 2, 3]))}
    if mode in ('plain', 'scr'):
        style = _weighted(draw, [('mono', 20), ('few', 40), ('many', 40)])
        pool = draw(pools(style, False))
        case['pool'] = pool
        case['grid'] = _grid(draw, 32, 24, len(pool))
        big = draw(st.integers(0, 3)) == 0
        X, Y = draw(st.integers(0, 31)), draw(st.integers(0, 23))
        W = draw(st.integers(1, 32 if big else 6))
        H = draw(st.integers(1, 24 if big else 5))
        if big and draw(st.booleans()):
            X = Y = 0
        case['origin'] = [X, Y]
        case['size'] = [W, H]
        ew, eh = min(W, 32 - X), min(H, 24 - Y)
        case['scale'] = _scale(draw, tier, ew, eh) if draw(st.booleans()) else 1
        case['invert'] = draw(st.integers(0, 3)) == 0
        if mode == 'scr':
            c2, r2 = (eh, ew) if case['cli_rotate'] & 1 else (ew, eh)
            s = case['scale']
            case['crop'] = _crop(draw, 8 * c2 * s, 8 * r2 * s, 8 * s)
            case['tindex'] = draw(st.integers(0, 15)) if draw(st.booleans()) else 0
            case['alpha'] = draw(st.sampled_from([-1, 0, 77]))
    else:
        case.update(draw(macro_parts(tier, mode, case['cli_rotate'])))
        case['invert'] = case['frame']['mask'] == 0 and draw(st.integers(0, 3)) == 0
    return case


@st.composite
def macro_parts(draw, tier, kind, extra_rot=0):
    style = _weighted(draw, [('blank', 5), ('mono', 30), ('few', 35), ('many', 30)])
    mask = draw(st.sampled_from([0, 1, 1, 2, 2]))
    layout = draw(st.sampled_from(['cell', 'cell', 'range', 'range2d'])) if kind == 'udgarray' else 'cell'
    dims = (1, 1) if kind == 'udg' else _dims(draw, tier, small=True)
    if layout != 'cell':
        # identity grid: cell i shows pool tile i; masks for all tiles or for none
        n = dims[0] * dims[1]
        pool = draw(pools(style, mask > 0, maxp=n))
        while len(pool) < n:
            pool.append(list(pool[draw(st.integers(0, len(pool) - 1))]))
        pool = pool[:n]
        if mask and any(p[2] is None for p in pool):
            fill = draw(MASKD).hex()
            allm = draw(st.booleans())
            for p in pool:
                p[2] = (p[2] or fill) if allm else None
    else:
        pool = draw(pools(style, mask > 0, maxp=8))
    fr = _frame(draw, tier, len(pool), dims=dims, extra_rot=extra_rot)
    if layout != 'cell':
        cols = dims[0]
        fr['grid'] = [[r * cols + c for c in range(cols)] for r in range(dims[1])]
    fr['mask'] = mask
    return {'pool': pool, 'frame': fr,
            'macro': {'kind': kind, 'layout': layout, 'step': draw(st.sampled_from([1, 1, 'n'])),
                      'inc': draw(st.sampled_from([0, 0, 1, 255, 77])),
                      'attr_mode': draw(st.sampled_from(['spec', 'addr', 'default'])),
                      'mstep': draw(st.booleans()), 'kw': draw(st.booleans())}}


@st.composite
def html_cases(draw, tier):
    kind = draw(st.sampled_from(['udgarray', 'udgarray', 'udg']))
    case = {'entry': 'html', 'opts': _opts(draw), 'colours': _colours(draw), 'hexcol': draw(st.booleans())}
    case.update(draw(macro_parts(tier, kind)))
    return case


def cases(tier, kind):
    return {'iw': iw_cases, 'sna2img': sna_cases, 'html': html_cases}[kind](tier)


# ---------------------------------------------------------------------------
# Expected pictures
# ---------------------------------------------------------------------------
def _tiles(pool, grid):
    tl = [(p[0], bytes.fromhex(p[1]), None if p[2] is None else bytes.fromhex(p[2])) for p in pool]
    return [[tl[i] for i in row] for row in grid]


def _colour_table(overrides):
    cols = list(pngdec.DEFAULT_COLOURS)
    for name, rgb in (overrides or {}).items():
        cols[pngdec.COLOUR_NAMES.index(name)] = tuple(rgb)
    return cols


class Expect:
    """What the PNG must display: canvases (planar RGBA rows) after each frame."""


def expectation(case):
    e = Expect()
    entry = case['entry']
    cache = {}
    e.colours = _colour_table(case.get('colours'))
    e.png_alpha = 255
    e.anim = True
    e.delays = None
    if entry == 'iw':
        frs = case['frames']
        e.png_alpha = case['opts']['PNGAlpha']
        e.anim = bool(case['opts']['PNGEnableAnimation'])
        e.renders = [pngdec.render(_tiles(case['pool'], f['grid']), f['scale'], f['mask'], f['flip'], f['rotate'], f['crop'], cache)
                     for f in frs]
        e.offsets = [(f['xoff'], f['yoff']) for f in frs]
        e.tindex, e.alpha = frs[0]['tindex'], frs[0]['alpha']
        e.invert = False
        if len(frs) > 1:
            e.delays = [f['delay'] for f in frs]
    elif entry == 'html':
        f = case['frame']
        e.png_alpha = case['opts']['PNGAlpha']
        e.anim = bool(case['opts']['PNGEnableAnimation'])
        e.renders = [pngdec.render(_tiles(case['pool'], f['grid']), f['scale'], f['mask'], f['flip'], f['rotate'], f['crop'], cache)]
        e.offsets = [(0, 0)]
        e.tindex, e.alpha = f['tindex'], f['alpha']
        e.invert = False
    else:
        e.anim = not case['noanim']
        e.invert = case['invert']
        cf, cr = case['cli_flip'], case['cli_rotate']
        if case['mode'] in ('plain', 'scr'):
            X, Y = case['origin']
            W, H = case['size']
            tiles = [row[X:X + W] for row in _tiles(case['pool'], case['grid'])[Y:Y + H]]
            crop = case.get('crop')
            # command-line flip/rotate act on the tile array; the macro's crop applies to the final picture
            e.renders = [pngdec.render(tiles, case['scale'], 0, cf, cr, crop, cache)]
            e.tindex, e.alpha = case.get('tindex', 0), case.get('alpha', -1)
        else:
            f = case['frame']
            tiles = _tiles(case['pool'], f['grid'])
            # macro flip, macro rotate, then command-line flip and rotate: compose on the tile picture
            e.renders = [render_composed(tiles, f, cf, cr, cache)]
            e.tindex, e.alpha = f['tindex'], f['alpha']
        e.offsets = [(0, 0)]
    r0 = e.renders[0]
    e.width, e.height = r0.width, r0.height
    single = len(e.renders) == 1
    if e.invert:
        # flashing cells shown in their inverse phase, steady
        for r in e.renders:
            r.idx1 = r.idx2
            r.flash_rect = None
    e.flash_rect = r0.flash_rect if single and e.anim else None
    any_trans = any(0 in row for r in e.renders for row in r.idx1)
    e.tcode = 0 if any_trans else e.tindex
    e.A = e.alpha if e.alpha >= 0 else e.png_alpha
    return e


def render_composed(tiles, f, cli_flip, cli_rotate, cache):
    """Picture = crop(scale(cli_rotate(cli_flip(rotate(flip(tiles)))))). pngdec.render does one
    flip+rotate; apply the macro's on the tiles' pixel matrices first by rendering twice."""
    if not cli_flip and not cli_rotate:
        return pngdec.render(tiles, f['scale'], f['mask'], f['flip'], f['rotate'], f['crop'], cache)
    if not f['flip'] and not f['rotate']:
        return pngdec.render(tiles, f['scale'], f['mask'], cli_flip, cli_rotate, f['crop'], cache)
    # general composition: transform the tile array itself geometrically (tiles as 8x8 pixel blocks)
    t2 = transform_tiles(tiles, f['flip'], f['rotate'])
    return pngdec.render(t2, f['scale'], f['mask'], cli_flip, cli_rotate, f['crop'], cache)


def transform_tiles(tiles, flip, rotate):
    """Geometric flip then rotate of an array of tiles, done on pixel matrices and cut back into tiles."""
    rows, cols = len(tiles), len(tiles[0])

    def plane(sel):
        return pngdec.assemble(tiles, lambda t: [bytes((1 if sel(t)[j] & (128 >> k) else 0) for k in range(8)) for j in range(8)])

    data = pngdec.rotate_matrix(pngdec.flip_matrix(plane(lambda t: t[1]), flip), rotate)
    mask = pngdec.rotate_matrix(pngdec.flip_matrix(plane(lambda t: t[2] if t[2] is not None else bytes(8)), flip), rotate)
    # per-cell attribute / has-mask: transform a cell-resolution matrix of cell numbers
    ids = [bytes(range(r * cols, (r + 1) * cols)) for r in range(rows)] if rows * cols <= 256 else None
    assert ids is not None
    ids = pngdec.rotate_matrix(pngdec.flip_matrix(ids, flip), rotate)
    out = []
    for r, idrow in enumerate(ids):
        orow = []
        for c, cid in enumerate(idrow):
            src = tiles[cid // cols][cid % cols]
            d = bytes(sum(data[r * 8 + j][c * 8 + k] << (7 - k) for k in range(8)) for j in range(8))
            m = None
            if src[2] is not None:
                m = bytes(sum(mask[r * 8 + j][c * 8 + k] << (7 - k) for k in range(8)) for j in range(8))
            orow.append((src[0], d, m))
        out.append(orow)
    return out


def expected_canvases(e):
    """List of planar canvases the viewer must show after each frame."""
    def planar(rows):
        return pngdec.planar_expected(rows, e.colours, e.tcode, e.A)
    r0 = e.renders[0]
    out = [planar(r0.idx1)]
    if len(e.renders) == 1:
        if e.flash_rect is not None:
            out.append(planar(r0.idx2))
        return out
    canvas = list(r0.idx1)
    for r, (ox, oy) in zip(e.renders[1:], e.offsets[1:]):
        for j, row in enumerate(r.idx1):
            old = canvas[oy + j]
            canvas[oy + j] = old[:ox] + row + old[ox + len(row):]
        out.append(planar(canvas))
    return out


def in_f17_class(e):
    """Cropped image with a flashing cell whose x (or y) position in the uncropped image
    exceeds the crop width (height): ImageWriter._get_colours starts min_x/min_y at width/height."""
    if len(e.renders) != 1 or e.flash_rect is None:
        return False
    r = e.renders[0]
    return r.flash_abs[0] > r.width or r.flash_abs[1] > r.height


# ---------------------------------------------------------------------------
# Running skoolkit
# ---------------------------------------------------------------------------
def _build_frames(case):
    from skoolkit.graphics import Udg, Frame, flip_udgs, rotate_udgs, adjust_udgs
    frames = []
    for f in case['frames']:
        def mk(p):
            a, d, m = case['pool'][p]
            return Udg(a, list(bytes.fromhex(d)), None if m is None else list(bytes.fromhex(m)))
        if case['share']:
            objs = {}
            udgs = []
            for row in f['grid']:
                urow = []
                for p in row:
                    if p not in objs:
                        objs[p] = mk(p)
                    urow.append(objs[p])
                udgs.append(urow)
        else:
            udgs = [[mk(p) for p in row] for row in f['grid']]
        how = f['xform']

        def xf(udgs=udgs, how=how, f=f):
            if how == 'adjust':
                return adjust_udgs(udgs, f['flip'], f['rotate'])
            if how == 'separate':
                flip_udgs(udgs, f['flip'])
                rotate_udgs(udgs, f['rotate'])
                return udgs
            udgs[0][0].flip(f['flip'])
            udgs[0][0].rotate(f['rotate'])
            return udgs
        x, y, w, h = f['crop'] if f['crop'] else (0, 0, None, None)
        src = xf if f['lazy'] else xf()
        frames.append(Frame(src, f['scale'], f['mask'], x, y, w, h, f['delay'], '', f['tindex'], f['alpha'], f['xoff'], f['yoff']))
    return frames


def _palette_arg(case):
    if not case.get('colours'):
        return None
    return {k: tuple(v) for k, v in case['colours'].items()}


def run_iw(case, generic=False):
    """-> (png bytes, [encoder names dispatched])."""
    from skoolkit.image import ImageWriter
    iw = ImageWriter({k: str(v) for k, v in case['opts'].items()}, _palette_arg(case))
    used = []
    if generic:
        w = iw.writer
        anym = w._build_image_data_bd_any
        for bd, d1 in w.png_method_dict.items():
            for fs, d2 in d1.items():
                for mk, meth in list(d2.items()):
                    name = meth.__name__.replace('_build_image_data_', '')

                    def wrapper(frame, mask, bit_depth, name=name):
                        used.append(name)
                        return anym(frame, mask, bit_depth)
                    d2[mk] = wrapper
    if not generic:
        for m, full in case.get('warm') or ():
            f0 = dict(case['frames'][0], mask=m, xoff=0, yoff=0)
            if full:
                f0['crop'] = None
            iw.write_image(_build_frames(dict(case, frames=[f0])), io.BytesIO())
    frames = _build_frames(case)
    if not generic and case.get('rewrite'):
        # the same Frame objects written once before by a writer with the opposite animation setting (#FRAMES of an
        # existing frame, two writers sharing frames): the judged write must not depend on it
        o2 = {k: str(v) for k, v in case['opts'].items()}
        o2['PNGEnableAnimation'] = '0' if o2.get('PNGEnableAnimation', '1') != '0' else '1'
        ImageWriter(o2, _palette_arg(case)).write_image(frames, io.BytesIO())
    f = io.BytesIO()
    iw.write_image(frames, f)
    return f.getvalue(), used


# memory layout for the macro entry points
ORG = 32768


def macro_memory(case):
    """-> (bytes at ORG, D, M, A, S) from the pool; pure function of the case."""
    pool = case['pool']
    mc = case['macro']
    P = len(pool)
    S = 1 if mc['step'] == 1 else P + 1
    inc = mc['inc']
    blk = 8 * (P + 2)
    D, M = ORG, ORG + blk
    A = M + blk
    grid = case['frame']['grid']
    ncell = len(grid) * len(grid[0])
    mem = bytearray(A - ORG + ncell + 8)
    for p, (attr, d, m) in enumerate(pool):
        d = bytes.fromhex(d)
        for n in range(8):
            off = 8 * p + n if S == 1 else p + n * S
            mem[D - ORG + off] = (d[n] - inc) & 255
            if m is not None:
                mem[M - ORG + off] = bytes.fromhex(m)[n]
    i = 0
    for row in grid:
        for p in row:
            mem[A - ORG + i] = pool[p][0]
            i += 1
    return bytes(mem), D, M, A, S


def _crop_text(crop, kw):
    if crop is None:
        return ''
    x, y, w, h = crop
    if kw:
        parts = ['x=%d' % x, 'y=%d' % y]
        if w is not None:
            parts.append('width=%d' % w)
        if h is not None:
            parts.append('height=%d' % h)
        return '{%s}' % ','.join(reversed(parts))
    if w is None and h is None:
        return '{%d,%d}' % (x, y)
    if h is None:
        return '{%d,%d,%d}' % (x, y, w)
    if w is None:
        return '{%d,%d,height=%d}' % (x, y, h)
    return '{%d,%d,%d,%d}' % (x, y, w, h)


def macro_text(case, fname):
    """The #UDG / #UDGARRAY macro (documented syntax) that shows case['frame']."""
    mem, D, M, A, S = macro_memory(case)
    mc = case['macro']
    f = case['frame']
    pool = case['pool']
    grid = f['grid']
    cols = len(grid[0])
    cells = [p for row in grid for p in row]
    inc = mc['inc']

    def base(b, p):
        return b + (8 * p if S == 1 else p)
    mstep_txt = ',%d' % S if mc['mstep'] else ''
    if mc['kind'] == 'udg':
        p = cells[0]
        attr, _, m = pool[p]
        vals = [('attr', attr), ('scale', f['scale']), ('step', S), ('inc', inc), ('flip', f['flip']), ('rotate', f['rotate']),
                ('mask', f['mask']), ('tindex', f['tindex']), ('alpha', f['alpha'])]
        if f['alpha'] < 0:
            vals.pop()      # -1 is the documented default; a bare (unbracketed) parameter cannot be negative
        if mc['kw']:
            params = '%d,' % base(D, p) + ','.join('%s=%d' % kv for kv in vals)
        else:
            params = '%d,' % base(D, p) + ','.join(str(v) for _, v in vals)
        mtxt = ':%d%s' % (base(M, p), mstep_txt) if m is not None and f['mask'] else ''
        return '#UDG%s%s%s(%s)' % (params, mtxt, _crop_text(f['crop'], mc['kw']), fname)
    attrs = [pool[p][0] for p in cells]
    attr_mode = mc['attr_mode']
    if attr_mode == 'default' and len(set(attrs)) > 1:
        attr_mode = 'spec'
    gattr = attrs[0] if attr_mode == 'default' else 56
    # when step/inc are given per specification, the array-wide values are decoys
    per_spec = mc['layout'] == 'cell' and attr_mode == 'spec' and mc['kw']
    vals = [('attr', gattr), ('scale', f['scale']), ('step', 3 if per_spec else S), ('inc', 9 if per_spec else inc), ('flip', f['flip']),
            ('rotate', f['rotate']), ('mask', f['mask']), ('tindex', f['tindex']), ('alpha', f['alpha'])]
    if f['alpha'] < 0:
        vals.pop()
    if mc['kw']:
        params = '%d,' % cols + ','.join('%s=%d' % kv for kv in vals)
    else:
        params = '%d,' % cols + ','.join(str(v) for _, v in vals)
    specs = []
    n = len(cells)
    if mc['layout'] == 'cell':
        for p in cells:
            s = '%d' % base(D, p)
            if attr_mode == 'spec':
                s += ',%d' % pool[p][0]
                if per_spec:
                    s += ',%d,%d' % (S, inc)
            if pool[p][2] is not None and f['mask']:
                s += ':%d%s' % (base(M, p), mstep_txt)
            specs.append(s)
    else:
        h = 8 if S == 1 else 1
        if mc['layout'] == 'range' or n == 1:
            def rng(b):
                return '%d-%d-%d' % (b, b + h * (n - 1), h) if (h != 1 or n == 1) else '%d-%d' % (b, b + n - 1)
        else:
            def rng(b):
                return '%d-%d-%d-%d' % (b, b + h * (n - 1), h, h * cols)
        s = rng(D)
        if n == 1:
            s = '%d' % D
        if attr_mode == 'spec' and len(set(attrs)) == 1:
            s += ',%d' % attrs[0]
        elif attr_mode == 'spec':
            attr_mode = 'addr'
        if pool[0][2] is not None and f['mask']:
            s += ':%s%s' % (rng(M) if n > 1 else '%d' % M, mstep_txt)
        specs.append(s)
    atxt = ''
    if attr_mode == 'addr':
        atxt = '[%d-%d]' % (A, A + n - 1) if n > 1 else '[%d]' % A
    return '#UDGARRAY%s(%s)%s%s(%s)' % (params, ';'.join(specs), atxt, _crop_text(f['crop'], mc['kw']), fname)


def scr_bytes(case):
    """6912-byte SCR file: Spectrum display file layout (pixel line l of character row r of
    third t at 16384 + 2048*t + 256*l + 32*r + column) followed by 768 attribute bytes."""
    scr = bytearray(6912)
    pool = [(p[0], bytes.fromhex(p[1])) for p in case['pool']]
    for r, row in enumerate(case['grid']):
        for c, p in enumerate(row):
            attr, d = pool[p]
            for line in range(8):
                scr[2048 * (r // 8) + 256 * line + 32 * (r % 8) + c] = d[line]
            scr[6144 + 32 * r + c] = attr
    return bytes(scr)


def run_sna2img(case):
    with cli.Scratch('c15-') as s:
        argv = []
        if case['noanim']:
            argv.append('-n')
        if case['invert']:
            argv.append('-i')
        if case['cli_flip']:
            argv += ['-f', case['cli_flip']]
        if case['cli_rotate']:
            argv += ['-r', case['cli_rotate']]
        mode = case['mode']
        if mode == 'plain':
            infile = s.write('in.scr', scr_bytes(case))
            X, Y = case['origin']
            W, H = case['size']
            argv += ['-o', '%d,%d' % (X, Y), '-S', '%dx%d' % (W, H), '-s', case['scale']]
        elif mode == 'scr':
            infile = s.write('in.scr', scr_bytes(case))
            X, Y = case['origin']
            W, H = case['size']
            m = '#SCR%d,%d,%d,%d,%d,16384,22528,%d' % (case['scale'], X, Y, W, H, case['tindex'])
            if case['alpha'] >= 0:
                m += ',%d' % case['alpha']
            m += _crop_text(case.get('crop'), False)
            argv += ['-e', m]
        else:
            mem = macro_memory(case)[0]
            infile = s.write('mem.bin', mem)
            argv += ['-O', ORG, '-e', macro_text(case, 'x')]
        r = cli.run('sna2img', argv + [infile, s.path('out.png')])
        if r.exc is not None:
            return None, r.exc, argv
        if not r.ok:
            raise Violation('sna2img-exit', 'sna2img %r exited %r: %s' % (argv, r.code, r.err[-300:]), case)
        return s.read('out.png', True), None, argv


def run_html(case):
    """The macro sits in an entry description of a generated skool file; skool2html.main builds the
    disassembly (with a generated ref file for [ImageWriter]/[Colours]) and the image is read back."""
    mem = macro_memory(case)[0]
    macro = macro_text(case, 'img')
    lines = ['; Graphic data', ';', '; ' + macro]
    for i in range(0, len(mem), 8):
        lines.append('%s%05d DEFB %s' % ('b' if i == 0 else ' ', ORG + i, ','.join(str(b) for b in mem[i:i + 8])))
    ref = ['[ImageWriter]'] + ['%s=%d' % kv for kv in sorted(case['opts'].items())]
    if case.get('colours'):
        ref.append('[Colours]')
        for name, (r_, g, b) in sorted(case['colours'].items()):
            ref.append('%s=#%02x%02X%02x' % (name, r_, g, b) if case['hexcol'] else '%s=%d,%d,%d' % (name, r_, g, b))
    with cli.Scratch('c15-') as s:
        skf = s.write('g.skool', '\n'.join(lines) + '\n')
        s.write('g.ref', '\n'.join(ref) + '\n')
        r = cli.run('skool2html', ['-q', '-w', 'd', '-d', s.path('out'), skf])
        if r.exc is not None:
            return None, r.exc, macro
        if not r.ok:
            raise Violation('skool2html-exit', 'skool2html on %r exited %r: %s' % (macro, r.code, r.err[-300:]), case)
        path = os.path.join(s.dir, 'out', 'g', 'images', 'udgs', 'img.png')
        if not os.path.isfile(path):
            raise Violation('html-no-image', 'skool2html wrote no image file for %r' % macro, case)
        page = s.read(os.path.join('out', 'g', 'asm', '%d.html' % ORG))
        if 'src="../images/udgs/img.png"' not in page:
            raise Violation('html-img-element', 'no <img> for %r in asm/%d.html' % (macro, ORG), case)
        with open(path, 'rb') as f:
            return f.read(), None, macro


# ---------------------------------------------------------------------------
# Oracle
# ---------------------------------------------------------------------------
def displayed(png, what, case):
    """Composite the APNG frames as the file prescribes -> list of planar canvases."""
    if png.colour_type != 3:
        raise Violation('colour-type', '%s: colour type %d (harness compares palette images)' % (what, png.colour_type), case)
    lut = png._lut()
    frames = png.frames
    canvas = list(frames[0].rows)
    outs = []

    def planar(rows):
        tabs = [bytes(lut[i][c] if i < len(lut) else 0 for i in range(256)) for c in range(4)]
        return [b''.join(r.translate(t) for t in tabs) for r in rows]
    outs.append(planar(canvas))
    for k, fr in enumerate(frames[1:], 1):
        prev = frames[k - 1]
        if png.animated and prev.dispose_op != 0:
            raise Violation('apng-dispose', '%s: frame %d has dispose_op %d: its pixels do not stay on screen' % (what, k - 1, prev.dispose_op), case)
        if fr.blend_op != 0 and any(lut[v][3] != 255 for row in fr.rows for v in set(row)):
            raise Violation('apng-blend', '%s: frame %d is alpha-blended over the previous one (blend_op 1) but has translucent pixels' % (what, k), case)
        for j, row in enumerate(fr.rows):
            old = canvas[fr.y + j]
            canvas[fr.y + j] = old[:fr.x] + row + old[fr.x + fr.width:]
        outs.append(planar(canvas))
    return outs


def _first_diff(a, b):
    """First differing pixel between two planar canvases -> text."""
    if len(a) != len(b):
        return 'heights %d / %d' % (len(a), len(b))
    for y, (ra, rb) in enumerate(zip(a, b)):
        if ra != rb:
            if len(ra) != len(rb):
                return 'row %d: widths %d / %d' % (y, len(ra) // 4, len(rb) // 4)
            w = len(ra) // 4
            for x in range(w):
                pa = tuple(ra[x + c * w] for c in range(4))
                pb = tuple(rb[x + c * w] for c in range(4))
                if pa != pb:
                    return 'pixel (%d,%d): got RGBA %r, expected %r' % (x, y, pa, pb)
    return 'equal'


def predicted_encoder(e, case, png):
    """Which pngwriter encoder the documented dispatch rule (bit depth, full size?, masked?) selects."""
    r = e.renders[0]
    npal = len(png.palette)
    bd = 0 if npal == 1 else png.bit_depth
    if r.cropped:
        return 'bd_any'
    f = case.get('frame')
    masked = bool(f and f['mask'] and any(case['pool'][p][2] is not None for row in f['grid'] for p in row))
    if bd == 0:
        return 'bd0'
    if bd == 4:
        return 'bd_any' if masked else 'bd4_nt'
    return 'bd%d_%s' % (bd, 'at' if masked else 'nt')


def oracle(case, rec=None):
    entry = case['entry']
    e = expectation(case)
    f17 = in_f17_class(e)
    used = []
    what = entry
    # --- run the code under test -------------------------------------------
    if entry == 'iw':
        try:
            data, _ = run_iw(case)
        except Exception as x:      # code under test
            if f17 and _quiet_without_animation(case):
                raise Violation(F17_SIG, 'ImageWriter.write_image raised %r for a cropped image with a flashing cell at %r, crop %dx%d' % (
                    x, e.renders[0].flash_abs, e.width, e.height), case)
            raise Violation(crash_sig(x, 'write_image'), 'ImageWriter.write_image raised %r' % x, case)
    elif entry == 'sna2img':
        data, exc, argv = run_sna2img(case)
        what = 'sna2img %s' % ' '.join(str(a) for a in argv)
        if exc is not None:
            if f17:
                raise Violation(F17_SIG, '%s raised %r (cropped image with a flashing cell at %r, crop %dx%d)' % (
                    what, exc, e.renders[0].flash_abs, e.width, e.height), case)
            raise Violation(crash_sig(exc, 'sna2img'), '%s raised %r' % (what, exc), case)
    else:
        data, exc, macro = run_html(case)
        what = 'skool2html %s' % macro
        if exc is not None:
            if f17:
                raise Violation(F17_SIG, '%s raised %r (cropped image with a flashing cell at %r, crop %dx%d)' % (
                    what, exc, e.renders[0].flash_abs, e.width, e.height), case)
            raise Violation(crash_sig(exc, 'html'), '%s raised %r' % (what, exc), case)

    # --- (1) validity -----------------------------------------------------------
    try:
        png = pngdec.decode(data)
    except pngdec.PngError as x:
        if f17 and x.code in ('fctl-region', 'fctl', 'data-size'):
            raise Violation(F17_SIG, '%s: invalid APNG (%s) for a cropped image with a flashing cell at %r, crop %dx%d' % (
                what, x, e.renders[0].flash_abs, e.width, e.height), case)
        raise Violation('invalid-png:' + x.code, '%s: %s' % (what, x), case)
    if (png.width, png.height) != (e.width, e.height):
        raise Violation('image-size', '%s: PNG is %dx%d, expected %dx%d' % (what, png.width, png.height, e.width, e.height), case)

    # --- (3) frame structure -------------------------------------------------------
    exp = expected_canvases(e)
    nexp = len(exp)
    if len(png.frames) != nexp:
        sig = 'frame-count'
        if f17:
            sig = F17_SIG
        raise Violation(sig, '%s: PNG has %d frame(s), expected %d (flash rectangle %r)' % (what, len(png.frames), nexp, e.flash_rect), case)
    if nexp > 1 and not png.animated:
        raise Violation('frame-count', '%s: %d frames but no acTL' % (what, nexp), case)
    if e.flash_rect is not None:
        fr = png.frames[1]
        got = (fr.x, fr.y, fr.width, fr.height)
        if got != tuple(e.flash_rect):
            raise Violation(F17_SIG if f17 else 'flash-rect', '%s: second frame occupies %r, flashing cells inside the crop occupy %r' % (
                what, got, tuple(e.flash_rect)), case)
    if len(e.renders) > 1:
        for k, (fr, r, (ox, oy)) in enumerate(zip(png.frames, e.renders, e.offsets)):
            if (fr.x, fr.y, fr.width, fr.height) != (ox, oy, r.width, r.height):
                raise Violation('frame-region', '%s: frame %d is %dx%d at (%d,%d), expected %dx%d at (%d,%d)' % (
                    what, k, fr.width, fr.height, fr.x, fr.y, r.width, r.height, ox, oy), case)
            if fr.delay_num * 100 != e.delays[k] * (fr.delay_den or 100):
                raise Violation('frame-delay', '%s: frame %d delay %d/%d s, expected %d/100 s' % (
                    what, k, fr.delay_num, fr.delay_den, e.delays[k]), case)

    # --- (2) pixels -------------------------------------------------------------------
    got = displayed(png, what, case)
    if entry == 'iw':
        try:
            data2, used = run_iw(case, generic=True)
        except Exception as x:      # code under test
            raise Violation(crash_sig(x, 'generic-encoder'), 'write_image with _build_image_data_bd_any for every dispatch slot raised %r' % x, case)
        label = sorted(set(used))
    else:
        label = [predicted_encoder(e, case, png)]
    for k in range(nexp):
        if got[k] != exp[k]:
            enc = used[min(k, len(used) - 1)] if used else label[0]
            if k == 1 and e.flash_rect is not None:
                sig = F17_SIG if f17 else 'pixels:flash-frame:' + enc
            else:
                sig = 'pixels:frame%d:%s' % (min(k, 1), enc)
            raise Violation(sig, '%s: displayed frame %d differs from the reference renderer: %s' % (what, k, _first_diff(got[k], exp[k])), case)

    # --- (4) differential: generic encoder in every slot ------------------------
    if entry == 'iw':
        try:
            png2 = pngdec.decode(data2)
        except pngdec.PngError as x:
            raise Violation('generic-invalid-png:' + x.code, 'with the generic encoder in every slot: %s' % x, case)
        got2 = displayed(png2, 'generic encoder', case) if len(png2.frames) == nexp else None
        if got2 != got:
            d = 'frame count' if got2 is None else next(_first_diff(a, b) for a, b in zip(got, got2) if a != b)
            raise Violation('encoders-differ:' + '+'.join(label), 'specialised encoder(s) %s and _build_image_data_bd_any disagree: %s' % (label, d), case)

    # --- evidence ---------------------------------------------------------------
    if rec is not None:
        r0 = e.renders[0]
        colours = set()
        for r in e.renders:
            for row in r.idx1:
                colours.update(row)
        masked = _masked(case)
        scaled = any(_scales(case))
        nt = len(colours) >= 2 and (r0.cropped or masked or scaled)
        klass = ['entry:' + entry] + ['enc:' + n for n in label] + ['bit-depth:%d' % png.bit_depth]
        if entry == 'sna2img':
            klass.append('sna2img:' + case['mode'])
        if entry == 'html' or (entry == 'sna2img' and 'macro' in case):
            klass.append('macro:' + case['macro']['kind'])
        if r0.cropped:
            klass.append('cropped')
            crop = _crop_of(case)
            if crop and (crop[0] % (8 * _scale_of(case)) or crop[1] % (8 * _scale_of(case))):
                klass.append('crop:unaligned')
        if masked:
            klass.append('masked:%d' % masked)
        if 0 in colours:
            klass.append('transparent-pixels')
        if png.trns is not None:
            klass.append('tRNS')
            if e.tcode:
                klass.append('tindex-used')
        if e.flash_rect is not None:
            klass.append('flash-frame')
            if r0.cropped:
                klass.append('flash-frame:cropped')
            if r0.flash_abs[0] > r0.width or r0.flash_abs[1] > r0.height:
                klass.append('flash-frame:origin-beyond-crop-size')
        if len(e.renders) > 1:
            klass.append('multi-frame')
        if case.get('warm'):
            klass.append('writer-reused')
        if case.get('rewrite'):
            klass.append('frames-rewritten')
        if any(_xforms(case)):
            klass.append('flip/rotate')
        if case.get('colours'):
            klass.append('custom-colours')
        if case.get('share'):
            klass.append('shared-udgs')
        if e.invert:
            klass.append('sna2img:-i')
        sample = {'entry': entry, 'size': [e.width, e.height], 'frames': nexp, 'encoders': label, 'bit_depth': png.bit_depth,
                  'palette': len(png.palette), 'flash_rect': e.flash_rect, 'what': what[:160] if entry != 'iw' else
                  {'tiles': [len(case['frames'][0]['grid'][0]), len(case['frames'][0]['grid'])], 'scale': case['frames'][0]['scale'],
                   'crop': case['frames'][0]['crop'], 'mask': case['frames'][0]['mask'], 'flip': case['frames'][0]['flip'],
                   'rotate': case['frames'][0]['rotate'], 'opts': case['opts']}}
        rec.case(repr(sorted(case.items())), nt, klass, sample)
    return 'ok'


def _frames_of(case):
    if case['entry'] == 'iw':
        return case['frames']
    if 'frame' in case:
        return [case['frame']]
    return []


def _masked(case):
    for f in _frames_of(case):
        if f['mask'] and any(case['pool'][p][2] is not None for row in f['grid'] for p in row):
            return f['mask']
    return 0


def _scales(case):
    fs = _frames_of(case)
    if fs:
        return [f['scale'] > 1 for f in fs]
    return [case['scale'] > 1]


def _scale_of(case):
    fs = _frames_of(case)
    return fs[0]['scale'] if fs else case['scale']


def _crop_of(case):
    fs = _frames_of(case)
    return fs[0]['crop'] if fs else case.get('crop')


def _xforms(case):
    out = [bool(f['flip'] or f['rotate']) for f in _frames_of(case)]
    if case['entry'] == 'sna2img':
        out.append(bool(case['cli_flip'] or case['cli_rotate']))
    return out


def _quiet_without_animation(case):
    """True if the same frames are written without an exception when PNGEnableAnimation=0,
    i.e. the crash is in the flash-frame path."""
    c2 = dict(case)
    c2['opts'] = dict(case['opts'], PNGEnableAnimation=0)
    try:
        run_iw(c2)
    except Exception:      # code under test
        return False
    return True


# ---------------------------------------------------------------------------
# Module contract
# ---------------------------------------------------------------------------
def plan(tier, seed):
    if tier == 'quick':
        kinds = [('iw', 22, 550), ('sna2img', 5, 450), ('html', 5, 200)]
    else:
        kinds = [('iw', 44, 5000), ('sna2img', 10, 3500), ('html', 10, 2000)]
    shards = []
    for kind, nsh, n in kinds:
        for _ in range(nsh):
            shards.append({'kind': kind, 'tier': tier, 'n': n, 'seed': shard_seed(seed, PROPERTY, len(shards))})
    return shards


def run_shard(shard, rec):
    quick = shard['tier'] == 'quick'
    hyp_run(rec, cases(shard['tier'], shard['kind']), lambda c: oracle(c, rec), shard['n'], shard['seed'],
            max_buckets=2 if quick else 4, shrink_budget_s=8.0 if quick else 60.0)


def replay(case):
    oracle(case)


def known_class(sig, case):
    """F17: ImageWriter._get_colours initialises the flash rectangle's minimum with the crop
    *size* (min_x, min_y = width, height) instead of the crop's far corner. Only failures of the
    flash-frame path on a cropped single-frame image whose leftmost (topmost) flashing cell lies at
    an uncropped x (y) coordinate greater than the crop width (height) belong to the class."""
    if sig != F17_SIG or not isinstance(case, dict):
        return None
    try:
        e = expectation(case)
    except (KeyError, TypeError, ValueError, IndexError):
        return None
    return 'F17' if in_f17_class(e) else None


MANIFEST_ENTRY = {
    'technique': 'reference-model + differential property test: Hypothesis-generated tile arrays and render options through ImageWriter.write_image, sna2img.main and skool2html.main (#UDG/#UDGARRAY), judged by an independent PNG/APNG decoder/validator and Spectrum tile renderer (ref/pngdec.py), plus specialised-vs-generic encoder differential',
    'level_text': 'Every generated image is (1) parsed by an independent PNG/APNG validator (signature, chunk order and lengths, CRC32, IHDR vs PLTE/tRNS, acTL/fcTL/fdAT sequence numbers and frame regions, zlib stream inflating to exactly height*(1+stride) bytes, all five filter types), (2) composited frame by frame and compared RGBA-exactly with a renderer written from the documented display rules (ink/paper/bright, mask truth tables, tindex/alpha, flip/rotate as geometric operations, scale by replication, crop last), (3) checked for the flash-frame rule (second frame iff a visible flashing cell, exactly on the clipped cell rectangle, ink/paper exchanged) and (4) re-written with _build_image_data_bd_any in every dispatch slot and compared. Class labels prove that all 7 encoders, bit depths 1/2/4, cropped/masked/flash/multi-frame images and the three entry points are reached in the quick tier.',
    'level_note': 'Sampled, not exhaustive: quick tier ~15000 images (median about 6x4 tiles, at most 160k pixels per frame), thorough ~275000 images up to 32x24 tiles and scale 12 (at most 3.2M pixels per frame). #FONT, #OVER/#PLOT/#COPY/#UDGS frame macros and overlay_udgs are not exercised; the delay of flash frames and the APNG play count are not judged (undocumented).',
}
