"""C19 - contention simulation only ever adds the delays the ULA would impose.

Every opcode slot is executed on plain and contended simulators (Python and C)
from the same state, over a grid of operand/PC/stack/port/I placements and
frame positions (all 8 phases of the pattern on first/middle/last display line,
around the boundaries of the contended window, border part of a line, top and
bottom border), for the 48K and 128K frame layouts (128K with an even and an
odd bank at 0xC000). Oracles: (1) registers/flags/memory equal to the plain
simulator's; (2) dT >= plain dT, with equality when no bus address is contended
or outside the display-fetch window; (3) exact: dT - plain dT equals the sum of
the ULA pattern over the reference bus-cycle list of ref/z80ref (published
contention table), evaluated by ref/ula.
"""
from hypothesis import strategies as st

from vlib.runner import Violation, hyp_run, shard_seed
from vlib import simdrv
from vlib.stepcmp import StepEnv
from ref import ula
from checks import c05

PROPERTY = 'C19'
RULE = ('Grid: every opcode slot (1792) x 15 placements of (PC, data pointers, SP, port, I) over {ROM, 0x4000-0x7FFF, 0x8000-0xBFFF, '
        '0xC000+} x ~45 frame positions x machines {48K, 128K bank 0 at 0xC000, 128K bank 1 at 0xC000} x both outcomes of '
        'conditional/repeating instructions, enumerated without repetition, plus Hypothesis-drawn (slot, registers, T anywhere '
        'in the frame) cases. Non-trivial: the reference model predicts a delay > 0 (at least one contended cycle hit a '
        'non-zero point of the pattern); distinct by construction (grid) / digest (drawn).')
ASSUMPTIONS = [
    'bus-cycle breakdown per instruction from the published Spectrum contention table (ref/z80ref cycles; DESIGN.md Appendix A)',
    'where the table leaves the register-pair value of a repeated block instruction\'s five trailing internal cycles open (before/after update), either is accepted',
    'grid ports are chosen with bit 1 set so that no 128K paging write happens there (paging is C06/C08); a separate enumerated shard covers OUT (n),A to the paging port executed from 0xC000+',
]

_envs = {}


def env(machine):
    e = _envs.get(machine)
    if e is None:
        if machine == '48':
            e = StepEnv()
        elif machine == '128e':
            e = StepEnv(o7ffd=0)
        else:
            e = StepEnv(o7ffd=1)
        _envs[machine] = e
    return e


def machine_model(machine):
    return ula.M48 if machine == '48' else ula.M128


REGION = {'rom': 0x1230, 'con': 0x5670, 'unc': 0x9AB0, 'hi': 0xCDE0,
          # stack pointers whose pushed/popped word straddles a contention boundary
          'sb8': 0x8001, 'sb4': 0x4001, 'sbc': 0xC001, 'sp7': 0x7FFF}
# (pc, data, sp, port-high, port-low, I)
PLACEMENTS = [
    ('unc', 'unc', 'unc', 'unc', 0xFF, 'unc'),
    ('con', 'unc', 'unc', 'unc', 0xFF, 'unc'),
    ('unc', 'con', 'unc', 'unc', 0xFF, 'unc'),
    ('unc', 'unc', 'con', 'unc', 0xFF, 'unc'),
    ('unc', 'unc', 'unc', 'con', 0xFE, 'unc'),
    ('unc', 'unc', 'unc', 'con', 0xFF, 'unc'),
    ('unc', 'unc', 'unc', 'unc', 0xFE, 'con'),
    ('con', 'con', 'con', 'con', 0xFE, 'con'),
    ('hi', 'hi', 'hi', 'hi', 0xFF, 'hi'),
    ('rom', 'rom', 'unc', 'rom', 0xFE, 'rom'),
    ('hi', 'con', 'hi', 'hi', 0xFE, 'unc'),
    ('unc', 'unc', 'sb8', 'unc', 0xFF, 'unc'),
    ('unc', 'unc', 'sb4', 'unc', 0xFF, 'unc'),
    ('unc', 'unc', 'sbc', 'unc', 0xFF, 'unc'),
    ('unc', 'unc', 'sp7', 'unc', 0xFF, 'unc'),
]


def tlist(machine):
    m = machine_model(machine)
    ts = set()
    for line in (0, 1, 95, 191):
        base = m.t0 + line * m.line
        ts.update(range(base - 1, base + 9))            # all 8 phases + neighbours
        ts.update((base + 120, base + 126, base + 127, base + 128, base + 129, base + 200))
    ts.update(range(m.t0 - 26, m.t0 + 3))               # approach of the window start
    ts.update(range(m.t1 - 30, m.t1 + 3))               # end of the window
    ts.update((0, 10, 5000, m.t0 - 100, m.t1 + 100, m.frame - 30, m.frame - 5, m.frame - 1))
    return sorted(t for t in ts if 0 <= t < m.frame)


def build_case(slot, placement, t, variant, machine, frames=0):
    g, op = slot
    pcr, datar, spr, porthi, portlo, ir = placement
    pc = REGION[pcr]
    data = REGION[datar]
    sp = REGION[spr]
    d = 0x05
    if g in ('DDCB', 'FDCB'):
        code = c05.code_for(g, op, d, 0, 0)
    elif g in ('DD', 'FD'):
        code = [0xDD if g == 'DD' else 0xFD, op, d, 0x00]
    elif g == 'ED':
        code = [0xED, op, data & 255, data >> 8]
    elif g == 'CB':
        code = [0xCB, op, 0, 0]
    else:
        code = [op, data & 255, data >> 8, 0]
    # operand fix-ups so that immediate/port operands have the wanted meaning
    uses_port_n = g == 'main' and op in (0xD3, 0xDB)
    a = 0x01
    if uses_port_n:
        code[1] = portlo
        a = REGION[porthi] >> 8
    is_io_c = g == 'ED' and ((op & 0xC6) == 0x40 or (op & 0xE4) == 0xA0 and (op & 3) >= 2)
    jr = g == 'main' and op in (0x10, 0x18, 0x20, 0x28, 0x30, 0x38)
    if jr:
        code[1] = 0x02
    regs = {'a': a, 'f': 0x00 if variant == 0 else 0xFF, 'sp': sp, 'i': REGION[ir] >> 8, 'r': 0x55,
            'h': data >> 8, 'l': data & 255, 'd': (data >> 8), 'e': (data + 0x40) & 255,
            'ixh': data >> 8, 'ixl': (data - d) & 255, 'iyh': data >> 8, 'iyl': (data - d) & 255,
            'iff': 0, 'im': 1, 't': t + frames * machine_model(machine).frame}
    if g in ('DD', 'FD') and op == 0x36:
        code[3] = 0x77
    if is_io_c:
        b, c = REGION[porthi] >> 8, portlo
        if variant == 1 and (op & 0xF0) == 0xB0:
            b = (b & 0xF0) | 0x01          # B=1: the repeat ends (same region for the port high byte)
            if b >> 4 != REGION[porthi] >> 12:
                b = REGION[porthi] >> 8
    else:
        # BC as pointer / counter
        b, c = (data >> 8, (data + 0x80) & 255)
        if g == 'ED' and (op & 0xE4) == 0xA0:
            b, c = (0, 2) if variant == 0 else (0, 1)       # block counter: repeats / ends
        if g == 'main' and op == 0x10:
            b = 2 if variant == 0 else 1
    regs['b'], regs['c'] = b, c
    cells = [[(data + 0x80) & 0xFFFF, 0x33], [data, 0x44], [(data + 1) & 0xFFFF, 0x40], [sp, 0x10], [(sp + 1) & 0xFFFF, 0x90]]
    if g == 'main' and op == 0x76:
        regs['halted'] = variant
    return {'machine': machine, 'slot': [g, op], 'pc': pc, 'code': code, 'regs': regs, 'cells': cells, 'salt': 7}


def t_oracle_factory(machine, info):
    m = machine_model(machine)
    bank = 1 if machine == '128o' else 0

    def t_expect(s, z, results, case):
        t0 = case['regs'].get('t', 0)
        hx = ' '.join('%02X' % b for b in case['code'])
        exp = m.apply(t0, s.cycles, bank)
        alts = {exp}
        if s.alt_cycles is not None:
            alts.add(m.apply(t0, s.alt_cycles, bank))
        info['delay'] = exp - s.t
        for impl, dt in results.items():
            if 'cmio' in impl:
                if dt < s.t:
                    raise Violation('cmio-faster', '%s [%s] %s at T=%d: contended %d T-states < plain %d' % (impl, s.name, hx, t0 % m.frame, dt, s.t), case)
                if dt not in alts:
                    sig = 'delay:%s' % s.name if exp != s.t or dt != s.t else 'delay-uncontended:%s' % s.name
                    raise Violation(sig, '%s [%s] %s at T=%d (%s): took %d T-states, ULA model %s (plain %d); cycles %s' % (
                        impl, s.name, hx, t0 % m.frame, machine, dt, sorted(alts), s.t, s.cycles), case)
            else:
                if dt != s.t:
                    raise Violation('tstates:%s' % s.name, '%s [%s] %s: took %d T-states, reference %d' % (impl, s.name, hx, dt, s.t), case)
    return t_expect


# flag bits that legitimately depend on MEMPTR (only modelled by the contended simulators)
def memptr_flag_mask(s):
    if s.name == 'BIT' and any(True for _ in [0]):
        return 0x28
    return 0


def check_case(case, rec=None):
    machine = case['machine']
    e = env(machine)
    info = {}
    s, results = e.run_case(case, full_mem=False, t_expect=t_oracle_factory(machine, info))
    # (1) registers and flags equal to the plain simulator's, bit for bit (MEMPTR-dependent bits aside)
    mask = 0xFF
    if s.name == 'BIT' and case['code'][0] == 0xCB and case['code'][1] & 7 == 6:
        mask = 0xD7        # BIT n,(HL): bits 3 and 5 come from MEMPTR
    for plain, cm in (('py', 'pycmio'), ('c', 'ccmio')):
        if plain in e.last_regs and cm in e.last_regs:
            a, b = e.last_regs[plain], e.last_regs[cm]
            for k in range(29):
                if k == simdrv.T:
                    continue
                x, y = a[k], b[k]
                if k == simdrv.F:
                    x, y = x & mask, y & mask
                if x != y:
                    raise Violation('plain-vs-cmio:%s:%s' % (s.name, simdrv.REGNAMES.get(k, k)),
                                    '%s vs %s [%s] %s: %s = %d vs %d' % (plain, cm, s.name, ' '.join('%02X' % v for v in case['code']),
                                                                       simdrv.REGNAMES.get(k, k), a[k], b[k]), case)
    if rec is not None:
        return info.get('delay', 0) > 0, s
    return None


# --- OUT (n),A that pages another bank in while executing from 0xC000+ ------------------------------------------
def paging_out_cases():
    """OUT (n),A to the 128K paging port, executed from 0xC000 with an even/odd bank there, paging an odd/even bank in:
    the opcode and operand fetches happen with the *old* bank at 0xC000, so its parity decides their contention."""
    m = ula.M128
    out = []
    for old in (0, 1, 6, 7):
        for new in (0, 1, 4, 3, 0x10, 0x11):
            if new & 7 == old:
                continue
            for n_ in (0xFD, 0xFC, 0x01):
                for t in (m.t0 - 3, m.t0, m.t0 + 1, m.t0 + 3, m.t0 + 5, m.t0 + 130, m.t0 + m.line * 100 + 2, m.t1 - 2, 100):
                    out.append({'paging_out': 1, 'old': old, 'new': new, 'n': n_, 't': t})
    return out


def paging_out_oracle(case):
    from checks import c06
    m = ula.M128
    old, new, n_, t = case['old'], case['new'], case['n'], case['t']
    pc = 0xC000
    cycles = [(pc, 4), (pc + 1, 3), ('io', (new << 8) | n_)]
    expect = m.apply(t, cycles, old)
    c6 = {'model': '128', 'base': pc, 'code': [0xD3, n_, 0x00, 0x00], 'fill_seed': 1, 'fill_style': 0,
          'regs': {'A': new, 'F': 0, 'BC': 0, 'DE': 0, 'HL': 0, 'IX': 0, 'IY': 0, 'SP': 0x8000, 'I': 0x80, 'R': 0, '^A': 0, '^F': 0, '^BC': 0, '^DE': 0, '^HL': 0},
          'im': 1, 'iff': 0, 'tstates': t, 'interrupts': False, 'o7ffd': old, 'tracer': True, 'in_r_c': True, 'ini': True, 'salt': 0, 'steps': 1,
          'start_off': 0}
    for impl in ('pycmio', 'ccmio'):
        sim, tracer, cfg = c06.build(c6, impl)
        regs = sim.registers
        t0 = int(regs[25])
        sim.run(pc)
        dt = int(regs[25]) - t0
        if dt != expect:
            raise Violation('delay:OUT (n),A:paging', '%s: OUT ($%02X),A with A=$%02X at $C000, bank %d paged in, T=%d: took %d T-states, ULA model %d (the fetches see bank %d)' % (
                impl, n_, new, old, t, dt, expect, old), case)
    return expect > 11


# --- shards -------------------------------------------------------------------
def plan(tier, seed):
    slots = c05.all_slots()
    shards = []
    nsh = 16
    for machine in ('48', '128e', '128o'):
        for i in range(nsh):
            shards.append({'kind': 'grid', 'machine': machine, 'slots': slots[i::nsh], 'tier': tier,
                           'tstep': (3 if machine == '48' else 5) if tier == 'quick' else 1, 'toff': (seed + i) % 5})
    n = 40000 if tier == 'quick' else 1500000
    for i in range(16):
        shards.append({'kind': 'hyp', 'n': n // 16, 'seed': shard_seed(seed, PROPERTY, i)})
    shards.append({'kind': 'paging_out'})
    if tier == 'thorough':
        # full frame sweep for representative opcodes
        reps = [('main', 0x00), ('main', 0x7E), ('main', 0x34), ('main', 0xE5), ('main', 0xE3), ('main', 0xCD), ('main', 0xD3), ('main', 0xDB),
                ('main', 0x09), ('main', 0x10), ('CB', 0x46), ('CB', 0x06), ('ED', 0xB0), ('ED', 0xB1), ('ED', 0xB2), ('ED', 0xB3),
                ('ED', 0x78), ('ED', 0x79), ('ED', 0x6F), ('ED', 0x4A), ('ED', 0x43), ('ED', 0x57), ('DD', 0x34), ('DD', 0x36),
                ('DD', 0x7E), ('DDCB', 0x06), ('DDCB', 0x46), ('FD', 0xE3), ('main', 0x76), ('main', 0xC9)]
        for machine in ('48', '128o'):
            for k, slot in enumerate(reps):
                shards.append({'kind': 'sweep', 'machine': machine, 'slot': list(slot)})
    return shards


def run_shard(shard, rec):
    kind = shard['kind']
    if kind == 'paging_out':
        n = nt = 0
        for case in paging_out_cases():
            try:
                nt += bool(paging_out_oracle(case))
            except Violation as v:
                rec.violation(v)
            n += 1
        rec.bulk(n, nt, 'paging-out')
        rec.sample('paging-out', {'instruction': 'OUT (n),A from 0xC000 paging another bank in', 'cases': n})
        return
    if kind == 'grid':
        machine = shard['machine']
        ts = tlist(machine)
        step, off = shard['tstep'], shard['toff']
        n = nt = 0
        for slot in shard['slots']:
            slot = tuple(slot)
            g, op = slot
            variants = (0, 1)
            for pi, placement in enumerate(PLACEMENTS):
                if machine == '48' and placement[0] == 'hi' and pi == 8:
                    pass
                sub = ts[(off + pi) % step::step] if step > 1 else ts
                for t in sub:
                    for variant in variants:
                        case = build_case(slot, placement, t, variant, machine)
                        try:
                            r = check_case(case, rec)
                            if r and r[0]:
                                nt += 1
                                if nt % 4001 == 1:
                                    rec.sample('grid:' + machine, {'slot': list(slot), 'name': r[1].name, 'placement': list(placement), 't': t,
                                                                   'code': ' '.join('%02X' % b for b in case['code'])})
                        except Violation as v:
                            rec.violation(v)
                        n += 1
        rec.bulk(n, nt, 'grid:' + machine)
        rec.note('grid_cases_with_predicted_delay', nt)
    elif kind == 'sweep':
        machine = shard['machine']
        m = machine_model(machine)
        slot = tuple(shard['slot'])
        n = nt = 0
        for t in range(m.frame):
            case = build_case(slot, PLACEMENTS[7], t, 0, machine)
            try:
                r = check_case(case, rec)
                nt += bool(r and r[0])
            except Violation as v:
                rec.violation(v)
            n += 1
        rec.bulk(n, nt, 'sweep:' + machine)
        rec.sample('sweep:' + machine, {'slot': list(slot), 'placement': list(PLACEMENTS[7]), 't': 'all 0..%d' % (m.frame - 1)})
    else:
        slots = c05.all_slots()
        hyp_run(rec, drawn_cases(slots), lambda c: _hyp_oracle(c, rec), shard['n'], shard['seed'])


@st.composite
def drawn_cases(draw, slots):
    machine = draw(st.sampled_from(['48', '48', '128e', '128o']))
    base = draw(c05.cases(slots))
    m = machine_model(machine)
    t = draw(st.one_of(st.integers(0, m.frame - 1), st.integers(m.t0 - 30, m.t0 + 260), st.integers(m.t1 - 260, m.t1 + 10)))
    base['regs']['t'] = t + m.frame * draw(st.sampled_from([0, 0, 2]))
    base['regs']['halted'] = base['regs'].get('halted', 0)
    base['machine'] = machine
    # no paging writes inside this check: force bit 1 of any port low byte
    g, op = base['slot']
    if g == 'main' and op in (0xD3, 0xDB):
        base['code'][1] |= 0x02
    base['regs']['c'] |= 0x02 if (g == 'ED' and ((op & 0xC6) == 0x40 or (op & 0xE4) == 0xA0 and (op & 3) >= 2)) else 0
    return base


def _hyp_oracle(case, rec):
    r = check_case(case, rec)
    g = case['slot'][0]
    rec.case(c05._key(case) + (case['machine'],), bool(r and r[0]), 'drawn:' + case['machine'],
             {'machine': case['machine'], 'slot': case['slot'], 'pc': case['pc'], 't': case['regs']['t'],
              'code': ' '.join('%02X' % b for b in case['code'])})


def replay(case):
    if case.get('paging_out'):
        paging_out_oracle(case)
        return
    check_case(case)


MANIFEST_ENTRY = {
    'technique': 'metamorphic + reference-model differential: plain vs contended simulators from identical states over an enumerated placement x frame-position grid, delays checked against an independent ULA/bus-cycle model',
    'level_text': 'Every opcode slot x 15 placements x a frame-position list covering all 8 pattern phases on first/middle/last display lines and both window boundaries x 3 machine layouts x taken/not-taken is enumerated on all four simulators (quick: every 3rd/5th position per placement, rotated by seed; thorough: all, plus complete 69888/70908-position sweeps for 30 representative opcodes); Hypothesis adds drawn register/T states. Delay must equal the ULA pattern summed over ref/z80ref bus cycles.',
    'level_note': 'Trusted: ref/ula.py and the bus-cycle lists in ref/z80ref.py (from the published contention table, self-tested: cycle sums equal instruction timings). Ambiguity of trailing cycles of repeated block instructions is resolved permissively.',
}
