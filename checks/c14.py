"""C14 - sna2ctl always emits a complete, ordered, non-overlapping control file.

Validity predicate over sna2ctl's stdout (starts at START, strictly increasing
block addresses, terminating 'i' at END, every code-map address inside a 'c'
block), then sna2skool on that control file (no overlap warnings; sub-block
directives sit on instruction boundaries) and the C01 round trip through
skool2bin. Termination is observed with a SIGALRM watchdog.
"""
import re

from hypothesis import strategies as st

from vlib.runner import Violation, hyp_run, shard_seed, crash_sig
from vlib import cli, gen_skool, simdrv
from ref import z80ref
from vlib.guard import run_with_alarm

PROPERTY = 'C14'
RULE = ('Hypothesis draws a memory image (C01\'s segment generator: random, code-like with RET/JP/JR/CALL/RST, text-rich, '
        'zero runs, prefix-heavy; may end mid-instruction at END), a range, options (-C, -r + RSTHandlerConfig, -h/-l, TextChars, '
        'TextMinLengthCode/Data, Dictionary) and a code map: none, one of five formats (Z80 8K bitmap, SpecEmu 64K, rzxplay, Fuse, '
        'Spud) built from a real execution trace of the image in the simulator, or an arbitrary address set. Non-trivial: the '
        'output has >= 2 block types, or a map with >= 2 disjoint executed regions, or -C/-r produced a sub-block directive; '
        'distinct = digest of the case.')
ASSUMPTIONS = [
    'the control file written by sna2ctl -r is fed to sna2skool without -r (the RST arguments are already B/W directives)',
    'sna2ctl normally needs milliseconds for these sizes; a run that exceeds 120 s in a forked child is reported as non-terminating',
    'for arbitrary (non-trace) address sets only termination and tiling are judged, not containment in code blocks being meaningful code',
]

TEXT_CHARS = ['', '', 'abcdefghijklmnopqrstuvwxyzABCDEFGHIJKLMNOPQRSTUVWXYZ ', '0123456789ABCDEF$',
              'abcdefghijklmnopqrstuvwxyz \xe9\xc9\xc3\x18']      # incl. characters whose codes are terminal opcodes (JP (HL), RET, JP, JR)


@st.composite
def cases(draw, tier):
    start, data = draw(gen_skool.images(600 if tier == 'quick' else 6000, 4))
    case = {
        'start': start,
        'data': bytes(data).hex(),
        'comments': draw(st.booleans()),
        'rst': draw(st.sampled_from([0, 0, 1])),
        'rstcfg': draw(st.sampled_from(['8:B', '8:B,16:W', '8:B,16:W,40:B,56:W'])),
        'hexfmt': draw(st.sampled_from(['', '', '-h', '-l'])),
        'text_chars': draw(st.sampled_from(TEXT_CHARS)),
        'tmlc': draw(st.sampled_from([None, None, 1, 2, 3, 12])),
        'tmld': draw(st.sampled_from([None, None, 1, 3, 8])),
        'dictionary': draw(st.sampled_from([None, None, None, ['the', 'and'], ['zz']])),
        'map': None,
    }
    case['map_order'] = draw(st.sampled_from([0, 0, 1, 2]))
    case['map_below'] = draw(st.lists(st.sampled_from([1, 2, 3, 5, 7, 8, 9, 100, 16384]), max_size=3, unique=True))
    case['map_above'] = draw(st.lists(st.sampled_from([0, 1, 2, 7, 8, 300]), max_size=3, unique=True))
    mk = draw(st.sampled_from(['none', 'none', 'trace', 'trace', 'trace', 'set']))
    if mk != 'none':
        fmt = draw(st.sampled_from(['z80', 'specemu', 'rzxplay', 'fuse', 'spud']))
        if mk == 'trace':
            entries = draw(st.lists(st.integers(0, len(data) - 1), min_size=1, max_size=4))
            case['map'] = {'kind': 'trace', 'fmt': fmt, 'entries': entries, 'steps': draw(st.integers(5, 300))}
        else:
            addrs = sorted(set(draw(st.lists(st.integers(0, len(data) - 1), min_size=1, max_size=30))))
            case['map'] = {'kind': 'set', 'fmt': fmt, 'offsets': addrs}
    return case


def trace_addresses(start, data, entries, steps, rst_args=None):
    """Addresses of instructions actually executed from the entry points (in range only). rst_args: {address: n} - the
    program's own RST routines consume n inline argument bytes and return behind them (what -r describes)."""
    from skoolkit.simulator import Simulator
    end = start + len(data)
    seen = set()
    for ent, f0 in [(e_, f_) for e_ in entries for f_ in (None, 0x00, 0xFF)]:
        # (each entry is also run with all flags clear and all flags set, so that both outcomes of the first
        # conditional jumps are in the map, as they would be after a real session)
        mem = [0] * 65536
        mem[start:end] = data
        sim = Simulator(mem, {'SP': 0xFF00 if end <= 0xFE00 else 0x7F00})
        if f0 is not None:
            sim.registers[1] = f0
        pc = start + ent
        regs = sim.registers
        for _ in range(steps):
            if not start <= pc < end:
                break
            # an instruction that is not completely inside the image cannot have been executed from it
            if pc + z80ref.instruction_length(*[mem[(pc + k) & 0xFFFF] for k in range(4)]) > end:
                break
            seen.add(pc)
            op = mem[pc]
            if rst_args and op & 0xC7 == 0xC7 and (op & 0x38) in rst_args:
                pc = pc + 1 + rst_args[op & 0x38]
                continue
            sim.run(pc)
            pc = regs[24]
    return sorted(seen)


def write_map(s, fmt, addrs, order=0):
    if order and fmt in ('rzxplay', 'fuse', 'spud'):
        # logs and profiles list addresses in the order (and as often as) the emulator saw them
        addrs = list(addrs)
        addrs = (addrs[::-1] + addrs[:3]) if order == 1 else (addrs[1::2] + addrs[::2] + addrs[-2:])
    if fmt == 'z80':
        bits = bytearray(8192)
        for a in addrs:
            bits[a // 8] |= 1 << (a % 8)
        return s.write('map.bin', bytes(bits))
    if fmt == 'specemu':
        m = bytearray(65536)
        for a in addrs:
            m[a] = 1
        return s.write('map.bin', bytes(m))
    if fmt == 'rzxplay':
        return s.write('map.txt', ''.join('$%04X\n' % a for a in addrs))
    if fmt == 'fuse':
        return s.write('map.txt', ''.join('0x%04x,%d\n' % (a, 3) for a in addrs))
    return s.write('map.txt', ''.join('PC = %04X  SP = FF00\n' % a for a in addrs))


BLOCK_RE = re.compile(r'^([bcgistuw]) (\$[0-9A-Fa-f]{4}|\d{5})\b')
SUB_RE = re.compile(r'^([ BCSTWM]) (\$[0-9A-Fa-f]{4}|\d{5})')


def _addr(s):
    return int(s[1:], 16) if s[0] == '$' else int(s)


def oracle(case, rec=None):
    data = bytes.fromhex(case['data'])
    start = case['start']
    end = start + len(data)
    with cli.Scratch('c14-') as s:
        binf = s.write('in.bin', data)
        ini = []
        if case['rst']:
            ini.append('[skoolkit]\nRSTHandlerConfig=%s\n' % case['rstcfg'])
        if ini:
            s.write('skoolkit.ini', ''.join(ini))
            cli.reset_config()
        argv = ['-o', start]
        if end < 65536:
            argv += ['-e', end]
        if case['comments']:
            argv.append('-C')
        if case['rst']:
            argv.append('-r')
        if case['hexfmt']:
            argv.append(case['hexfmt'])
        if case['text_chars']:
            argv += ['-I', 'TextChars=' + case['text_chars']]
        if case['tmlc'] is not None:
            argv += ['-I', 'TextMinLengthCode=%d' % case['tmlc']]
        if case['tmld'] is not None:
            argv += ['-I', 'TextMinLengthData=%d' % case['tmld']]
        if case['dictionary']:
            argv += ['-I', 'Dictionary=' + s.write('words.txt', '\n'.join(case['dictionary']) + '\n')]
        mapped = []
        mp = case['map']
        if mp:
            if mp['kind'] == 'trace':
                rst_args = None
                if case['rst']:
                    rst_args = {int(x.split(':')[0]): {'B': 1, 'W': 2}[x.split(':')[1]] for x in case['rstcfg'].split(',')}
                mapped = trace_addresses(start, list(data), mp['entries'], mp['steps'], rst_args)
            else:
                mapped = [start + o for o in mp['offsets'] if o < len(data)]
            if not mapped:
                mp = None
            else:
                # an emulator's map covers the whole address space: addresses executed outside [start, end) - in
                # particular just below START and at/after END - are in the file too and must be ignored
                outside = [a for a in (start - d for d in case.get('map_below', ())) if 0 <= a < start]
                outside += [a for a in (end + d for d in case.get('map_above', ())) if end <= a < 65536]
                argv += ['-m', write_map(s, mp['fmt'], sorted(set(mapped) | set(outside)), case.get('map_order', 0))]
        argv.append(binf)
        res = run_with_alarm(lambda: _run_sna2ctl(argv), 120.0)
        if res[0] == 'hang':
            raise Violation('sna2ctl-hang', 'sna2ctl %s did not terminate within 120 s' % ' '.join(map(str, argv[:-1])), case)
        if res[0] != 'ok':
            raise Violation('sna2ctl-crash', 'sna2ctl child failed: %r' % (res,), case)
        out, err, code, exc = res[1]
        if exc:
            raise Violation('sna2ctl-exception:' + exc.split('(')[0], 'sna2ctl raised %s' % exc, case)
        if code not in (None, 0):
            raise Violation('sna2ctl-exit', 'sna2ctl exited %r: %s' % (code, err[-200:]), case)
        # ---- validity predicate over stdout ------------------------------------
        blocks = []
        subs = []
        for line in out.split('\n'):
            m = BLOCK_RE.match(line)
            if m:
                blocks.append((m.group(1), _addr(m.group(2))))
                continue
            m = SUB_RE.match(line)
            if m:
                subs.append((m.group(1), _addr(m.group(2)), line))
        if not blocks:
            raise Violation('no-blocks', 'sna2ctl wrote no block directive', case)
        if blocks[0][1] != start:
            raise Violation('first-block', 'first block directive at %d, START is %d' % (blocks[0][1], start), case)
        for (c1, a1), (c2, a2) in zip(blocks, blocks[1:]):
            if a2 <= a1:
                raise Violation('not-increasing', 'block addresses not strictly increasing: %s %d then %s %d' % (c1, a1, c2, a2), case)
        if end < 65536:
            if blocks[-1] != ('i', end):
                sig = 'no-terminator'
                raise Violation(sig, 'last block directive is %s %d, expected the terminating i %d' % (blocks[-1][0], blocks[-1][1], end), case)
        elif blocks[-1][1] >= 65536:
            raise Violation('beyond-64K', 'block directive at %d' % blocks[-1][1], case)
        for c, a in blocks[:-1] if end < 65536 else blocks:
            if not start <= a < end:
                raise Violation('outside-range', 'block directive %s %d outside [%d,%d)' % (c, a, start, end), case)
        if mp and mp['kind'] == 'trace':
            import bisect
            addrs = [a for _, a in blocks]
            for a in mapped:
                k = bisect.bisect_right(addrs, a) - 1
                if blocks[k][0] != 'c':
                    raise Violation('mapped-not-code', 'executed address %d lies in a %r block (at %d)' % (a, blocks[k][0], blocks[k][1]), case)
        # ---- sna2skool accepts it ------------------------------------------------
        ctlf = s.write('out.ctl', out)
        r = cli.run('sna2skool', ['-o', start, '-c', ctlf, binf])
        if r.exc is not None:
            raise Violation(crash_sig(r.exc, 'sna2skool'), 'sna2skool raised %r on sna2ctl output' % r.exc, case)
        if not r.ok:
            raise Violation('sna2skool-exit', 'sna2skool exited %r on sna2ctl output: %s' % (r.code, r.err[-200:]), case)
        bad = [w for w in r.warnings() if 'overlaps' in w or 'Two instructions' in w]
        if bad:
            sig = 'overlap-warning'
            m = re.search(r'Instruction at (\$?[0-9A-Fa-f]+) overlaps', bad[0]) or re.search(r"directive at (\d+)/\$[0-9A-Fa-f]+ overlaps '[a-z]' directive", bad[0])
            if mp and mp['kind'] == 'trace':
                # (maps made of arbitrary addresses are judged for termination and tiling only: any overlap there stays F16)
                # F16 is about block starts taken from the map (an executed address inside an instruction of the
                # preceding block) and about the block that reaches END: an overlap at any other address is something else
                my = re.search(r'overlaps the following instruction at (\$?[0-9A-Fa-f]+)', bad[0])
                if my:
                    y = _addr(my.group(1)) if my.group(1)[0] == '$' else int(my.group(1))
                    if y not in set(mapped) and y != max(a for c, a in blocks):
                        sig = 'overlap-warning:block-start-not-executed'
            if m and not mp:
                x = _addr(m.group(1)) if m.group(1)[0] == '$' else int(m.group(1))
                idx = max(i for i, (c, a) in enumerate(blocks) if a <= x)
                if blocks[idx][0] == 'c' and idx > 0 and blocks[idx - 1][0] == 't':
                    sig = 'overlap-warning:code-resumed-after-text'
                elif case.get('tmlc') in (1, 2) and any(blocks[j][0] == 't' and blocks[j + 1][0] == 'c' for j in range(max(0, idx - 4), min(idx + 1, len(blocks) - 1))):
                    # TextMinLengthCode 1-2 turns single characters inside code into text blocks: the same mechanism,
                    # a few blocks further back
                    sig = 'overlap-warning:code-resumed-after-text'
            raise Violation(sig, 'sna2skool on sna2ctl output: %s' % bad[0], case)
        other = [w for w in r.warnings() if w not in bad]
        if other:
            raise Violation('sna2skool-warning', 'sna2skool on sna2ctl output: %s' % other[0], case)
        iaddrs = set()
        for line in r.out.split('\n'):
            if line and line[0] in ' bcgistuw*' and len(line) > 6 and line[1:6].isdigit():
                iaddrs.add(int(line[1:6]))
        for c, a, line in subs:
            if a < end and a not in iaddrs:
                raise Violation('sub-block-off-boundary', 'sub-block directive %r is not at an instruction address of the skool file' % line[:40], case)
        # ---- C01 round trip ---------------------------------------------------------
        skf = s.write('out.skool', r.out)
        r2 = cli.run('skool2bin', ['-S', start, '-E', end, '-I', 'PadLeft=%d' % start, '-I', 'PadRight=%d' % end, skf, s.path('out.bin')])
        if r2.exc is not None or not r2.ok:
            raise Violation('skool2bin-rejects', 'skool2bin failed on the skool file made from sna2ctl output: %s' % (str(r2.exc or r2.err)[-200:]), case)
        got = s.read('out.bin', True)
    if got[:len(data)] != data:
        i = next(i for i in range(len(data)) if i >= len(got) or got[i] != data[i])
        raise Violation('byte-mismatch', 'address %d: original %d, reassembled %s' % (start + i, data[i], got[i] if i < len(got) else 'nothing'), case)
    if rec is not None:
        types = {c for c, _ in blocks if c != 'i'}
        regions = 0
        if mapped:
            regions = 1 + sum(1 for x, y in zip(mapped, mapped[1:]) if y - x > 4)
        nt = len(types) >= 2 or regions >= 2 or bool(subs)
        klass = ['map:' + (mp['kind'] + ':' + mp['fmt'] if mp else 'none')]
        if subs:
            klass.append('sub-blocks')
        if case['rst']:
            klass.append('opt:rst')
        if case['comments']:
            klass.append('opt:comments')
        rec.case(repr(sorted(case.items(), key=lambda x: x[0])), nt, klass,
                 {'start': start, 'len': len(data), 'opts': {k: case[k] for k in ('comments', 'rst', 'hexfmt', 'tmlc', 'tmld')},
                  'map': case['map'], 'blocks': ['%s %d' % b for b in blocks[:8]]})


def _run_sna2ctl(argv):
    r = cli.run('sna2ctl', argv)
    return r.out, r.err, r.code, repr(r.exc) if r.exc is not None else None


def plan(tier, seed):
    n = 4800 if tier == "quick" else 100000
    nsh = 16 if tier == 'quick' else 64
    return [{'kind': 'hyp', 'tier': tier, 'n': n // nsh, 'seed': shard_seed(seed, PROPERTY, i)} for i in range(nsh)]


def run_shard(shard, rec):
    hyp_run(rec, cases(shard['tier']), lambda c: oracle(c, rec), shard['n'], shard['seed'])


def replay(case):
    oracle(case)


def known_class(sig, case):
    # F16: with a code map (-m), the blocks sna2ctl derives can make sna2skool report overlapping
    # instructions (an executed address inside an instruction of the preceding block, or a code block
    # extended up to END whose last instruction is cut off). Only this call path and this symptom.
    if sig == 'overlap-warning' and isinstance(case, dict) and case.get('map'):
        return 'F16'
    # F24: text found inside a code block (TextMinLengthCode): code resumes where the text ends, which need
    # not be an instruction boundary, so the resumed code block's last instruction can cross the next block.
    if sig == 'overlap-warning:code-resumed-after-text':
        return 'F24'
    return None


MANIFEST_ENTRY = {
    'technique': 'validity-predicate oracle over sna2ctl output + acceptance by sna2skool + round trip through skool2bin, on Hypothesis-generated images, options and code maps built from real execution traces',
    'level_text': 'For each generated (image, range, options, code map) the real sna2ctl.main is run under a watchdog; its block directives must start at START, increase strictly, end with i END and contain every executed address in a c block; sna2skool must accept the file without overlap warnings, every sub-block directive must sit on an instruction address, and skool2bin must reproduce the image.',
    'level_note': 'Sampled inputs (4-600 bytes quick, up to 6000 thorough). Code maps come from Simulator traces of the image itself in five file formats. Non-termination is judged by a 120 s wall-clock watchdog (normal runs take milliseconds).',
}
