"""In-process invocation of skoolkit command entry points with captured
stdout/stderr, SystemExit trapped, and a private scratch directory."""
import contextlib
import importlib
import io
import os
import shutil
import tempfile


class Result:
    def __init__(self, out, err, code, exc):
        self.out = out
        self.err = err
        self.code = code      # SystemExit code (None/0 = success)
        self.exc = exc        # unexpected exception (not SystemExit)

    @property
    def ok(self):
        return self.exc is None and self.code in (None, 0)

    def warnings(self):
        return [l for l in self.err.split('\n') if l.startswith('WARNING')]


def run(tool, argv, stdin=None):
    """tool: 'sna2skool', 'skool2bin', ... Returns Result."""
    mod = importlib.import_module('skoolkit.' + tool)
    out, err = io.StringIO(), io.StringIO()
    code = exc = None
    try:
        with contextlib.redirect_stdout(out), contextlib.redirect_stderr(err):
            mod.main([str(a) for a in argv])
    except SystemExit as e:
        code = e.code
    except BaseException as e:   # noqa
        if type(e).__name__ in ('_CaseCpuTimeout', '_ShrinkTimeout', 'KeyboardInterrupt'):
            raise       # harness control flow (vlib.runner), not a crash of the tool
        exc = e
    return Result(out.getvalue(), err.getvalue(), code, exc)


class Scratch:
    """Temporary directory; cwd is switched into it so that skoolkit.ini etc. are private."""
    def __init__(self, prefix='verif-'):
        self.prefix = prefix

    def __enter__(self):
        self.old = os.getcwd()
        self.dir = tempfile.mkdtemp(prefix=self.prefix)
        os.chdir(self.dir)
        reset_config()
        return self

    def __exit__(self, *a):
        os.chdir(self.old)
        shutil.rmtree(self.dir, True)
        reset_config()

    def path(self, name):
        return os.path.join(self.dir, name)

    def write(self, name, data):
        p = self.path(name)
        mode = 'wb' if isinstance(data, (bytes, bytearray)) else 'w'
        with open(p, mode) as f:
            f.write(data)
        return p

    def read(self, name, binary=False):
        with open(self.path(name), 'rb' if binary else 'r') as f:
            return f.read()


def reset_config():
    from skoolkit import components
    components.SK_CONFIG = None
