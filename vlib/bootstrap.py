"""Build and load the tree under test (/repo working tree).

* Python: /repo is put first on sys.path; the harness asserts that
  skoolkit.__file__ lives under it.
* C: c/csimulator.c is compiled twice (plain, -DCONTENTION) into
  /verif/.build/<sha256 of the source>/ and pre-loaded as
  skoolkit.csimulator / skoolkit.ccmiosimulator before `import skoolkit`,
  so stale .so files in /repo/skoolkit are never used.
"""
import hashlib
import importlib.machinery
import importlib.util
import os
import subprocess
import sys
import sysconfig
import tempfile

REPO = os.environ.get('VERIF_REPO', '/repo')
VERIF = os.path.dirname(os.path.dirname(os.path.abspath(__file__)))
BUILD = os.path.join(VERIF, '.build')
DEPS = os.path.join(VERIF, '.deps')
GUARD = 'SKOOLKIT_VERIF'

class HarnessError(Exception):
    pass

def _compile(src, out, defs=(), extra=()):
    inc = sysconfig.get_paths()['include']
    tmp = out + '.tmp%d' % os.getpid()
    cmd = ['gcc', '-O2', '-shared', '-fPIC', '-w', '-I' + inc, *['-D' + d for d in defs], *extra, src, '-o', tmp]
    p = subprocess.run(cmd, capture_output=True, text=True)
    if p.returncode:
        raise HarnessError('C build failed: %s\n%s' % (' '.join(cmd), p.stderr[-2000:]))
    os.replace(tmp, out)

def _prune(keep, limit=6):
    # keep disk use bounded: drop the oldest build directories
    try:
        dirs = [os.path.join(BUILD, x) for x in os.listdir(BUILD)]
        dirs = sorted((x for x in dirs if os.path.isdir(x) and x != keep), key=os.path.getmtime)
        import shutil
        for x in dirs[:-limit] if len(dirs) > limit else []:
            shutil.rmtree(x, True)
    except OSError:
        pass


def build_c(sanitize=False):
    src = os.path.join(REPO, 'c', 'csimulator.c')
    with open(src, 'rb') as f:
        digest = hashlib.sha256(f.read()).hexdigest()[:20]
    d = os.path.join(BUILD, digest + ('-san' if sanitize else ''))
    os.makedirs(d, exist_ok=True)
    _prune(d)
    extra = ('-fsanitize=undefined,bounds', '-fno-sanitize-recover=all', '-g') if sanitize else ()
    paths = {}
    for name, defs in (('csimulator', ()), ('ccmiosimulator', ('CONTENTION',))):
        out = os.path.join(d, name + '.so')
        if not os.path.exists(out):
            _compile(src, out, defs, extra)
        paths[name] = out
    return paths

def _load_ext(name, path):
    loader = importlib.machinery.ExtensionFileLoader(name, path)
    spec = importlib.util.spec_from_loader(name, loader, origin=path)
    mod = importlib.util.module_from_spec(spec)
    loader.exec_module(mod)
    sys.modules[name] = mod
    return mod

_done = False

def init(c_ext=True, sanitize=False):
    """Make `import skoolkit` resolve to the tree under test. Idempotent."""
    global _done
    if _done:
        return
    os.environ[GUARD] = '1'
    if 'skoolkit' in sys.modules:
        raise HarnessError('skoolkit imported before bootstrap.init()')
    if os.path.isdir(DEPS) and DEPS not in sys.path:
        sys.path.append(DEPS)
    sys.path.insert(0, REPO)
    if c_ext:
        paths = build_c(sanitize)
        _load_ext('skoolkit.csimulator', paths['csimulator'])
        _load_ext('skoolkit.ccmiosimulator', paths['ccmiosimulator'])
    import skoolkit
    if not os.path.abspath(skoolkit.__file__).startswith(os.path.abspath(REPO) + os.sep):
        raise HarnessError('skoolkit loaded from %s, not %s' % (skoolkit.__file__, REPO))
    if c_ext and (skoolkit.CSimulator is None or skoolkit.CCMIOSimulator is None):
        raise HarnessError('C simulators not loaded')
    # Isolation: no stray skoolkit.ini / ~/.skoolkit
    scratch = tempfile.mkdtemp(prefix='verif-home-')
    os.environ['HOME'] = scratch
    os.chdir(scratch)
    import atexit, shutil
    atexit.register(shutil.rmtree, scratch, True)
    _done = True
