"""Driving the four simulator implementations under test and moving CPU state
between them and the reference interpreter."""
from ref import z80ref

A, F, B, C, D, E, H, L, IXh, IXl, IYh, IYl, SP, SP2, I, R = range(16)
xA, xF, xB, xC, xD, xE, xH, xL = range(16, 24)
PC, T, IFF, IM, HALT, MEMPTR = 24, 25, 26, 27, 28, 29

IMPLS = ('py', 'c', 'pycmio', 'ccmio')

# (z80ref attribute, simulator register slot)
REGMAP = (('a', A), ('f', F), ('b', B), ('c', C), ('d', D), ('e', E), ('h', H), ('l', L),
          ('ixh', IXh), ('ixl', IXl), ('iyh', IYh), ('iyl', IYl), ('sp', SP), ('i', I), ('r', R),
          ('a2', xA), ('f2', xF), ('b2', xB), ('c2', xC), ('d2', xD), ('e2', xE), ('h2', xH), ('l2', xL),
          ('pc', PC), ('t', T), ('iff', IFF), ('im', IM), ('halted', HALT))
REGNAMES = {slot: name for name, slot in REGMAP}
REGNAMES[MEMPTR] = 'memptr'
REGNAMES[SP2] = 'sp2'


def sim_class(impl):
    import skoolkit
    from skoolkit.simulator import Simulator
    from skoolkit.cmiosimulator import CMIOSimulator
    return {'py': Simulator, 'c': skoolkit.CSimulator, 'pycmio': CMIOSimulator,
            'ccmio': skoolkit.CCMIOSimulator}[impl]


def make48(impl, mem=None, config=None):
    """A simulator over a private 64K memory. Returns (sim, registers, memory)."""
    cls = sim_class(impl)
    m = list(mem) if mem is not None else [0] * 65536
    cfg = {'frame_duration': 69888, 'int_active': 32}
    if config:
        cfg.update(config)
    sim = cls(m, None, None, cfg)
    return sim, sim.registers, sim.memory


def make128(impl, banks, o7ffd=0, config=None, machine='128K'):
    from skoolkit.pagingtracer import Memory
    cls = sim_class(impl)
    mem = Memory([list(b) for b in banks], o7ffd, machine)
    cfg = {'frame_duration': 70908, 'int_active': 36}
    if config:
        cfg.update(config)
    sim = cls(mem, None, None, cfg)
    return sim, sim.registers, sim.memory


def set_regs(regs, state):
    """state: dict of z80ref attribute names -> values."""
    for name, slot in REGMAP:
        if name in state:
            regs[slot] = state[name]


def get_regs(regs):
    d = {name: int(regs[slot]) for name, slot in REGMAP}
    d['memptr'] = int(regs[MEMPTR])
    d['sp2'] = int(regs[SP2])
    return d


def ref_from_state(state, mem, is128=False):
    z = z80ref.Z80(mem, frame_duration=70908 if is128 else 69888, int_active=36 if is128 else 32)
    for name, _ in REGMAP:
        if name in state:
            setattr(z, name, state[name])
    return z


class PortLog:
    """Recording tracer: read_port is a pure function of (port, call index)."""
    def __init__(self, salt=0):
        self.log = []
        self.offsets = []
        self.salt = salt

    def value(self, port, index):
        return (port * 31 + (port >> 8) * 7 + index * 13 + self.salt) & 255

    def read_port(self, registers, port):
        v = self.value(port, len(self.log))
        self.log.append(('r', port, v))
        return v

    def write_port(self, registers, port, value, offset=0):
        self.log.append(('w', port, value))
        self.offsets.append(offset)
