"""Hypothesis strategies for Z80 programs and machine states (C06, C08, C10, C19, C20).

Everything random is drawn by Hypothesis; bulk memory filling is a pure function
of a drawn integer seed (random.Random(seed)), so a case replays from its JSON.
"""
import random

from hypothesis import strategies as st

BYTE_B = [0, 1, 0x0F, 0x10, 0x7F, 0x80, 0xFE, 0xFF]
WORD_B = [0, 1, 2, 0xFF, 0x100, 0x3FFE, 0x3FFF, 0x4000, 0x4001, 0x5AFF, 0x5B00, 0x7FFE, 0x7FFF, 0x8000, 0xBFFF, 0xC000, 0xFFFE, 0xFFFF]
byte = st.one_of(st.sampled_from(BYTE_B), st.integers(0, 255))
word = st.one_of(st.sampled_from(WORD_B), st.integers(0, 65535))

# opcode pools -----------------------------------------------------------------
MAIN_1 = [op for op in range(256) if op not in (0xCB, 0xED, 0xDD, 0xFD)]
ED_DEFINED = ([0x40 + i for i in range(0x40)] + [0xA0, 0xA1, 0xA2, 0xA3, 0xA8, 0xA9, 0xAA, 0xAB,
              0xB0, 0xB1, 0xB2, 0xB3, 0xB8, 0xB9, 0xBA, 0xBB])


def _main_len(op):
    x, y, z = op >> 6, (op >> 3) & 7, op & 7
    if x == 0:
        if z == 0:
            return 1 if y < 2 else 2
        if z == 1:
            return 3 if y % 2 == 0 else 1
        if z == 2:
            return 3 if y >= 4 else 1
        if z == 6:
            return 2
        return 1
    if x in (1, 2):
        return 1
    if z in (2, 4):
        return 3
    if z == 3:
        return 3 if y == 0 else 2 if y in (2, 3) else 1
    if z == 5:
        return 3 if op == 0xCD else 1
    if z == 6:
        return 2
    return 1


def _uses_hl_mem(op):
    x, y, z = op >> 6, (op >> 3) & 7, op & 7
    if x == 0:
        return z in (4, 5, 6) and y == 6
    if x == 1:
        return op != 0x76 and (y == 6 or z == 6)
    if x == 2:
        return z == 6
    return False


@st.composite
def instruction(draw, code_base=0x8000, allow_ports=True):
    """One well-formed instruction as a list of bytes."""
    kind = draw(st.sampled_from(['main'] * 8 + ['cb'] * 2 + ['ed'] * 3 + ['dd'] * 2 + ['fd'] * 2 + ['ddcb', 'fdcb', 'edany', 'chain']))
    addr16 = st.one_of(st.sampled_from(WORD_B), st.integers(0, 65535),
                       st.integers(0, 40).map(lambda k: (code_base + k) & 0xFFFF))
    if kind == 'main':
        op = draw(st.sampled_from(MAIN_1))
        n = _main_len(op)
        if n == 1:
            return [op]
        if n == 2:
            if op in (0x10, 0x18, 0x20, 0x28, 0x30, 0x38):
                return [op, draw(st.one_of(st.integers(0, 12), st.integers(0xF0, 0xFF), byte))]
            return [op, draw(byte)]
        a = draw(addr16)
        return [op, a & 255, a >> 8]
    if kind == 'cb':
        return [0xCB, draw(st.integers(0, 255))]
    if kind == 'ed':
        op = draw(st.sampled_from(ED_DEFINED))
        if op & 0xC7 == 0x43:
            a = draw(addr16)
            return [0xED, op, a & 255, a >> 8]
        return [0xED, op]
    if kind == 'edany':
        return [0xED, draw(st.integers(0, 255))]
    if kind in ('dd', 'fd'):
        pre = 0xDD if kind == 'dd' else 0xFD
        op = draw(st.sampled_from(MAIN_1))
        n = _main_len(op)
        if _uses_hl_mem(op):
            d = draw(st.one_of(st.sampled_from([0, 1, 0x7F, 0x80, 0xFF]), st.integers(0, 255)))
            if op == 0x36:
                return [pre, op, d, draw(byte)]
            return [pre, op, d]
        if n == 1:
            return [pre, op]
        if n == 2:
            return [pre, op, draw(byte)]
        a = draw(addr16)
        return [pre, op, a & 255, a >> 8]
    if kind in ('ddcb', 'fdcb'):
        pre = 0xDD if kind == 'ddcb' else 0xFD
        return [pre, 0xCB, draw(st.one_of(st.sampled_from([0, 1, 0x7F, 0x80, 0xFF]), st.integers(0, 255))), draw(st.integers(0, 255))]
    # prefix chain
    n = draw(st.integers(1, 4))
    chain = draw(st.lists(st.sampled_from([0xDD, 0xFD]), min_size=n, max_size=n))
    return chain + draw(instruction(code_base))


# scenario templates: byte lists with interesting control flow
def _templates():
    return [
        [0xFB, 0x76],                                   # EI: HALT
        [0xF3, 0x76],                                   # DI: HALT
        [0xFB, 0xFB, 0xFB, 0x00],                       # EI chain
        [0xFB, 0xDD, 0xFD, 0xDD, 0x00],                 # EI + prefix chain
        [0xED, 0x56, 0xFB, 0x76],                       # IM 1: EI: HALT
        [0x3E, 0x80, 0xED, 0x47, 0xED, 0x5E, 0xFB, 0x76],  # I=0x80: IM 2: EI: HALT
        [0x01, 0x02, 0x00, 0xED, 0xB0],                 # BC=2: LDIR
        [0x01, 0x01, 0x00, 0xED, 0xB8],                 # BC=1: LDDR
        [0x01, 0x00, 0x00, 0xED, 0xB0],                 # BC=0: LDIR (64K)
        [0x06, 0x03, 0x10, 0xFE],                       # DJNZ self
        [0x01, 0x03, 0x00, 0xED, 0xB1],                 # CPIR
        [0x01, 0xFD, 0x7F, 0x3E, 0x11, 0xED, 0x79],     # OUT 7FFD,0x11
        [0x01, 0xFD, 0x7F, 0x3E, 0x27, 0xED, 0x79, 0x3E, 0x03, 0xED, 0x79],  # lock then write
        [0x01, 0xFD, 0xFF, 0x3E, 0x07, 0xED, 0x79, 0x01, 0xFD, 0xBF, 0xED, 0x79],  # AY select + write
        [0x3E, 0x05, 0xD3, 0xFE],                       # OUT (FE),A
        [0xDB, 0xFE, 0xED, 0x78, 0xED, 0xA2, 0xED, 0xB2],  # IN forms
        [0x06, 0x02, 0xED, 0xB3],                       # OTIR
        [0xED, 0x5F, 0xED, 0x57, 0xED, 0x4F, 0xED, 0x47],  # LD A,R / A,I / R,A / I,A
        [0xE3, 0xDD, 0xE3, 0xF9, 0xE5, 0xE1],           # EX (SP),HL ...
        [0xCD, 0x10, 0x80, 0xC9],                       # CALL / RET
        [0xC7], [0xFF],                                 # RST 0 / RST 38
        [0xED, 0x45], [0xED, 0x4D],                     # RETN / RETI
        [0x31, 0x01, 0x40, 0xE5, 0xC5],                 # SP=0x4001: PUSH into ROM boundary
        [0x31, 0x00, 0x00, 0xE5],                       # SP=0: PUSH wraps
        [0x21, 0xFF, 0x3F, 0x22, 0xFF, 0x3F],           # LD (3FFF),HL straddles ROM/RAM
        [0x21, 0xFF, 0xFF, 0x22, 0xFF, 0xFF],           # LD (FFFF),HL wraps
    ]


@st.composite
def program(draw, code_base=0x8000, max_instr=40):
    """bytes of a program: mix of well-formed instructions, templates and raw bytes."""
    parts = draw(st.lists(st.one_of(
        instruction(code_base),
        instruction(code_base),
        instruction(code_base),
        st.sampled_from(_templates()),
        st.lists(st.integers(0, 255), min_size=1, max_size=6),
    ), min_size=1, max_size=max_instr))
    out = []
    for p in parts:
        out.extend(p)
    return out


POOL = [0xED, 0x79, 0xED, 0x41, 0xD3, 0xFD, 0x01, 0xFD, 0x7F, 0x3E, 0x32, 0x00, 0xC0, 0x77, 0x23, 0xE5, 0xC1, 0x10, 0x18,
        0xFB, 0xF3, 0x76, 0xED, 0xB0, 0xDD, 0xFD, 0xCB, 0xC9, 0xC3, 0xCD, 0x00, 0x00, 0x00, 0x36, 0x22, 0x2A]


import functools


@functools.lru_cache(maxsize=8)
def _fill(seed, n, style):
    rnd = random.Random(seed)
    if style == 2:
        return rnd.randbytes(n)
    pool = POOL
    raw = rnd.randbytes(2 * n)
    return bytes(pool[raw[2 * i] % len(pool)] if raw[2 * i + 1] < 154 else raw[2 * i] for i in range(n))


def fill_bytes(seed, n, style):
    """Deterministic background memory: style 0 zeros, 1 pool-heavy, 2 uniform."""
    if style == 0:
        return bytearray(n)
    return bytearray(_fill(seed, n, style))


@st.composite
def registers(draw):
    regs = {}
    for n in ('A', 'F', 'I', 'R', '^A', '^F'):
        regs[n] = draw(byte)
    for n in ('DE', 'IX', 'IY', '^BC', '^DE', '^HL', 'SP'):
        regs[n] = draw(word)
    regs['BC'] = draw(st.one_of(st.sampled_from([0x7FFD, 0xFFFD, 0xBFFD, 0x00FE, 0x7FFE, 0x0001, 0x0100, 0x0002]), word))
    regs['HL'] = draw(word)
    # operand pairs that meet exactly at a carry boundary (sum 0x10000, 0xFFFF or 0): uniformly drawn words hit them
    # with probability 2^-16 per instruction
    rel = draw(st.sampled_from([0, 0, 0, 1, 2, 3]))
    if rel:
        k = (0x10000, 0xFFFF, 0)[rel - 1]
        other = draw(st.sampled_from(['BC', 'DE', 'SP', 'HL']))
        if other == 'HL':
            regs['HL'] = draw(st.sampled_from([0x8000, 0x0000, 0x7FFF, 0xFFFF]))
        else:
            regs[other] = (k - regs['HL']) & 0xFFFF
        regs['IY'] = (k - regs['IX']) & 0xFFFF
    return regs


def frame_times(frame):
    return st.one_of(
        st.sampled_from([0, 1, 27, 31, 32, 35, 36, 40, 14335, 14361, frame - 40, frame - 12, frame - 4, frame - 1]),
        st.integers(0, frame - 1),
        st.integers(frame - 60, frame - 1),
        st.integers(14300, 14500),
    )
