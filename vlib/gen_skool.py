"""Hypothesis strategies for memory images, sna2skool options and *constructive*
control files (C01, C03, C14, C18).

A control file is built from a tiling of [start, end) into statements first and
is then described by directives, so block/sub-block boundaries fall on
statement boundaries by construction (the precondition of C01). Instruction
boundaries for C sub-blocks are found by asking the disassembler under the
case's own options: that is the precondition, not the oracle.
"""
from hypothesis import strategies as st

OPCODE_SETS = ['', '', 'ALL', 'NEG,IM', 'XYCB', 'ED63,ED6B,ED70,ED71,RETN', 'ED70', 'IM', 'RETN,XYCB']
BASES = ['', '', 'b', 'd', 'h', 'c', 'n']

TEXT_CHARS = [34, 92, 94, 96, 127, 32, 65, 66, 97, 122, 48, 57, 58, 59, 44, 123, 125, 35, 64]


_KIND = st.sampled_from(['rand', 'rand', 'prefix', 'text', 'run', 'code', 'code', 'words', 'variants', 'twojumps'])
# encodings that share one mnemonic (the additional-opcode sets): several of them side by side, with equal operands
_VARIANT_GROUPS = [
    [[0xED, 0x44], [0xED, 0x4C], [0xED, 0x54], [0xED, 0x5C], [0xED, 0x64], [0xED, 0x6C], [0xED, 0x74], [0xED, 0x7C]],      # NEG
    [[0xED, 0x45], [0xED, 0x55], [0xED, 0x5D], [0xED, 0x65], [0xED, 0x6D], [0xED, 0x75], [0xED, 0x7D]],                    # RETN
    [[0xED, 0x46], [0xED, 0x4E], [0xED, 0x66], [0xED, 0x6E]],                                                              # IM 0
    [[0xED, 0x56], [0xED, 0x76]], [[0xED, 0x5E], [0xED, 0x7E]],                                                            # IM 1, IM 2
    [[0x22, 0x34, 0x92], [0xED, 0x63, 0x34, 0x92]], [[0x2A, 0x34, 0x92], [0xED, 0x6B, 0x34, 0x92]],                        # LD (nn),HL / LD HL,(nn)
    [[0xDD, 0xCB, 0x05, 0x46], [0xDD, 0xCB, 0x05, 0x40], [0xDD, 0xCB, 0x05, 0x47]],                                        # BIT 0,(IX+5)
    [[0xED, 0x70], [0xED, 0x71]],
]
_VARIANTS = st.lists(st.sampled_from(_VARIANT_GROUPS), min_size=1, max_size=2).flatmap(
    lambda gs: st.lists(st.sampled_from([e for g in gs for e in g]), min_size=2, max_size=6))
_RAND = st.binary(min_size=1, max_size=24)
_PREFIX = st.lists(st.sampled_from([0xDD, 0xFD, 0xED, 0xCB, 0xDD, 0xFD, 0x00, 0x36, 0x63, 0x6B, 0x70, 0x71, 0x4C, 0x55, 0x4E]) | st.integers(0, 255),
                   min_size=1, max_size=16)
_TEXT = st.lists(st.sampled_from(TEXT_CHARS) | st.integers(32, 126), min_size=1, max_size=20)
_RUNVAL = st.sampled_from([0, 0, 255, 32]) | st.integers(0, 255)
_RUNLEN = st.integers(1, 40)
_WORDS = st.lists(st.sampled_from([0, 1, 255, 0, 128, 64]) | st.integers(0, 255), min_size=2, max_size=12)
_NCODE = st.integers(1, 8)
_CODE = st.tuples(st.integers(0, 13), st.integers(0, 255), st.sampled_from([0, 1, 255, 128]) | st.integers(0, 255),
                  st.sampled_from([0, 64, 128, 255]) | st.integers(0, 255))
_BOOL = st.booleans()


@st.composite
def segments(draw):
    kind = draw(_KIND)
    if kind == 'rand':
        return list(draw(_RAND))
    if kind == 'prefix':
        return draw(_PREFIX)
    if kind == 'text':
        s = list(draw(_TEXT))
        if draw(_BOOL):
            s[-1] |= 0x80
        return s
    if kind == 'run':
        return [draw(_RUNVAL)] * draw(_RUNLEN)
    if kind == 'words':
        return draw(_WORDS)
    if kind == 'variants':
        return [b for e in draw(_VARIANTS) for b in e]
    if kind == 'twojumps':
        # two conditional jumps of one block to the start of the block that follows it (position independent)
        return [0x28, 0x04, 0xAF, 0x38, 0x01, 0xC9, 0x3E, 0x01, 0xC9]
    out = []
    for _ in range(draw(_NCODE)):
        k, b, w0, w1 = draw(_CODE)
        w = [w0, w1]
        out += [[0x3E, b], [0x21] + w, [0xCD] + w, [0x18, b], [0xC9], [0xC3] + w, [0x10, b], [0xCF, b], [0xD7, b, w[0]],
                [0x36, b], [0xDD, 0x36, b, w[0]], [0xD3, b], [0xFE, b], [0x01] + w][k]
    return out


_SEGMENTS = segments()


@st.composite
def images(draw, max_len=300, min_len=8):
    n = draw(st.integers(min_len, max_len))
    data = []
    while len(data) < n:
        data += draw(_SEGMENTS)
    data = data[:n]
    place = draw(st.sampled_from(['low', 'ram', 'ram', 'mid', 'top', 'top']))
    if place == 'low':
        start = 0
    elif place == 'ram':
        start = 16384 + draw(st.sampled_from([0, 7000, 8192]))
    elif place == 'mid':
        start = draw(st.integers(20000, 60000))
    else:
        start = 65536 - n
    return start, data


@st.composite
def options(draw, rst=True):
    o = {
        'hex': draw(st.booleans()),
        'lower': draw(st.booleans()),
        'width': draw(st.sampled_from([None, None, 79]) | st.integers(30, 200)),
        'defb': draw(st.sampled_from([None, None]) | st.integers(1, 12)),
        'defm': draw(st.sampled_from([None, None]) | st.integers(1, 12)),
        'defw': draw(st.sampled_from([None, None]) | st.integers(1, 4)),
        'opcodes': draw(st.sampled_from(OPCODE_SETS)),
        'wrap': draw(st.sampled_from([0, 0, 1])),
        'rst': 0,
        'rstcfg': '',
    }
    if rst and draw(st.integers(0, 3)) == 0:
        o['rst'] = 1
        o['rstcfg'] = draw(st.sampled_from(['8:B', '8:B,16:W', '8:B,16:W,40:B,56:W', '0:B,24:W,48:B']))
    return o


def sna2skool_argv(o, extra=()):
    argv = []
    if o['hex']:
        argv.append('-H')
    if o['lower']:
        argv.append('-l')
    if o['width'] is not None:
        argv += ['-w', str(o['width'])]
    for k, name in (('defb', 'DefbSize'), ('defm', 'DefmSize'), ('defw', 'DefwSize')):
        if o[k] is not None:
            argv += ['-I', '%s=%d' % (name, o[k])]
    argv += ['-I', 'Opcodes=' + o['opcodes'], '-I', 'Wrap=%d' % o['wrap']]
    if o['rst']:
        argv.append('-r')
    return argv + list(extra)


def ini_text(o):
    if o['rst']:
        return '[skoolkit]\nRSTHandlerConfig=%s\n' % o['rstcfg']
    return None


_DIS_CACHE = {}


class Lengths:
    """Instruction lengths under the case's options (the C01 precondition)."""
    def __init__(self, start, data, o):
        from skoolkit.snaskool import DisassemblerConfig, Instruction
        from skoolkit.disassembler import Disassembler
        # lengths depend only on Opcodes and Wrap: one cached disassembler per setting, snapshot edited in place
        key = (o['opcodes'], o['wrap'])
        ent = _DIS_CACHE.get(key)
        if ent is None:
            snap = [0] * 65536
            ent = (Disassembler(snap, DisassemblerConfig(False, False, 8, 65, 1, 0, Instruction, o['opcodes'], o['wrap'])), snap, [0, 0])
            _DIS_CACHE[key] = ent
        self.dis, self.snap, dirty = ent
        self.snap[dirty[0]:dirty[1]] = [0] * (dirty[1] - dirty[0])
        self.snap[start:start + len(data)] = data
        dirty[0], dirty[1] = start, start + len(data)
        self.end = start + len(data)
        self.rst = {}
        if o['rst']:
            for spec in o['rstcfg'].split(','):
                a, _, p = spec.partition(':')
                self.rst[int(a) + 0xC7] = {'B': 1, 'W': 2}[p]

    def ilen(self, a):
        ins = self.dis.disassemble(a, a + 1, 'n')[0]
        n = len(ins.bytes)
        n += self.rst.get(self.snap[a], 0)
        return n, ins


M_OK = frozenset([0x06, 0x0E, 0x16, 0x1E, 0x26, 0x2E, 0x3E, 0x36, 0xC6, 0xCE, 0xD6, 0xDE, 0xE6, 0xEE, 0xF6, 0xFE, 0x01, 0x11, 0x21, 0x31])


def _base(draw, allow_m, two=False):
    pool = BASES + (['m'] if allow_m else [])
    b = draw(st.sampled_from(pool))
    if two and b and draw(st.booleans()):
        b += draw(st.sampled_from([x for x in pool if x]))
    return b


@st.composite
def plans(draw, start, data, o, allow_m=True, with_loops=True, with_ignored=True):
    """Returns (ctl_lines, info). ctl_lines: list of control-file lines (structure only).
    info: dict with 'ignored' (list of [a, b) ranges), 'has_base', 'has_lengths', 'subs' ..."""
    L = Lengths(start, data, o)
    snap = L.snap
    end = L.end
    lines = []
    info = {'ignored': [], 'bases': 0, 'lists': 0, 'subs': [], 'blocks': [], 'M': 0, 'L': 0, 'm': 0}
    a = start
    while a < end:
        can_ignore = with_ignored and a > start and info['blocks'][-1][0] != 'i'   # one ignored block per gap
        ctl = draw(st.sampled_from('bcgstuwcccb' + ('i' if can_ignore else 'c')))
        want = draw(st.integers(1, 48))
        bend = min(end, a + want)
        if ctl == 'i':
            lines.append('i %d' % a)
            info['ignored'].append([a, bend])
            info['blocks'].append(('i', a))
            a = bend
            continue
        if info['blocks'] and info['blocks'][-1][0] == 'i':
            # code after a gap needs an ORG (skool2bin and assemblers place instructions contiguously otherwise)
            lines.append('@ %d org' % a)
        lines.append('%s %d' % (ctl, a))
        info['blocks'].append((ctl, a))
        b = a
        subs = []
        while b < bend:
            sub = draw(st.sampled_from({'c': 'CCCCBTWS', 'b': 'BBBTWSC', 'g': 'BBTWS', 's': 'SSSBC', 't': 'TTTBC', 'u': 'BBSC', 'w': 'WWWBC'}[ctl]))
            n = min(bend - b, draw(st.integers(1, 18)))
            if sub == 'C':
                groups = []
                e = b
                ok = True
                all_m_ok = True
                while e < b + n:
                    k, ins = L.ilen(e)
                    if e + k > end or (e + k > 65536):
                        ok = False
                        break
                    if snap[e] not in M_OK:
                        all_m_ok = False
                    groups.append(k)
                    e += k
                if ok and e == 65536 - 0 and False:
                    pass
                if ok and groups:
                    line, used = _c_directive(draw, b, groups, allow_m and all_m_ok, info)
                    subs.append(('C', b, e - b, line))
                    b = e
                    if e > bend:
                        bend = e
                    continue
                sub = 'B'
            if sub == 'W':
                if n < 2:
                    sub = 'B'
                else:
                    n -= n % 2
            if sub == 'S':
                if draw(st.integers(0, 5)):
                    # a run of equal bytes (otherwise DEFS falls back to DEFB statements)
                    r = 1
                    while r < n and snap[b + r] == snap[b]:
                        r += 1
                    n = r
                line = _s_directive(draw, b, n, allow_m and snap[b] != 0, info)
            elif sub in 'BT':
                line = _bt_directive(draw, sub, b, n, snap, allow_m, info)
            elif sub == 'W':
                line = _w_directive(draw, b, n, allow_m, info)
            subs.append((sub, b, n, line))
            b += n
        # optional M directive over 2+ consecutive sub-blocks
        if len(subs) >= 2 and draw(st.integers(0, 4)) == 0:
            i = draw(st.integers(0, len(subs) - 2))
            j = draw(st.integers(i + 1, len(subs) - 1))
            subs.insert(i, ('M', subs[i][1], subs[j][1] + subs[j][2] - subs[i][1], 'M %d,%d' % (subs[i][1], subs[j][1] + subs[j][2] - subs[i][1])))
            info['M'] += 1
        for sname, sa, sn, line in subs:
            lines.append(line)
            if sname != 'M':
                info['subs'].append((sname, sa, sn))
        a = max(b, bend)
        # optional loop: repeat the block's data sub-blocks over the bytes that follow
        real = [x for x in subs if x[0] != 'M']
        if (with_loops and ctl in 'bwtgu' and a < end and len(real) == len(subs) and real
                and all(x[0] in 'BWT' for x in real) and draw(st.integers(0, 5)) == 0):
            first = real[0][1]
            plen = a - first
            maxc = 1 + (end - a) // plen
            if maxc >= 2 and first == info['blocks'][-1][1]:
                count = draw(st.integers(2, min(4, maxc)))
                lines.append('L %d,%d,%d' % (first, plen, count))
                info['L'] += 1
                a += plen * (count - 1)
    if end < 65536 and info['blocks'][-1][0] != 'i':
        lines.append('i %d' % end)
    return lines, info


def _c_directive(draw, b, groups, allow_m, info):
    total = sum(groups)
    mode = draw(st.integers(0, 3))
    if mode == 0:
        return 'C %d,%d' % (b, total), 0
    if mode == 1 or len(groups) == 1:
        base = _base(draw, allow_m, two=True)
        info['bases'] += bool(base)
        info['m'] += 'm' in base
        return 'C %d,%s%d' % (b, base, total), 0
    # sublength list: partition the instructions into runs, each with its own base
    parts = []
    i = 0
    while i < len(groups):
        k = draw(st.integers(1, len(groups) - i))
        base = _base(draw, allow_m, two=True)
        info['bases'] += bool(base)
        info['m'] += 'm' in base
        parts.append('%s%d' % (base, sum(groups[i:i + k])))
        i += k
    info['lists'] += 1
    return 'C %d,%d,%s' % (b, total, ','.join(parts)), 0


def _items(draw, n, unit, allow_m, info, text=False):
    """Split n bytes into ':'-joined items with base prefixes; returns spec string."""
    parts = []
    left = n
    while left:
        k = draw(st.integers(1, left // unit)) * unit
        base = _base(draw, allow_m)
        if text and not base and draw(st.booleans()):
            base = 'n'
        info['bases'] += bool(base)
        info['m'] += 'm' in base
        parts.append('%s%d' % (base, k))
        left -= k
    return ':'.join(parts)


def _bt_directive(draw, sub, b, n, snap, allow_m, info):
    mode = draw(st.integers(0, 3))
    if mode == 0:
        return '%s %d,%d' % (sub, b, n)
    if mode == 1:
        base = _base(draw, allow_m)
        info['bases'] += bool(base)
        info['m'] += 'm' in base
        return '%s %d,%s%d' % (sub, b, base, n)
    if mode == 2:
        # equal statement size with optional multiplier
        k = draw(st.integers(1, n))
        m = n // k
        rest = n - m * k
        base = _base(draw, allow_m)
        info['bases'] += bool(base)
        info['m'] += 'm' in base
        info['lists'] += 1
        spec = '%s%d' % (base, k)
        if m > 1 and draw(st.booleans()):
            spec += '*%d' % m
            if rest:
                spec += ',%d' % rest
        return '%s %d,%d,%s' % (sub, b, n, spec)
    # explicit list of statements, each a ':'-joined item list
    stmts = []
    left = n
    while left:
        k = draw(st.integers(1, left))
        stmts.append(_items(draw, k, 1, allow_m, info, text=(sub == 'T')))
        left -= k
    info['lists'] += 1
    return '%s %d,%d,%s' % (sub, b, n, ','.join(stmts))


def _w_directive(draw, b, n, allow_m, info):
    mode = draw(st.integers(0, 2))
    if mode == 0:
        return 'W %d,%d' % (b, n)
    if mode == 1:
        base = _base(draw, allow_m)
        info['bases'] += bool(base)
        info['m'] += 'm' in base
        return 'W %d,%s%d' % (b, base, n)
    stmts = []
    left = n
    while left:
        k = draw(st.integers(1, left // 2)) * 2
        stmts.append(_items(draw, k, 2, allow_m, info))
        left -= k
    info['lists'] += 1
    return 'W %d,%d,%s' % (b, n, ','.join(stmts))


def _s_directive(draw, b, n, allow_m, info):
    mode = draw(st.integers(0, 2))
    if mode == 0:
        return 'S %d,%d' % (b, n)
    if mode == 1:
        base = draw(st.sampled_from(['b', 'd', 'h', 'n']))
        info['bases'] += 1
        return 'S %d,%s%d' % (b, base, n)
    size_base = draw(st.sampled_from(['', 'b', 'd', 'h']))
    val_base = draw(st.sampled_from(['n', 'b', 'c', 'd', 'h'] + (['m'] if allow_m else [])))
    info['bases'] += 1
    info['m'] += val_base == 'm'
    # the sublength may be shorter than the sub-block (it then repeats), and the part after the colon may carry a
    # number besides the base letter (the parser accepts 'size:value'; the fill byte itself comes from memory)
    size = n
    if n % 2 == 0 and n >= 4 and draw(st.sampled_from([0, 0, 1])):
        size = n // 2
    num = draw(st.sampled_from(['', '', '', '255', '1', '7']))
    if num and val_base in ('c', 'm'):
        num = ''
    return 'S %d,%d,%s%d:%s%s' % (b, n, size_base, size, '' if (num and val_base == 'n') else val_base, num)
