"""Two-pass re-assembler for the ASM text skool2asm writes (labels, ORG, EQU,
quote-aware ';' stripping). Statement encoding uses the repository's Assembler
component after label values have been substituted (the assembler's own
encodings are C02's subject; here it is the common back end of both sides)."""
import re


class AsmError(Exception):
    pass


def _strip_comment(line):
    out = []
    inq = False
    i = 0
    while i < len(line):
        c = line[i]
        if inq:
            out.append(c)
            if c == '\\' and i + 1 < len(line):
                out.append(line[i + 1])
                i += 1
            elif c == '"':
                inq = False
        else:
            if c == ';':
                break
            if c == '"':
                inq = True
            out.append(c)
        i += 1
    return ''.join(out).rstrip()


def _split_quoted(op):
    parts = re.split(r'("(?:[^"\\]|\\.)*")', op)
    return parts


def parse(text):
    items = []
    for line in text.splitlines():
        code = _strip_comment(line)
        if not code.strip():
            continue
        if not code[0].isspace():
            toks = code.split()
            if len(toks) >= 3 and toks[1].upper() == 'EQU':
                items.append(('equ', toks[0], ' '.join(toks[2:])))
            else:
                items.append(('label', code.strip().rstrip(':')))
            continue
        op = code.strip()
        if op.upper().startswith('ORG '):
            items.append(('org', op[4:].strip()))
        else:
            items.append(('op', op))
    return items


def assemble(text, assembler, eval_int):
    """Returns {address: byte}. Raises AsmError."""
    items = parse(text)
    labels = {}

    def subst(op, table):
        out = ''
        for p in _split_quoted(op):
            if p.startswith('"'):
                out += p
            else:
                out += re.sub(r"[A-Za-z_][A-Za-z0-9_]*'?", lambda m: str(table[m.group(0)]) if m.group(0) in table else m.group(0), p)
        return out

    for kind, *p in items:
        if kind == 'equ':
            try:
                labels[p[0]] = eval_int(p[1])
            except ValueError:
                raise AsmError('cannot evaluate EQU %r' % (p,))
    names = [p[0] for kind, *p in items if kind == 'label']
    dummy = {n: 0 for n in names}
    dummy.update(labels)
    addr = None
    for kind, *p in items:
        if kind == 'org':
            try:
                addr = eval_int(subst(p[0], dummy))
            except ValueError:
                raise AsmError('cannot evaluate ORG %r' % p[0])
        elif kind == 'label':
            if addr is None:
                raise AsmError('label %r before any ORG' % p[0])
            labels[p[0]] = addr
        elif kind == 'op':
            if addr is None:
                raise AsmError('statement %r before any ORG' % p[0])
            op = subst(p[0], dummy)
            if op.upper().startswith(('JR ', 'DJNZ ')):
                size = 2
            else:
                size = assembler.get_size(op, addr)
            if not size:
                raise AsmError('cannot size %r (-> %r) at %d' % (p[0], op, addr))
            addr += size
    mem = {}
    addr = None
    for kind, *p in items:
        if kind == 'org':
            addr = eval_int(subst(p[0], labels))
        elif kind == 'op':
            op = subst(p[0], labels)
            data = assembler.assemble(op, addr)
            if not data:
                raise AsmError('cannot assemble %r (-> %r) at %d' % (p[0], op, addr))
            for b in data:
                mem[addr & 65535] = b
                addr += 1
    return mem
