"""Shared runner: seeds, sharding, Hypothesis driving, bucketing, replay files,
known findings, evidence and exit codes.

A check module (checks/cNN.py) provides:

    PROPERTY      'C07'
    RULE          text: how cases are generated and what makes one non-trivial
    ASSUMPTIONS   list of strings
    plan(tier, seed) -> list of JSON-able shard descriptors
    run_shard(shard, rec)      executes one shard, reporting through `rec`
    replay(case)               runs the oracle on one JSON case; raises Violation
    known_class(sig, case)     optional: -> id of a *known* finding class or None

Exit codes: 0 property held on everything explored; 1 violation (a line
"VIOLATION property=<id> replay=<path>" per root-cause bucket); 2 harness error.
"""
import collections
import hashlib
import importlib
import json
import multiprocessing
import os
import sys
import time
import traceback

from . import bootstrap

VERIF = bootstrap.VERIF
OUT = os.path.join(VERIF, 'out')
NCPU = min(16, os.cpu_count() or 1)


class _ShrinkTimeout(BaseException):
    """Raised inside a Hypothesis test to abort shrinking when its time budget is used up."""


class Violation(Exception):
    """The property is violated. sig = stable root-cause signature (string);
    case = JSON-able reproduction input; msg = human-readable detail."""
    def __init__(self, sig, msg='', case=None):
        super().__init__('%s: %s' % (sig, msg))
        self.sig = sig
        self.msg = msg
        self.case = case


def crash_sig(exc, prefix='crash'):
    """Signature for an unexpected exception raised by the code under test:
    exception type + innermost frame inside skoolkit."""
    tb = traceback.extract_tb(exc.__traceback__)
    where = '?'
    for fr in reversed(tb):
        if '/skoolkit/' in fr.filename:
            where = '%s:%s' % (os.path.basename(fr.filename), fr.name)
            break
    return '%s:%s@%s' % (prefix, type(exc).__name__, where)


def digest(obj):
    if not isinstance(obj, (bytes, bytearray)):
        obj = repr(obj).encode('utf-8', 'surrogatepass')
    return hashlib.blake2b(obj, digest_size=8).digest()


def shard_seed(seed, prop, shard):
    h = hashlib.sha256(('%s/%s/%s' % (seed, prop, shard)).encode()).digest()
    return int.from_bytes(h[:8], 'big')


class Recorder:
    """Collects what one shard did. Picklable summary via .summary()."""
    MAX_SAMPLES_PER_CLASS = 2

    def __init__(self, module=None, known=None):
        self.evaluations = 0
        self.nontrivial = set()         # digests of distinct non-trivial cases
        self.bulk_nontrivial = 0        # counted by construction (enumerations)
        self.classes = collections.Counter()
        self.samples = {}               # class -> list of samples
        self.failures = {}              # sig -> dict(sig,msg,case)
        self.excluded = collections.Counter()   # known-finding id -> count
        self.notes = collections.Counter()
        self.exhaustive = None
        self._module = module
        self._known = known or {}

    # -- reporting API used by checks ------------------------------------
    def case(self, key, nontrivial, klass=None, sample=None):
        """One evaluated case. key: hashable/reprable identity of the case."""
        self.evaluations += 1
        if nontrivial:
            self.nontrivial.add(digest(key))
        if klass is not None:
            for k in (klass if isinstance(klass, (list, tuple, set)) else (klass,)):
                self.classes[k] += 1
                if sample is not None:
                    lst = self.samples.setdefault(k, [])
                    if len(lst) < self.MAX_SAMPLES_PER_CLASS:
                        lst.append(sample)
        elif sample is not None:
            lst = self.samples.setdefault('', [])
            if len(lst) < 6:
                lst.append(sample)

    def sample(self, klass, sample):
        lst = self.samples.setdefault(klass, [])
        if len(lst) < self.MAX_SAMPLES_PER_CLASS:
            lst.append(sample)

    def bulk(self, evaluations, nontrivial, klass=None):
        """Cases enumerated without repetition (distinct by construction)."""
        self.evaluations += evaluations
        self.bulk_nontrivial += nontrivial
        if klass is not None:
            self.classes[klass] += evaluations

    def note(self, name, n=1):
        self.notes[name] += n

    def is_known(self, v):
        """If v falls into a listed known-finding class, count and return its id."""
        if self._module is not None and hasattr(self._module, 'known_class'):
            kid = self._module.known_class(v.sig, v.case)
            if kid is not None and self._known.get(kid) == 'known':
                self.excluded[kid] += 1
                return kid
        return None

    def violation(self, v):
        """Record a violation unless it is in a known class. Returns True if recorded."""
        if self.is_known(v):
            return False
        if v.sig not in self.failures:
            self.failures[v.sig] = {'sig': v.sig, 'msg': v.msg[:2000], 'case': v.case}
        return True

    def summary(self):
        return {
            'evaluations': self.evaluations,
            'nontrivial': self.nontrivial,
            'bulk_nontrivial': self.bulk_nontrivial,
            'classes': dict(self.classes),
            'samples': self.samples,
            'failures': self.failures,
            'excluded': dict(self.excluded),
            'notes': dict(self.notes),
            'exhaustive': self.exhaustive,
        }


# ---------------------------------------------------------------------------
# Hypothesis driving
# ---------------------------------------------------------------------------
class _CaseCpuTimeout(BaseException):
    pass


def cpu_guarded(fn, case, limit_s):
    """Call fn(case); if it burns more than limit_s seconds of *CPU time* (ITIMER_VIRTUAL: independent of machine
    load, so not a wall-clock oracle) the case is reported as non-terminating. Only code that returns to the
    interpreter can be interrupted this way (a loop inside a C extension cannot)."""
    import signal

    def on_timer(signum, frame):
        raise _CaseCpuTimeout()

    old = signal.signal(signal.SIGVTALRM, on_timer)
    signal.setitimer(signal.ITIMER_VIRTUAL, limit_s)
    # backstop for a loop inside the C extension, where no Python handler can run: SIGPROF with its default action
    # kills the worker after twice the limit; the runner then reports the shard as 'process-crash'
    old_prof = signal.signal(signal.SIGPROF, signal.SIG_DFL)
    signal.setitimer(signal.ITIMER_PROF, 2 * limit_s + 60)
    try:
        return fn(case)
    except _CaseCpuTimeout:
        raise Violation('did-not-terminate', 'the case used more than %d s of CPU time (typical: well under a second) and was abandoned' % limit_s, case)
    finally:
        signal.setitimer(signal.ITIMER_PROF, 0)
        signal.signal(signal.SIGPROF, old_prof)
        signal.setitimer(signal.ITIMER_VIRTUAL, 0)
        signal.signal(signal.SIGVTALRM, old)


def hyp_run(rec, strategy, oracle, max_examples, seed, shrink=True, max_buckets=4,
            shrink_budget_s=60.0, stateful_step_count=None, case_cpu_s=None):
    """Run `oracle(case)` over `strategy` with Hypothesis.

    oracle raises Violation on failure. Violations in a known class are counted
    and swallowed so the search continues behind them. After a failure is found
    and shrunk, its signature is excluded and the search re-runs (same seed) to
    enumerate further root causes, up to max_buckets.
    """
    import hypothesis
    from hypothesis import given, settings, HealthCheck, Phase
    excluded = set()
    limit = case_cpu_s or getattr(getattr(rec, '_module', None), 'CASE_CPU_LIMIT_S', None) or float(os.environ.get('VERIF_CASE_CPU_S', '900'))
    phases = [Phase.generate] + ([Phase.shrink] if shrink else [])
    for _ in range(max_buckets):
        state = {'t0': None, 'last': None, 'failing': {}}

        @hypothesis.seed(seed)
        @settings(max_examples=max_examples, database=None, deadline=None,
                  derandomize=False, report_multiple_bugs=False, phases=phases,
                  suppress_health_check=[HealthCheck.too_slow, HealthCheck.data_too_large,
                                         HealthCheck.large_base_example],
                  verbosity=hypothesis.Verbosity.quiet)
        @given(strategy)
        def test(case):
            if state['t0'] is not None and (time.time() - state['t0'] > shrink_budget_s or state['last'].sig == 'did-not-terminate'):
                # stop shrinking: abort the run and report the best failure found so far (a case that hangs is not
                # shrunk at all: every attempt would cost the whole CPU limit)
                raise _ShrinkTimeout()
            try:
                cpu_guarded(oracle, case, limit)
            except Violation as v:
                if v.sig in excluded:
                    rec.note('excluded-bucket:' + v.sig)
                    return
                if v.case is None:
                    v.case = case
                if rec.is_known(v):
                    return
                if state['t0'] is None:
                    state['t0'] = time.time()
                state['last'] = v
                state['failing'][digest(case)] = v
                raise

        try:
            test()
        except _ShrinkTimeout:
            v = state['last']
            rec.note('shrink-timeout')
            rec.violation(v)
            excluded.add(v.sig)
            if v.sig == 'did-not-terminate':
                # searching on behind a hang would cost the CPU limit for every further case that hangs
                rec.note('search-stopped-after-hang')
                break
            continue
        except Violation as v:
            v = state['last'] or v
            rec.violation(v)
            excluded.add(v.sig)
            continue
        except hypothesis.errors.Flaky:
            # the oracle gave different answers for the same case: report the
            # recorded failure, marked as unreliable
            v = state['last']
            if v is None:
                raise
            v.sig = 'flaky:' + v.sig
            rec.violation(v)
            excluded.add(v.sig[6:])
            continue
        break


# ---------------------------------------------------------------------------
# Known findings
# ---------------------------------------------------------------------------
def load_known(prop):
    path = os.path.join(VERIF, 'known_findings.json')
    if not os.path.exists(path):
        return []
    with open(path) as f:
        data = json.load(f)
    return [e for e in data.get('findings', []) if prop in e.get('properties', [e.get('property')])]


def _worker(args):
    modname, shard, known = args
    try:
        module = importlib.import_module(modname)
        rec = Recorder(module, known)
        t0 = time.time()
        module.run_shard(shard, rec)
        if isinstance(shard, dict) and 'kind' in shard:
            rec.note('cpu_ms:' + str(shard['kind']), int((time.time() - t0) * 1000))
        return ('ok', rec.summary())
    except Violation as v:
        # a shard may raise directly for enumerated spaces
        rec.violation(v)
        return ('ok', rec.summary())
    except BaseException as e:  # harness error
        return ('error', '%s\n%s' % (repr(shard), traceback.format_exc()))


def _run_parallel(tasks, jobs):
    """Run shard tasks in worker processes. A worker that dies (segfault, SIGFPE ...) must not hang the
    check: unfinished shards are re-run one per process to find the one(s) that kill their process."""
    import concurrent.futures as cf
    from concurrent.futures.process import BrokenProcessPool
    ctx = multiprocessing.get_context('fork')
    results = [None] * len(tasks)
    try:
        with cf.ProcessPoolExecutor(jobs, mp_context=ctx) as ex:
            futs = {ex.submit(_worker, t): i for i, t in enumerate(tasks)}
            for fut in cf.as_completed(futs):
                try:
                    results[futs[fut]] = fut.result()
                except BrokenProcessPool:
                    pass
    except BrokenProcessPool:
        pass
    crashed = []
    for i, t in enumerate(tasks):
        if results[i] is None:
            try:
                with cf.ProcessPoolExecutor(1, mp_context=ctx) as ex:
                    results[i] = ex.submit(_worker, t).result()
            except BrokenProcessPool:
                crashed.append(t[1])
                results[i] = ('ok', Recorder().summary())
    return results, crashed


def _replay_worker(args):
    modname, case = args
    module = importlib.import_module(modname)
    try:
        module.replay(case)
    except Violation as v:
        return (v.sig, v.msg)
    return None


def guarded_replay(modname, case):
    """module.replay(case) in a child process. Returns None (held) or a Violation (not raised).
    A child killed by a signal is a violation too (crash inside the C extension)."""
    import concurrent.futures as cf
    from concurrent.futures.process import BrokenProcessPool
    ctx = multiprocessing.get_context('fork')
    try:
        with cf.ProcessPoolExecutor(1, mp_context=ctx) as ex:
            r = ex.submit(_replay_worker, (modname, case)).result()
    except BrokenProcessPool:
        return Violation('process-crash', 'the process died (killed by a signal) while replaying the case', case)
    if r is None:
        return None
    return Violation(r[0], r[1], case)


def _replay_shard(modname, shard, known):
    """Replay of a 'process-crash' finding: run the shard in a child process and see whether it dies."""
    import concurrent.futures as cf
    from concurrent.futures.process import BrokenProcessPool
    ctx = multiprocessing.get_context('fork')
    try:
        with cf.ProcessPoolExecutor(1, mp_context=ctx) as ex:
            kind, summary = ex.submit(_worker, (modname, shard, known)).result()
    except BrokenProcessPool:
        raise Violation('process-crash', 'the worker process died while running shard %r' % (shard,), {'__shard__': shard})
    if kind == 'ok' and summary['failures']:
        f = sorted(summary['failures'].values(), key=lambda x: x['sig'])[0]
        raise Violation(f['sig'], f['msg'], f['case'])


def write_replay(prop, failure):
    os.makedirs(os.path.join(OUT, 'replays'), exist_ok=True)
    blob = json.dumps({'property': prop, 'sig': failure['sig'], 'msg': failure['msg'],
                       'case': failure['case']}, indent=1, sort_keys=True, default=_json_default)
    name = '%s-%s.json' % (prop, hashlib.sha1(blob.encode()).hexdigest()[:12])
    path = os.path.join(OUT, 'replays', name)
    with open(path, 'w') as f:
        f.write(blob)
    return path


def _json_default(o):
    if isinstance(o, (bytes, bytearray)):
        return {'__hex__': bytes(o).hex()}
    if isinstance(o, (set, frozenset)):
        return sorted(o)
    if isinstance(o, tuple):
        return list(o)
    return repr(o)


def load_case(path):
    with open(path) as f:
        data = json.load(f)
    return data['case'] if isinstance(data, dict) and 'case' in data else data


def main(argv=None):
    import argparse
    ap = argparse.ArgumentParser(prog='check')
    ap.add_argument('property')
    ap.add_argument('--tier', default=os.environ.get('VERIF_TIER', 'quick'), choices=['quick', 'thorough'])
    ap.add_argument('--replay')
    ap.add_argument('--jobs', type=int, default=NCPU)
    ap.add_argument('--no-evidence', action='store_true')
    ns = ap.parse_args(argv)
    prop = ns.property.upper()
    if ns.replay:
        ns.replay = os.path.abspath(ns.replay)
    try:
        seed = int(os.environ.get('VERIF_SEED', '1') or '1')
    except ValueError:
        seed = 1
    t0 = time.time()
    try:
        bootstrap.init()
        sys.path.insert(0, VERIF)
        modname = 'checks.' + prop.lower()
        module = importlib.import_module(modname)
    except Exception:
        traceback.print_exc()
        print('HARNESS-ERROR property=%s (bootstrap/import)' % prop)
        return 2

    if ns.replay:
        try:
            case = load_case(ns.replay)
            if isinstance(case, dict) and '__shard__' in case:
                _replay_shard(modname, case['__shard__'], {})
            else:
                module.replay(case)
        except Violation as v:
            print('replay: %s' % v)
            print('VIOLATION property=%s replay=%s' % (prop, ns.replay))
            return 1
        except Exception:
            traceback.print_exc()
            return 2
        print('replay: property held on %s' % ns.replay)
        return 0

    # --- known findings / regression corpus ------------------------------
    known_entries = load_known(prop)
    known_status = {e['id']: e['status'] for e in known_entries}
    violations = []      # (sig, replay path, msg)
    known_lines = []
    known_info = []
    for e in known_entries:
        rp = (e.get('replays') or {}).get(prop)
        if not rp and e.get('replay') and (e.get('properties') or [e.get('property')])[0] == prop:
            rp = e['replay']
        if not rp:
            continue
        path = os.path.join(VERIF, rp)
        if not os.path.exists(path):
            known_info.append({'id': e['id'], 'reproduces': None, 'note': 'replay file missing'})
            continue
        try:
            case = load_case(path)
            failed = guarded_replay(modname, case)
        except Exception:
            traceback.print_exc()
            print('HARNESS-ERROR property=%s (replay of %s)' % (prop, rp))
            return 2
        if e['status'] == 'known':
            if failed is not None:
                known_lines.append('KNOWN-FINDING: property=%s %s: %s' % (prop, e['id'], e['title']))
                known_info.append({'id': e['id'], 'reproduces': True})
            else:
                known_info.append({'id': e['id'], 'reproduces': False})
        elif e['status'] == 'fixed':
            if failed is not None:
                try:
                    other = importlib.import_module(modname).known_class(failed.sig, case)
                except Exception:
                    other = None
                if other and other != e['id'] and known_status.get(other) == 'known':
                    # the old reproducer now runs into a different, listed finding: not a return of the fixed one
                    known_info.append({'id': e['id'], 'reproduces': False, 'note': 'replay reaches known finding %s' % other})
                    continue
                violations.append((failed.sig, path, 'fixed finding %s has returned: %s' % (e['id'], failed.msg)))
    regress_dir = os.path.join(VERIF, 'corpus', prop, 'regress')
    n_regress = 0
    if os.path.isdir(regress_dir):
        for fn in sorted(os.listdir(regress_dir)):
            if not fn.endswith('.json'):
                continue
            path = os.path.join(regress_dir, fn)
            n_regress += 1
            try:
                v = guarded_replay(modname, load_case(path))
                if v is not None:
                    r = Recorder(module, known_status)
                    if not r.is_known(v):
                        violations.append((v.sig, path, v.msg))
            except Exception:
                traceback.print_exc()
                print('HARNESS-ERROR property=%s (regress %s)' % (prop, fn))
                return 2

    # --- the search -------------------------------------------------------
    try:
        shards = module.plan(ns.tier, seed)
    except Exception:
        traceback.print_exc()
        print('HARNESS-ERROR property=%s (plan)' % prop)
        return 2
    tasks = [(modname, s, known_status) for s in shards]
    results = []
    crashed = []
    if ns.jobs <= 1 or len(tasks) <= 1:
        results = [_worker(t) for t in tasks]
    else:
        results, crashed = _run_parallel(tasks, min(ns.jobs, len(tasks)))
    for shard in crashed:
        f = {'sig': 'process-crash', 'msg': 'a worker process died (killed by a signal, e.g. a crash inside the C extension) while running shard %r' % (shard,),
             'case': {'__shard__': shard}}
        violations.append((f['sig'], write_replay(prop, f), f['msg']))
    errors = [r[1] for r in results if r[0] == 'error']
    if errors:
        for e in errors[:3]:
            print(e)
        print('HARNESS-ERROR property=%s (%d shard(s) crashed)' % (prop, len(errors)))
        return 2

    ev = 0
    nontriv = set()
    bulk_nt = 0
    classes = collections.Counter()
    samples = {}
    failures = {}
    excluded = collections.Counter()
    notes = collections.Counter()
    exhaustive = []
    for _, s in results:
        ev += s['evaluations']
        nontriv |= s['nontrivial']
        bulk_nt += s['bulk_nontrivial']
        classes.update(s['classes'])
        for k, lst in s['samples'].items():
            dst = samples.setdefault(k, [])
            for x in lst:
                if len(dst) < 2:
                    dst.append(x)
        for sig, f in s['failures'].items():
            if sig not in failures or len(json.dumps(f['case'], default=_json_default)) < len(json.dumps(failures[sig]['case'], default=_json_default)):
                failures[sig] = f
        excluded.update(s['excluded'])
        notes.update(s['notes'])
        exhaustive.append(bool(s['exhaustive']))
    for sig, f in sorted(failures.items()):
        path = write_replay(prop, f)
        violations.append((sig, path, f['msg']))

    sample_list = []
    for k in sorted(samples):
        for x in samples[k]:
            if len(sample_list) < 16:
                sample_list.append({'class': k, 'case': x} if k else x)
    wall = time.time() - t0
    evidence = {
        'property_id': prop,
        'tier': ns.tier,
        'seed': seed,
        'level': 'exploration',
        'coverage': {
            'evaluations': ev,
            'distinct_nontrivial': len(nontriv) + bulk_nt,
            'rule': module.RULE,
            'samples': sample_list,
            'classes': dict(sorted(classes.items())),
            'exhaustive': bool(exhaustive) and all(exhaustive),
            'exhaustive_shards': sum(exhaustive),
            'shards': len(shards),
            'excluded_known_findings': dict(excluded),
            'known_findings': known_info,
            'regression_replays': n_regress,
            'notes': dict(sorted(notes.items())),
        },
        'assumptions': list(getattr(module, 'ASSUMPTIONS', [])),
        'wall_s': round(wall, 2),
        'violations': len(violations),
    }
    if not ns.no_evidence:
        os.makedirs(os.path.join(VERIF, 'evidence'), exist_ok=True)
        tmp = os.path.join(VERIF, 'evidence', '%s.json.tmp' % prop)
        with open(tmp, 'w') as f:
            json.dump(evidence, f, indent=1, default=_json_default)
            f.write('\n')
        os.replace(tmp, os.path.join(VERIF, 'evidence', '%s.json' % prop))

    for line in known_lines:
        print(line)
    print('%s tier=%s seed=%d evaluations=%d distinct_nontrivial=%d excluded=%s wall=%.1fs' % (
        prop, ns.tier, seed, ev, len(nontriv) + bulk_nt, dict(excluded), wall))
    if violations:
        for sig, path, msg in violations:
            print('  [%s] %s' % (sig, msg[:600].replace('\n', ' | ')))
            print('VIOLATION property=%s replay=%s' % (prop, path))
        return 1
    return 0
