"""Run a function in a forked child with a wall-clock watchdog (the only
observer available for non-termination). Returns
('ok', value) | ('violation', sig, msg) | ('exc', repr) | ('hang',) | ('died',)."""
import os
import pickle
import select
import signal
import time

from vlib.runner import Violation


def run_guarded(fn, timeout=60.0):
    r, w = os.pipe()
    pid = os.fork()
    if pid == 0:
        try:
            os.close(r)
            try:
                payload = ('ok', fn())
            except Violation as v:
                payload = ('violation', v.sig, v.msg)
            except BaseException as x:
                payload = ('exc', repr(x))
            data = pickle.dumps(payload)
            while data:
                n = os.write(w, data)
                data = data[n:]
        finally:
            os._exit(0)
    os.close(w)
    data = b''
    deadline = time.time() + timeout
    try:
        while True:
            left = deadline - time.time()
            if left <= 0:
                os.kill(pid, signal.SIGKILL)
                return ('hang',)
            rl, _, _ = select.select([r], [], [], left)
            if rl:
                chunk = os.read(r, 1 << 20)
                if not chunk:
                    break
                data += chunk
    finally:
        os.close(r)
        try:
            os.waitpid(pid, 0)
        except ChildProcessError:
            pass
    if not data:
        return ('died',)
    return pickle.loads(data)


class _Alarm(BaseException):
    pass


def run_with_alarm(fn, timeout=60.0):
    """Run pure-Python code under a SIGALRM watchdog (no fork). Returns ('ok', value) or ('hang',).
    Only for code that cannot block inside C (the interpreter must get to run the handler)."""
    def handler(signum, frame):
        raise _Alarm()
    old = signal.signal(signal.SIGALRM, handler)
    signal.setitimer(signal.ITIMER_REAL, timeout)
    try:
        return ('ok', fn())
    except _Alarm:
        return ('hang',)
    finally:
        signal.setitimer(signal.ITIMER_REAL, 0)
        signal.signal(signal.SIGALRM, old)
