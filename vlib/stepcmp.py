"""Single-instruction comparison of the simulators under test with ref/z80ref.

A *case* is a JSON-able dict:
    pc      address of the instruction
    code    list of bytes placed at pc, pc+1, ... (wrapping at 64K)
    regs    dict z80ref-attribute -> value (missing = 0; im defaults to 1)
    cells   list of [addr, value] memory cells set before the code bytes
    salt    port-value salt
The env keeps one instance of each simulator and zeroed 64K memories, sets the
case up in place, steps the reference and each simulator once, compares, and
restores the touched cells.
"""
from ref import z80ref, ula
from vlib import simdrv
from vlib.runner import Violation, crash_sig

CMP_REGS = [(n, s) for n, s in simdrv.REGMAP if n not in ('f', 't')]


class StepEnv:
    def __init__(self, impls=simdrv.IMPLS, frame=69888, int_active=32, o7ffd=None):
        """o7ffd=None: 48K list memory; otherwise 128K paged memory with that (fixed) paging value."""
        self.is128 = o7ffd is not None
        if self.is128:
            frame, int_active = 70908, 36
        self.frame = frame
        self.impls = tuple(impls)
        self.refmem = bytearray(65536)
        self.shadow = [0] * 65536
        self.sims = {}
        self.logs = {}
        self.last_regs = {}
        for impl in self.impls:
            if self.is128:
                sim, regs, mem = simdrv.make128(impl, [[0] * 16384 for _ in range(8)], o7ffd)
                for rom in mem.roms:
                    rom[:] = bytes(16384) if isinstance(rom, bytearray) else [0] * 16384
            else:
                sim, regs, mem = simdrv.make48(impl, None, {'frame_duration': frame, 'int_active': int_active})
            log = simdrv.PortLog()
            sim.set_tracer(log)
            self.sims[impl] = (sim, regs, mem)
            self.logs[impl] = log
        self.z = z80ref.Z80(self.refmem, frame_duration=frame, int_active=int_active)
        self.reflog = simdrv.PortLog()
        self.z.inp = self._ref_in
        self.z.outp = self._ref_out

    def _ref_in(self, port):
        v = self.reflog.value(port, len(self.reflog.log))
        self.reflog.log.append(('r', port, v))
        return v

    def _ref_out(self, port, value):
        self.reflog.log.append(('w', port, value))

    def _zero_all(self):
        self.refmem[:] = bytes(65536)
        self.shadow[:] = [0] * 65536
        for sim, regs, mem in self.sims.values():
            if self.is128:
                for part in list(mem.banks) + list(mem.roms):
                    part[:] = bytes(16384) if isinstance(part, bytearray) else [0] * 16384
            elif isinstance(mem, list):
                mem[:] = [0] * 65536
            else:
                mem[:] = bytes(65536)

    def run_case(self, case, full_mem=True, t_expect=None, cmp_f_mask=None):
        """Returns (step, details). Raises Violation."""
        try:
            return self._run(case, full_mem, t_expect, cmp_f_mask)
        except Violation:
            self._zero_all()
            raise

    def _run(self, case, full_mem, t_expect, cmp_f_mask):
        pc = case['pc'] & 0xFFFF
        code = case['code']
        salt = case.get('salt', 0)
        touched = []
        mems = [m for _, _, m in self.sims.values()]
        refmem, shadow = self.refmem, self.shadow
        for addr, val in case.get('cells', ()):
            addr &= 0xFFFF
            touched.append(addr)
            refmem[addr] = val
            shadow[addr] = val
            for m in mems:
                m[addr] = val
        for k, b in enumerate(code):
            addr = (pc + k) & 0xFFFF
            touched.append(addr)
            refmem[addr] = b
            shadow[addr] = b
            for m in mems:
                m[addr] = b
        regs0 = {'im': 1}
        regs0.update(case.get('regs', {}))
        regs0['pc'] = pc
        z = self.z
        for name in z80ref.Z80.REGS:
            setattr(z, name, regs0.get(name, 0))
        self.reflog.log = []
        self.reflog.salt = salt
        s = z.step()
        for a, v in s.writes:
            touched.append(a)
            if a >= 0x4000:
                shadow[a] = v
        t0 = regs0.get('t', 0)
        fmask = s.fmask if cmp_f_mask is None else cmp_f_mask
        hx = ' '.join('%02X' % b for b in code)
        results = {}
        for impl in self.impls:
            sim, regs, mem = self.sims[impl]
            for i in range(30):
                regs[i] = 0
            simdrv.set_regs(regs, regs0)
            log = self.logs[impl]
            log.log = []
            log.salt = salt
            try:
                sim.run(pc)
            except Exception as x:
                raise Violation(crash_sig(x, 'sim-' + impl), '%s simulator raised %r executing %s' % (impl, x, hx), case)
            # registers
            for name, slot in CMP_REGS:
                got = int(regs[slot])
                want = getattr(z, name)
                if got != want:
                    raise Violation('reg:%s:%s' % (s.name, name), '%s [%s] %s: %s=%d (0x%X), reference %d (0x%X)' % (impl, s.name, hx, name, got, got, want, want), case)
            gf = int(regs[simdrv.F])
            if (gf ^ z.f) & fmask or not 0 <= gf <= 255:
                raise Violation('flags:%s' % s.name, '%s [%s] %s: F=0x%02X, reference 0x%02X under documented mask 0x%02X' % (impl, s.name, hx, gf, z.f, fmask), case)
            if int(regs[simdrv.SP2]) != 0:
                raise Violation('reg:sp2', '%s [%s] %s: dummy SP high slot = %d' % (impl, s.name, hx, int(regs[simdrv.SP2])), case)
            dt = int(regs[simdrv.T]) - t0
            results[impl] = dt
            if t_expect is None:
                if dt != s.t:
                    raise Violation('tstates:%s' % s.name, '%s [%s] %s: took %d T-states, reference %d' % (impl, s.name, hx, dt, s.t), case)
            # ports
            if log.log != s.ports:
                raise Violation('ports:%s' % s.name, '%s [%s] %s: port accesses %r, reference %r' % (impl, s.name, hx, log.log[:6], s.ports[:6]), case)
            self.last_regs[impl] = [int(x) for x in regs[:30]]
            # memory
            if self.is128:
                ok = all(mem[a] == refmem[a] for a in touched)
            elif isinstance(mem, list):
                if full_mem:
                    ok = mem == shadow
                else:
                    ok = all(mem[a] == shadow[a] for a in touched)
            else:
                ok = mem == refmem
            if not ok:
                bad = [a for a in (touched if self.is128 else range(65536)) if mem[a] != refmem[a]][:4]
                raise Violation('memory:%s' % s.name, '%s [%s] %s: memory differs from reference at %s (got %s, want %s)' % (
                    impl, s.name, hx, bad, [mem[a] for a in bad], [refmem[a] for a in bad]), case)
        if t_expect is not None:
            t_expect(s, z, results, case)
        for a in touched:
            refmem[a] = 0
            shadow[a] = 0
            for m in mems:
                m[a] = 0
        return s, results
